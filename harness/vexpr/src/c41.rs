//! C41 driver: every case is executed (a) as SQL text with literals, (b) PREPARE (typed / untyped) + EXECUTE,
//! (c) `ctx.sql(..)` + `DataFrame::with_param_values` with positional and with named parameters.
//! Input line: {id, tables, sql (literal), sql_pos ($1..), sql_named ($p1..), params:[{"v":value,"t":kind}], exec_args:[sql text per param]}
//! Output line: {id, modes: {name: {"rows":[..]} | {"err": msg}}}
use datafusion::prelude::*;
use datafusion_common::{ParamValues, ScalarValue};
use serde_json::{Value, json};
use vcommon::sqlexec::{ExecOpts, batches_to_rows, register_tables, session, STR_POOL};
use vcommon::util;

fn scalar(p: &Value) -> ScalarValue {
    let v = &p["v"];
    let null = v["k"] == "n";
    let n = v["v"].as_i64().unwrap_or(0);
    match p["t"].as_str().unwrap() {
        "i" => ScalarValue::Int64(if null { None } else { Some(n) }),
        "b" => ScalarValue::Boolean(if null { None } else { Some(n == 1) }),
        "s" => ScalarValue::Utf8(if null { None } else { Some(STR_POOL[n as usize].to_string()) }),
        t => panic!("param kind {t}"),
    }
}

fn sqltype(t: &str) -> &'static str {
    match t {
        "i" => "BIGINT",
        "b" => "BOOLEAN",
        "s" => "VARCHAR",
        t => panic!("param kind {t}"),
    }
}

async fn fresh(case: &Value, opts: &ExecOpts) -> Result<SessionContext, String> {
    let ctx = session(opts)?;
    register_tables(&ctx, case, opts)?;
    Ok(ctx)
}

async fn run_text(ctx: &SessionContext, sql: &str) -> Result<Vec<Value>, String> {
    let df = ctx.sql(sql).await.map_err(|e| format!("plan: {e}"))?;
    let b = df.collect().await.map_err(|e| format!("exec: {e}"))?;
    Ok(batches_to_rows(&b))
}

async fn run_case(case: Value, opts: ExecOpts) -> Value {
    let params: Vec<Value> = case["params"].as_array().unwrap().clone();
    let mut modes = serde_json::Map::new();
    let mut put = |name: &str, r: Result<Vec<Value>, String>| {
        modes.insert(name.to_string(), match r {
            Ok(rows) => json!({"rows": rows}),
            Err(e) => json!({"err": e}),
        });
    };
    // (a) literal SQL
    let r = match fresh(&case, &opts).await {
        Ok(ctx) => run_text(&ctx, case["sql"].as_str().unwrap()).await,
        Err(e) => Err(e),
    };
    put("literal", r);
    // (b) PREPARE with declared types / with inferred types, then EXECUTE
    let args: Vec<String> = case["exec_args"].as_array().unwrap().iter().map(|x| x.as_str().unwrap().to_string()).collect();
    for typed in [true, false] {
        let name = if typed { "prepare-typed" } else { "prepare-inferred" };
        let r = async {
            let ctx = fresh(&case, &opts).await?;
            let types = if typed && !params.is_empty() {
                format!("({})", params.iter().map(|p| sqltype(p["t"].as_str().unwrap())).collect::<Vec<_>>().join(", "))
            } else {
                String::new()
            };
            let prep = format!("PREPARE q{types} AS {}", case["sql_pos"].as_str().unwrap());
            run_text(&ctx, &prep).await.map_err(|e| format!("prepare: {e}"))?;
            let exec = if args.is_empty() { "EXECUTE q".to_string() } else { format!("EXECUTE q({})", args.join(", ")) };
            run_text(&ctx, &exec).await
        }
        .await;
        put(name, r);
    }
    // (c) DataFrame::with_param_values, positional and named
    let r = async {
        let ctx = fresh(&case, &opts).await?;
        let df = ctx.sql(case["sql_pos"].as_str().unwrap()).await.map_err(|e| format!("plan: {e}"))?;
        let vals: Vec<ScalarValue> = params.iter().map(scalar).collect();
        let df = df.with_param_values(ParamValues::from(vals)).map_err(|e| format!("bind: {e}"))?;
        let b = df.collect().await.map_err(|e| format!("exec: {e}"))?;
        Ok(batches_to_rows(&b))
    }
    .await;
    put("dataframe-positional", r);
    let r = async {
        let ctx = fresh(&case, &opts).await?;
        let df = ctx.sql(case["sql_named"].as_str().unwrap()).await.map_err(|e| format!("plan: {e}"))?;
        let vals: Vec<(String, ScalarValue)> = params.iter().enumerate().map(|(i, p)| (format!("p{}", i + 1), scalar(p))).collect();
        let df = df.with_param_values(ParamValues::from(vals)).map_err(|e| format!("bind: {e}"))?;
        let b = df.collect().await.map_err(|e| format!("exec: {e}"))?;
        Ok(batches_to_rows(&b))
    }
    .await;
    put("dataframe-named", r);
    json!({"id": case["id"], "modes": modes})
}

pub fn main() {
    let inp = util::arg("--in").expect("--in");
    let out = util::arg("--out").expect("--out");
    let cases = util::read_ndjson(&inp);
    let rt = tokio::runtime::Builder::new_multi_thread().worker_threads(4).enable_all().build().unwrap();
    let mut results = vec![];
    let mut panics = 0;
    for c in &cases {
        let c2 = c.clone();
        let r = rt.block_on(async move { tokio::spawn(run_case(c2, ExecOpts::default())).await });
        match r {
            Ok(v) => results.push(v),
            Err(e) => {
                panics += 1;
                results.push(json!({"id": c["id"], "panic": format!("{e}")}));
            }
        }
    }
    util::write_ndjson(&out, &results);
    util::summary(json!({"cases": cases.len(), "panics": panics}));
}
