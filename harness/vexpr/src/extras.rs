//! C04, engine-vs-engine corpus for simplifier rule families that have no TLA+ reference (date_part / floor preimage,
//! date_trunc, casts to strings / dates / timestamps / dictionaries, float identities, power / log, string concat,
//! regexp_like, upper / lower / character_length, shifts by a column): every expression is coerced, simplified by the
//! real ExprSimplifier (and PhysicalExprSimplifier) and both forms are evaluated on every row of a small table; a row on
//! which the original evaluates to a value and the simplified form to a different value / type / an error is reported.

use crate::ast;
use crate::c33::{Outcome, eval, panic_msg};
use arrow::array::*;
use arrow::datatypes::{DataType, Field, Int32Type, Schema, TimeUnit};
use arrow::record_batch::RecordBatch;
use arrow::util::display::array_value_to_string;
use datafusion::functions::{datetime, math, regex, string, unicode};
use datafusion::physical_expr::PhysicalExpr;
use datafusion::physical_expr::simplifier::PhysicalExprSimplifier;
use datafusion::prelude::SessionContext;
use datafusion_common::{DFSchema, ScalarValue};
use datafusion_expr::expr::{Between, Cast, InList, Like};
use datafusion_expr::simplify::SimplifyContext;
use datafusion_expr::{BinaryExpr, Expr, Operator, col, lit};
use datafusion_optimizer::simplify_expressions::ExprSimplifier;
use serde_json::{Value, json};
use std::panic::{AssertUnwindSafe, catch_unwind};
use std::sync::Arc;

const DAY_NS: i64 = 86_400_000_000_000;

/// table D: d DATE, ts TIMESTAMP(ns), f DOUBLE, s VARCHAR, dc DICTIONARY(INT, VARCHAR), n INT — values around year
/// boundaries, float specials, numeric-looking strings; 180 rows cycling with different periods
pub fn table_d() -> RecordBatch {
    let days = [None, Some(19722), Some(19723), Some(19782), Some(20088), Some(20089)];
    let tss = [None, Some(19723 * DAY_NS - 1), Some(19723 * DAY_NS), Some((19723 + 166) * DAY_NS + DAY_NS / 2), Some(20088 * DAY_NS + 86_399_000_000_000), Some(20089 * DAY_NS), Some(19722 * DAY_NS)];
    let fs = [None, Some(-1.5), Some(0.0), Some(1.0), Some(2.0), Some(f64::NAN), Some(-0.0), Some(f64::INFINITY)];
    let ss = [None, Some("1"), Some("01"), Some("a"), Some("2024"), Some("")];
    let dcs = [None, Some("a"), Some("b"), Some("ab")];
    let ns = [None, Some(-1), Some(0), Some(1), Some(2024), Some(2023), Some(2025), Some(i32::MAX), Some(i32::MIN)];
    let n = 180;
    let schema = Arc::new(Schema::new(vec![
        Field::new("d", DataType::Date32, true),
        Field::new("ts", DataType::Timestamp(TimeUnit::Nanosecond, None), true),
        Field::new("f", DataType::Float64, true),
        Field::new("s", DataType::Utf8, true),
        Field::new("dc", DataType::Dictionary(Box::new(DataType::Int32), Box::new(DataType::Utf8)), true),
        Field::new("n", DataType::Int32, true),
    ]));
    let cols: Vec<ArrayRef> = vec![
        Arc::new(Date32Array::from((0..n).map(|i| days[i % days.len()]).collect::<Vec<_>>())),
        Arc::new(TimestampNanosecondArray::from((0..n).map(|i| tss[(i / 2) % tss.len()]).collect::<Vec<_>>())),
        Arc::new(Float64Array::from((0..n).map(|i| fs[(i / 3) % fs.len()]).collect::<Vec<_>>())),
        Arc::new(StringArray::from((0..n).map(|i| ss[(i / 5) % ss.len()]).collect::<Vec<_>>())),
        Arc::new((0..n).map(|i| dcs[(i / 7) % dcs.len()]).collect::<DictionaryArray<Int32Type>>()),
        Arc::new(Int32Array::from((0..n).map(|i| ns[i % ns.len()]).collect::<Vec<_>>())),
    ];
    RecordBatch::try_new(schema, cols).unwrap()
}

fn bin(l: Expr, op: Operator, r: Expr) -> Expr {
    Expr::BinaryExpr(BinaryExpr::new(Box::new(l), op, Box::new(r)))
}
fn cast(e: Expr, dt: DataType) -> Expr {
    Expr::Cast(Cast::new(Box::new(e), dt))
}
fn like(e: Expr, p: &str, neg: bool, ci: bool) -> Expr {
    Expr::Like(Like::new(neg, Box::new(e), Box::new(lit(p)), None, ci))
}

const CMPS: [Operator; 8] = [Operator::Eq, Operator::NotEq, Operator::Lt, Operator::LtEq, Operator::Gt, Operator::GtEq, Operator::IsDistinctFrom, Operator::IsNotDistinctFrom];

/// (family, table, expression)
pub fn corpus() -> Vec<(&'static str, &'static str, Expr)> {
    let mut v: Vec<(&'static str, &'static str, Expr)> = vec![];
    let date = |d: i32| Expr::Literal(ScalarValue::Date32(Some(d)), None);
    let ts = |t: i64| Expr::Literal(ScalarValue::TimestampNanosecond(Some(t), None), None);
    // --- date_part preimage, date_trunc, temporal casts
    for c in ["d", "ts"] {
        for op in CMPS {
            for y in [2023i32, 2024, 2025] {
                v.push(("date_part-preimage", "D", bin(datetime::date_part().call(vec![lit("year"), col(c)]), op, lit(y))));
            }
            v.push(("date_part-preimage", "D", bin(lit(2024i32), op, datetime::date_part().call(vec![lit("YEAR"), col(c)]))));
            v.push(("date_part", "D", bin(datetime::date_part().call(vec![lit("month"), col(c)]), op, lit(1i32))));
        }
        for neg in [false, true] {
            v.push(("date_part-preimage", "D", Expr::InList(InList::new(Box::new(datetime::date_part().call(vec![lit("year"), col(c)])), vec![lit(2024i32), lit(2025i32)], neg))));
            v.push(("date_part-preimage", "D", Expr::Between(Between::new(Box::new(datetime::date_part().call(vec![lit("year"), col(c)])), neg, Box::new(lit(2024i32)), Box::new(lit(2024i32))))));
            v.push(("date_part-preimage", "D", bin(Expr::Not(Box::new(bin(datetime::date_part().call(vec![lit("year"), col(c)]), Operator::Eq, lit(2024i32)))), Operator::Or, col(c).is_null())));
        }
    }
    for op in CMPS {
        for g in ["year", "month", "day"] {
            v.push(("date_trunc", "D", bin(datetime::date_trunc().call(vec![lit(g), col("ts")]), op, ts(19723 * DAY_NS))));
        }
        v.push(("temporal-cast", "D", bin(cast(col("ts"), DataType::Date32), op, date(19723))));
        v.push(("temporal-cast", "D", bin(cast(col("d"), DataType::Timestamp(TimeUnit::Nanosecond, None)), op, ts(19723 * DAY_NS))));
        v.push(("temporal-cast", "D", bin(cast(col("d"), DataType::Timestamp(TimeUnit::Nanosecond, None)), op, ts(19723 * DAY_NS + 1))));
        v.push(("temporal-cast", "D", bin(col("d"), op, date(20088))));
        // --- unwrap_cast with strings / dictionaries / wider ints / floats
        for s in ["1", "01", "a", "2024"] {
            v.push(("cast-to-string", "D", bin(cast(col("n"), DataType::Utf8), op, lit(s))));
        }
        v.push(("cast-unwrap", "D", bin(cast(col("n"), DataType::Int64), op, lit(2024i64))));
        v.push(("cast-unwrap", "D", bin(cast(col("n"), DataType::Int64), op, lit(i32::MAX as i64 + 1))));
        v.push(("cast-unwrap", "D", bin(cast(col("n"), DataType::Int64), op, lit(i32::MIN as i64))));
        v.push(("cast-unwrap", "D", bin(cast(col("n"), DataType::Float64), op, lit(0.5f64))));
        v.push(("cast-unwrap", "D", bin(cast(col("n"), DataType::Float64), op, lit(1.0f64))));
        v.push(("cast-unwrap", "D", bin(cast(col("s"), DataType::Int32), op, lit(1i32))));
        v.push(("cast-unwrap", "D", bin(Expr::TryCast(datafusion_expr::expr::TryCast::new(Box::new(col("s")), DataType::Int32)), op, lit(1i32))));
        v.push(("dictionary", "D", bin(cast(col("dc"), DataType::Utf8), op, lit("a"))));
        v.push(("dictionary", "D", bin(col("dc"), op, lit("ab"))));
        v.push(("dictionary", "D", bin(cast(col("dc"), DataType::Utf8View), op, Expr::Literal(ScalarValue::Utf8View(Some("b".into())), None))));
        // --- floats
        v.push(("float", "D", bin(col("f"), op, col("f"))));
        v.push(("float", "D", bin(bin(col("f"), Operator::Multiply, lit(0.0f64)), op, lit(0.0f64))));
        v.push(("float", "D", bin(cast(col("f"), DataType::Int64), op, lit(1i64))));
        v.push(("float", "D", bin(math::floor().call(vec![col("f")]), op, lit(1.0f64))));
        v.push(("float", "D", bin(math::floor().call(vec![col("f")]), op, lit(1.5f64))));
    }
    for e in [
        bin(col("f"), Operator::Multiply, lit(1.0f64)),
        bin(lit(1.0f64), Operator::Multiply, col("f")),
        bin(col("f"), Operator::Divide, lit(1.0f64)),
        bin(col("f"), Operator::Plus, lit(0.0f64)),
        bin(col("f"), Operator::Multiply, lit(0.0f64)),
        bin(lit(0.0f64), Operator::Multiply, col("f")),
        bin(col("f"), Operator::Modulo, lit(1.0f64)),
        bin(col("f"), Operator::Divide, col("f")),
        bin(col("f"), Operator::Minus, col("f")),
        Expr::Negative(Box::new(Expr::Negative(Box::new(col("f"))))),
        math::power().call(vec![col("f"), lit(0.0f64)]),
        math::power().call(vec![col("f"), lit(1.0f64)]),
        math::power().call(vec![col("f"), lit(2.0f64)]),
        math::power().call(vec![lit(2.0f64), col("f")]),
        math::power().call(vec![col("n"), lit(1i64)]),
        math::power().call(vec![col("n"), lit(0i64)]),
        math::log().call(vec![lit(2.0f64), col("f")]),
        math::log().call(vec![col("f"), col("f")]),
        math::log().call(vec![col("f"), lit(1.0f64)]),
    ] {
        v.push(("float-identities-power-log", "D", e));
    }
    // --- strings: concat folding, ||, regexp_like, LIKE on dictionary
    let s = || col("s");
    for e in [
        string::concat().call(vec![s(), lit("a")]),
        string::concat().call(vec![lit("x"), lit("y"), s()]),
        string::concat().call(vec![lit("x"), Expr::Literal(ScalarValue::Utf8(None), None), s(), lit("")]),
        string::concat().call(vec![s()]),
        string::concat().call(vec![s(), lit("a"), lit("b"), s(), lit("c"), lit("d")]),
        string::concat_ws().call(vec![lit(","), s(), lit("a")]),
        string::concat_ws().call(vec![lit(","), lit("x"), Expr::Literal(ScalarValue::Utf8(None), None), lit("y"), s()]),
        string::concat_ws().call(vec![Expr::Literal(ScalarValue::Utf8(None), None), s(), lit("a")]),
        string::concat_ws().call(vec![lit(""), s(), lit("a"), lit("b")]),
        bin(s(), Operator::StringConcat, lit("a")),
        bin(bin(lit("a"), Operator::StringConcat, lit("b")), Operator::StringConcat, s()),
        bin(s(), Operator::StringConcat, Expr::Literal(ScalarValue::Utf8(None), None)),
        bin(bin(s(), Operator::StringConcat, lit("x")), Operator::Eq, lit("1x")),
        regex::regexp_like().call(vec![s(), lit("^1$")]),
        regex::regexp_like().call(vec![s(), lit("0"), lit("i")]),
        regex::regexp_like().call(vec![s(), lit("A"), lit("i")]),
        regex::regexp_like().call(vec![s(), Expr::Literal(ScalarValue::Utf8(None), None)]),
        string::starts_with().call(vec![s(), lit("0")]),
        string::starts_with().call(vec![s(), lit("")]),
        string::ends_with().call(vec![s(), lit("1")]),
        like(col("dc"), "a%", false, false),
        like(col("dc"), "%", true, false),
        like(col("dc"), "AB", false, true),
        like(col("dc"), "ab", true, false),
        bin(col("dc"), Operator::RegexMatch, lit("^a$")),
        bin(col("dc"), Operator::RegexIMatch, lit("^(A|b)$")),
        bin(col("dc"), Operator::RegexNotMatch, lit("b")),
        Expr::InList(InList::new(Box::new(col("dc")), vec![lit("a"), lit("x")], false)),
        Expr::InList(InList::new(Box::new(col("dc")), vec![lit("a"), Expr::Literal(ScalarValue::Utf8(None), None)], true)),
    ] {
        v.push(("string-functions", "D", e));
    }
    // --- table C (strings with _ % . as characters)
    let c1 = || col("c1");
    for e in [
        bin(string::upper().call(vec![c1()]), Operator::Eq, lit("FOXO")),
        bin(string::lower().call(vec![c1()]), Operator::Eq, lit("foxo")),
        bin(unicode::character_length().call(vec![c1()]), Operator::Eq, lit(4i64)),
        like(bin(c1(), Operator::StringConcat, lit("x")), "fo\\_o%", false, false),
        like(string::concat().call(vec![c1(), lit("_")]), "%\\_\\_", false, false),
        bin(string::concat().call(vec![c1(), lit("o")]), Operator::RegexMatch, lit("oo$")),
        regex::regexp_like().call(vec![c1(), lit("^fo_o$")]),
        regex::regexp_like().call(vec![c1(), lit("^FO_O$"), lit("i")]),
        regex::regexp_like().call(vec![c1(), lit("fo%o")]),
        regex::regexp_like().call(vec![c1(), lit("^(fo_o|a.b)$")]),
        string::ends_with().call(vec![c1(), lit("_o")]),
        string::starts_with().call(vec![c1(), lit("fo%")]),
        string::starts_with().call(vec![string::concat().call(vec![c1(), lit("%")]), lit("fo_o%")]),
        bin(c1(), Operator::RegexMatch, lit("^fo[_%]o$")),
        bin(c1(), Operator::RegexIMatch, lit("^f(o_|ox)o$")),
        bin(c1(), Operator::RegexMatch, lit("fo_o|^a\\.b$")),
        bin(c1(), Operator::RegexNotMatch, lit("^(?:fo_o)$")),
        bin(c1(), Operator::RegexMatch, lit("^fo_o$|^fo%o$")),
        bin(c1(), Operator::RegexNotIMatch, lit("^FO%O$")),
    ] {
        v.push(("string-functions-wildcard-characters", "C", e));
    }
    // --- table A (BIGINT c1, c2): shifts / bitwise with a column count, modulo / division identities
    let a = || col("c1");
    let b = || col("c2");
    for e in [
        bin(a(), Operator::BitwiseShiftLeft, b()),
        bin(a(), Operator::BitwiseShiftRight, b()),
        bin(bin(a(), Operator::BitwiseAnd, b()), Operator::BitwiseOr, a()),
        bin(bin(a(), Operator::BitwiseXor, b()), Operator::BitwiseXor, b()),
        bin(Expr::Negative(Box::new(a())), Operator::BitwiseAnd, a()),
        bin(a(), Operator::Modulo, lit(-1i64)),
        bin(a(), Operator::Modulo, a()),
        bin(bin(a(), Operator::Multiply, lit(4i64)), Operator::Divide, lit(4i64)),
        bin(bin(a(), Operator::Multiply, lit(2i64)), Operator::Gt, lit(2i64)),
        bin(bin(a(), Operator::Plus, lit(1i64)), Operator::Gt, bin(b(), Operator::Plus, lit(1i64))),
        bin(bin(a(), Operator::Minus, b()), Operator::Eq, lit(0i64)),
        bin(bin(a(), Operator::BitwiseShiftLeft, lit(1i64)), Operator::Eq, bin(a(), Operator::Multiply, lit(2i64))),
        bin(bin(a(), Operator::BitwiseShiftLeft, lit(64i64)), Operator::Eq, a()),
        bin(a(), Operator::BitwiseShiftRight, lit(64i64)),
        bin(a(), Operator::BitwiseShiftLeft, lit(-1i64)),
    ] {
        v.push(("integer-identities", "A", e));
    }
    v
}

fn show(a: &ArrayRef, i: usize) -> String {
    let v = if a.is_null(i) { "NULL".to_string() } else { array_value_to_string(a, i).unwrap_or_else(|e| format!("?{e}")) };
    format!("{}:{}", a.data_type(), v)
}

fn column(phys: &Arc<dyn PhysicalExpr>, batch: &RecordBatch) -> Vec<Result<String, String>> {
    let n = batch.num_rows();
    if let Outcome::Arr(a) = eval(phys, batch, None) {
        if a.len() == n {
            return (0..n).map(|i| Ok(show(&a, i))).collect();
        }
    }
    (0..n)
        .map(|i| match eval(phys, &batch.slice(i, 1), None) {
            Outcome::Arr(a) if a.len() == 1 => Ok(show(&a, 0)),
            Outcome::Arr(a) => Err(format!("{} rows for a 1-row batch", a.len())),
            Outcome::Err(e) => Err(e),
            Outcome::Panic(e) => Err(format!("PANIC: {e}")),
        })
        .collect()
}

fn diff(cb: &[Result<String, String>], ca: &[Result<String, String>], rows_compared: &mut u64) -> Vec<Value> {
    let mut d = vec![];
    for i in 0..cb.len() {
        if let Ok(b) = &cb[i] {
            *rows_compared += 1;
            match &ca[i] {
                Ok(a) if a == b => {}
                Ok(a) => d.push(json!({"row": i, "before": b, "after": a})),
                Err(e) => d.push(json!({"row": i, "before": b, "after_error": e})),
            }
        }
    }
    d
}

/// Runs the corpus; returns result records (same shape as the main C04 results, variant "extra:<family>") and counters.
pub fn run(header: &Value) -> (Vec<Value>, Value) {
    let ctx = SessionContext::new();
    let mut out = vec![];
    let (mut n, mut changed, mut rows, mut errors, mut phys_changed) = (0u64, 0u64, 0u64, 0u64, 0u64);
    let mut fam = std::collections::BTreeMap::<String, u64>::new();
    let td = table_d();
    let ta = ast::table_batch(&header["tables"]["A"], true).1;
    let tc = header["tables"].get("C").map(|t| ast::table_batch(t, true).1);
    for (k, (family, tname, e)) in corpus().into_iter().enumerate() {
        let batch = match tname {
            "A" => &ta,
            "C" => match &tc {
                Some(b) => b,
                None => continue,
            },
            _ => &td,
        };
        let schema = batch.schema();
        let dfschema = Arc::new(DFSchema::try_from(schema.as_ref().clone()).unwrap());
        let mut r = json!({"ev": format!("extra-{k}"), "variant": format!("extra:{family}"), "extra": true, "expr": format!("{e}"), "table": tname, "scope_rows": batch.num_rows()});
        let prepared = catch_unwind(AssertUnwindSafe(|| {
            let sctx = SimplifyContext::builder().with_schema(Arc::clone(&dfschema)).build();
            let s = ExprSimplifier::new(sctx);
            let before = s.coerce(e.clone(), dfschema.as_ref())?;
            let after = s.simplify(before.clone())?;
            Ok::<_, datafusion_common::DataFusionError>((before, after))
        }));
        let (before, after) = match prepared {
            Ok(Ok(x)) => x,
            Ok(Err(err)) => {
                errors += 1;
                r["simplify_error"] = json!(err.to_string());
                out.push(r);
                continue;
            }
            Err(p) => {
                errors += 1;
                r["simplify_error"] = json!(format!("PANIC: {}", panic_msg(p)));
                out.push(r);
                continue;
            }
        };
        n += 1;
        *fam.entry(family.to_string()).or_insert(0) += 1;
        r["after"] = json!(format!("{after}"));
        if after != before {
            changed += 1;
            r["changed"] = json!(true);
        }
        let pb = catch_unwind(AssertUnwindSafe(|| ctx.create_physical_expr(before.clone(), dfschema.as_ref())));
        let pa = catch_unwind(AssertUnwindSafe(|| ctx.create_physical_expr(after.clone(), dfschema.as_ref())));
        match (pb, pa) {
            (Ok(Ok(pb)), Ok(Ok(pa))) => {
                let cb = column(&pb, batch);
                let ca = column(&pa, batch);
                let d = diff(&cb, &ca, &mut rows);
                if !d.is_empty() {
                    r["engine_diff_count"] = json!(d.len());
                    r["engine_diffs"] = json!(d.iter().take(5).collect::<Vec<_>>());
                }
                // physical simplifier on the unsimplified physical expression
                if let Ok(Ok(ps)) = catch_unwind(AssertUnwindSafe(|| PhysicalExprSimplifier::new(schema.as_ref()).simplify(Arc::clone(&pb)))) {
                    if format!("{ps}") != format!("{pb}") {
                        phys_changed += 1;
                    }
                    let cp = column(&ps, batch);
                    let d = diff(&cb, &cp, &mut rows);
                    if !d.is_empty() {
                        let mut r2 = r.clone();
                        r2["ev"] = json!(format!("extra-{k}-phys"));
                        r2["variant"] = json!(format!("extra-physical:{family}"));
                        r2["after"] = json!(format!("{ps}"));
                        r2["engine_diff_count"] = json!(d.len());
                        r2["engine_diffs"] = json!(d.iter().take(5).collect::<Vec<_>>());
                        out.push(r2);
                    }
                }
            }
            (Ok(Ok(_)), Ok(Err(e))) => r["after_plan_error"] = json!(e.to_string()),
            (Ok(Ok(_)), Err(p)) => r["after_plan_error"] = json!(format!("PANIC: {}", panic_msg(p))),
            _ => r["before_plan_error"] = json!(true),
        }
        out.push(r);
    }
    (out, json!({"extra_expressions": n, "extra_changed": changed, "extra_rows_compared": rows, "extra_simplify_errors": errors,
                 "extra_physical_changed": phys_changed, "extra_by_family": fam}))
}
