//! AST (spec/lib/AST.md + the like/casex/cast/tbin/tun nodes of spec/lib/Expr.tla) -> logical `Expr`,
//! the exhaustive small-scope tables of spec/sem/ExprGen.tla, and decoding of result arrays into the
//! compact value codes TLC prints (`Code(v)`: ERR / NULL codes, else the integer / boolean / pool index).

use arrow::array::*;
use arrow::datatypes::{DataType, Field, Schema, SchemaRef};
use arrow::record_batch::RecordBatch;
use datafusion::functions::core::expr_fn::{coalesce, nullif};
use datafusion::functions::math::expr_fn::abs;
use datafusion_common::{Column, ScalarValue};
use datafusion_expr::expr::{Between, Case, Cast, InList, Like, TryCast};
use datafusion_expr::{BinaryExpr, Expr, Operator};
use serde_json::Value;
use std::sync::Arc;

pub const STR_POOL: [&str; 4] = ["", "a", "ab", "b"]; // index 0 unused
/// second string pool (value kind "x", table C): LIKE wildcards / regex metacharacters as ordinary characters; byte order
pub const XPOOL: [&str; 9] = ["", "FOXO", "a", "a.b", "ab", "b", "fo%o", "fo_o", "foxo"];

/// character codes of spec/lib/Expr.tla (XPoolChars / likex / regex items)
pub fn cchar(code: i64) -> char {
    match code {
        1 => 'a',
        2 => 'b',
        11 => 'f',
        12 => 'o',
        13 => 'x',
        21 => 'F',
        22 => 'O',
        23 => 'X',
        31 => '_',
        32 => '%',
        33 => '.',
        c => panic!("unknown character code {c}"),
    }
}
pub fn ccode(c: char) -> Option<i64> {
    Some(match c {
        'a' => 1,
        'b' => 2,
        'f' => 11,
        'o' => 12,
        'x' => 13,
        'F' => 21,
        'O' => 22,
        'X' => 23,
        '_' => 31,
        '%' => 32,
        '.' => 33,
        _ => return None,
    })
}

/// LIKE pattern text of an inline token sequence: 101 = %, 102 = _, literal _ and % are escaped with a backslash
pub fn likex_string(toks: &Value) -> String {
    let mut s = String::new();
    for t in toks.as_array().unwrap() {
        match t.as_i64().unwrap() {
            101 => s.push('%'),
            102 => s.push('_'),
            31 => s.push_str("\\_"),
            32 => s.push_str("\\%"),
            c => s.push(cchar(c)),
        }
    }
    s
}
/// inverse of `likex_string` (backslash escapes the next character); None if a character is outside the alphabet
pub fn likex_tokens(p: &str) -> Option<Vec<i64>> {
    let mut out = vec![];
    let mut it = p.chars();
    while let Some(c) = it.next() {
        match c {
            '\\' => out.push(ccode(it.next()?)?),
            '%' => out.push(101),
            '_' => out.push(102),
            c => out.push(ccode(c)?),
        }
    }
    Some(out)
}
/// regular expression text of a `re` record (None = NULL pattern)
pub fn regex_string(re: &Value) -> Option<String> {
    if re["null"].as_bool().unwrap() {
        return None;
    }
    let grp = re["grp"].as_bool().unwrap();
    let alts: Vec<String> = re["alts"]
        .as_array()
        .unwrap()
        .iter()
        .map(|a| {
            let mut s = String::new();
            if !grp && a["s"].as_bool().unwrap() {
                s.push('^');
            }
            for it in a["items"].as_array().unwrap() {
                match it.as_i64().unwrap() {
                    203 => s.push('.'),
                    204 => s.push_str(".*"),
                    33 => s.push_str("\\."),
                    c => s.push(cchar(c)),
                }
            }
            if !grp && a["e"].as_bool().unwrap() {
                s.push('$');
            }
            s
        })
        .collect();
    Some(if grp { format!("^({})$", alts.join("|")) } else { alts.join("|") })
}

#[derive(Clone, Debug)]
pub struct Env {
    /// pattern pool (1-based: pats[0] unused), rendered from the token sequences TLC prints
    pub pats: Vec<String>,
    pub errcode: i64,
    pub nullcode: i64,
    /// when true a NULL-literal ELSE is rendered as "no ELSE"
    pub null_else_as_none: bool,
    /// render coalesce(a, b, c) as CASE WHEN a IS NOT NULL THEN a WHEN b IS NOT NULL THEN b ELSE c END — the form the
    /// engine itself gives the function before physical planning (the UDF cannot be invoked: "coalesce should have
    /// been simplified to case"); used when physical expressions are built without the simplifier
    pub coalesce_as_case: bool,
    /// string values / literals / results belong to the second pool XPOOL (table C)
    pub xstrings: bool,
    /// regex pattern text -> `re` record, filled while converting AST -> Expr (used to convert simplified exprs back)
    pub re_map: Arc<std::sync::Mutex<std::collections::HashMap<String, Value>>>,
}

pub fn pat_string(tokens: &Value) -> String {
    tokens
        .as_array()
        .unwrap()
        .iter()
        .map(|t| match t.as_i64().unwrap() {
            1 => 'a',
            2 => 'b',
            3 => '%',
            4 => '_',
            5 => 'A',
            6 => 'B',
            7 => '\\',
            8 => '|',
            x => panic!("unknown pattern token {x}"),
        })
        .collect()
}

pub fn env_from_header(h: &Value) -> Env {
    let mut pats = vec![String::new()];
    for p in h["pats"].as_array().unwrap() {
        pats.push(pat_string(p));
    }
    Env { pats, errcode: h["errcode"].as_i64().unwrap(), nullcode: h["nullcode"].as_i64().unwrap(), null_else_as_none: true, coalesce_as_case: false, xstrings: false, re_map: Default::default() }
}

pub fn kind_dt(k: &str) -> DataType {
    match k {
        "i" => DataType::Int64,
        "i8" => DataType::Int8,
        "i16" => DataType::Int16,
        "i32" => DataType::Int32,
        "s" | "p" | "x" => DataType::Utf8,
        "b" => DataType::Boolean,
        other => panic!("unknown kind {other}"),
    }
}

pub fn scalar(v: &Value, t: Option<&str>, env: &Env) -> ScalarValue {
    let vk = v["k"].as_str().unwrap();
    let n = v["v"].as_i64().unwrap();
    let null = vk == "n";
    let t = t.unwrap_or(match vk {
        "i" => "i",
        "b" => "b",
        "s" => "s",
        "p" => "p",
        "x" => "x",
        _ => "null",
    });
    match t {
        "i" => ScalarValue::Int64(if null { None } else { Some(n) }),
        "i8" => ScalarValue::Int8(if null { None } else { Some(n as i8) }),
        "i16" => ScalarValue::Int16(if null { None } else { Some(n as i16) }),
        "i32" => ScalarValue::Int32(if null { None } else { Some(n as i32) }),
        "b" => ScalarValue::Boolean(if null { None } else { Some(n == 1) }),
        "s" => ScalarValue::Utf8(if null { None } else { Some(STR_POOL[n as usize].to_string()) }),
        "p" => ScalarValue::Utf8(if null { None } else { Some(env.pats[n as usize].clone()) }),
        "x" => ScalarValue::Utf8(if null { None } else { Some(XPOOL[n as usize].to_string()) }),
        _ => ScalarValue::Null,
    }
}

fn binop(f: &str) -> Result<Operator, String> {
    Ok(match f {
        "+" => Operator::Plus,
        "-" => Operator::Minus,
        "*" => Operator::Multiply,
        "/" => Operator::Divide,
        "%" => Operator::Modulo,
        "=" => Operator::Eq,
        "<>" => Operator::NotEq,
        "<" => Operator::Lt,
        "<=" => Operator::LtEq,
        ">" => Operator::Gt,
        ">=" => Operator::GtEq,
        "and" => Operator::And,
        "or" => Operator::Or,
        "isdistinct" => Operator::IsDistinctFrom,
        "isnotdistinct" => Operator::IsNotDistinctFrom,
        "&" => Operator::BitwiseAnd,
        "|" => Operator::BitwiseOr,
        "^" => Operator::BitwiseXor,
        "<<" => Operator::BitwiseShiftLeft,
        ">>" => Operator::BitwiseShiftRight,
        other => return Err(format!("unknown binary operator {other}")),
    })
}

fn is_null_lit(e: &Value) -> bool {
    e["op"] == "lit" && e["v"]["k"] == "n"
}

pub fn to_expr(e: &Value, env: &Env) -> Result<Expr, String> {
    let x = |v: &Value| to_expr(v, env);
    let bx = |v: &Value| to_expr(v, env).map(Box::new);
    let op = e["op"].as_str().ok_or_else(|| format!("node without op: {e}"))?;
    Ok(match op {
        "col" => Expr::Column(Column::from_name(format!("c{}", e["i"].as_i64().unwrap()))),
        "lit" => Expr::Literal(scalar(&e["v"], e["t"].as_str(), env), None),
        "bin" | "tbin" => Expr::BinaryExpr(BinaryExpr::new(bx(&e["l"])?, binop(e["f"].as_str().unwrap())?, bx(&e["r"])?)),
        "un" | "tun" => {
            let a = x(&e["e"])?;
            match e["f"].as_str().unwrap() {
                "not" => Expr::Not(Box::new(a)),
                "neg" => Expr::Negative(Box::new(a)),
                "abs" => abs(a),
                "isnull" => Expr::IsNull(Box::new(a)),
                "isnotnull" => Expr::IsNotNull(Box::new(a)),
                "istrue" => Expr::IsTrue(Box::new(a)),
                "isfalse" => Expr::IsFalse(Box::new(a)),
                "isnottrue" => Expr::IsNotTrue(Box::new(a)),
                "isnotfalse" => Expr::IsNotFalse(Box::new(a)),
                "isunknown" => Expr::IsUnknown(Box::new(a)),
                "isnotunknown" => Expr::IsNotUnknown(Box::new(a)),
                other => return Err(format!("unknown unary operator {other}")),
            }
        }
        "in" => {
            let list = e["list"].as_array().unwrap().iter().map(x).collect::<Result<Vec<_>, _>>()?;
            Expr::InList(InList::new(bx(&e["e"])?, list, e["neg"].as_bool().unwrap()))
        }
        "between" => Expr::Between(Between::new(bx(&e["e"])?, e["neg"].as_bool().unwrap(), bx(&e["lo"])?, bx(&e["hi"])?)),
        "case" | "casex" => {
            let mut whens = vec![];
            for wt in e["whens"].as_array().unwrap() {
                whens.push((bx(&wt[0])?, bx(&wt[1])?));
            }
            let els = if is_null_lit(&e["else"]) && env.null_else_as_none { None } else { Some(bx(&e["else"])?) };
            let operand = if op == "casex" { Some(bx(&e["e"])?) } else { None };
            Expr::Case(Case::new(operand, whens, els))
        }
        "coalesce" => {
            let args = e["args"].as_array().unwrap().iter().map(x).collect::<Result<Vec<_>, _>>()?;
            if env.coalesce_as_case && args.len() >= 2 {
                let n = args.len();
                let whens = args[..n - 1].iter().map(|a| (Box::new(Expr::IsNotNull(Box::new(a.clone()))), Box::new(a.clone()))).collect();
                Expr::Case(Case::new(None, whens, Some(Box::new(args[n - 1].clone()))))
            } else {
                coalesce(args)
            }
        }
        "nullif" => nullif(x(&e["l"])?, x(&e["r"])?),
        "like" => {
            let f = e["f"].as_str().unwrap();
            let ci = f == "ilike" || f == "isimilar";
            let l = Like::new(e["neg"].as_bool().unwrap(), bx(&e["e"])?, bx(&e["pat"])?, None, ci);
            if f == "similar" || f == "isimilar" { Expr::SimilarTo(l) } else { Expr::Like(l) }
        }
        "likex" => {
            let pat = Expr::Literal(ScalarValue::Utf8(Some(likex_string(&e["toks"]))), None);
            Expr::Like(Like::new(e["neg"].as_bool().unwrap(), bx(&e["e"])?, Box::new(pat), None, e["f"] == "ilike"))
        }
        "regex" => {
            let op = match e["f"].as_str().unwrap() {
                "~" => Operator::RegexMatch,
                "~*" => Operator::RegexIMatch,
                "!~" => Operator::RegexNotMatch,
                "!~*" => Operator::RegexNotIMatch,
                other => return Err(format!("unknown regex operator {other}")),
            };
            let text = regex_string(&e["re"]);
            if let Some(t) = &text {
                env.re_map.lock().unwrap().insert(t.clone(), e["re"].clone());
            }
            Expr::BinaryExpr(BinaryExpr::new(bx(&e["e"])?, op, Box::new(Expr::Literal(ScalarValue::Utf8(text), None))))
        }
        "startswith" => datafusion::functions::string::starts_with().call(vec![x(&e["e"])?, x(&e["pre"])?]),
        "nvl" => {
            let (l, r) = (x(&e["l"])?, x(&e["r"])?);
            if env.coalesce_as_case {
                // like coalesce, the nvl UDF is only a placeholder that the simplifier turns into CASE
                Expr::Case(Case::new(None, vec![(Box::new(Expr::IsNotNull(Box::new(l.clone()))), Box::new(l))], Some(Box::new(r))))
            } else {
                datafusion::functions::core::nvl().call(vec![l, r])
            }
        }
        "cast" => {
            let dt = kind_dt(e["to"].as_str().unwrap());
            if e["try"].as_bool().unwrap() {
                Expr::TryCast(TryCast::new(bx(&e["e"])?, dt))
            } else {
                Expr::Cast(Cast::new(bx(&e["e"])?, dt))
            }
        }
        other => return Err(format!("unsupported AST node {other}")),
    })
}

/// The exhaustive table of ExprGen: column c of row i (0-based) = vals[c][(i / strides[c]) % len(vals[c])].
pub fn table_batch(t: &Value, nullable: bool) -> (SchemaRef, RecordBatch) {
    table_batch_enc(t, nullable, "utf8")
}

/// `enc` = physical encoding of the string columns: "utf8" | "view" (Utf8View) | "dict" (Dictionary(Int32, Utf8))
pub fn table_batch_enc(t: &Value, nullable: bool, enc: &str) -> (SchemaRef, RecordBatch) {
    let kinds: Vec<&str> = t["schema"].as_array().unwrap().iter().map(|k| k.as_str().unwrap()).collect();
    let strides: Vec<usize> = t["strides"].as_array().unwrap().iter().map(|s| s.as_u64().unwrap() as usize).collect();
    let nrows = *strides.last().unwrap();
    let mut fields = vec![];
    let mut cols: Vec<ArrayRef> = vec![];
    for (c, k) in kinds.iter().enumerate() {
        let vals = t["vals"][c].as_array().unwrap();
        let pick = |i: usize| &vals[(i / strides[c]) % vals.len()];
        let isnull = |v: &Value| v["k"] == "n";
        let ints: Vec<Option<i64>> = (0..nrows).map(|i| if isnull(pick(i)) { None } else { pick(i)["v"].as_i64() }).collect();
        let arr: ArrayRef = match *k {
            "i" => Arc::new(Int64Array::from(ints)),
            "i8" => Arc::new(Int8Array::from(ints.iter().map(|x| x.map(|v| v as i8)).collect::<Vec<_>>())),
            "i16" => Arc::new(Int16Array::from(ints.iter().map(|x| x.map(|v| v as i16)).collect::<Vec<_>>())),
            "i32" => Arc::new(Int32Array::from(ints.iter().map(|x| x.map(|v| v as i32)).collect::<Vec<_>>())),
            "b" => Arc::new(BooleanArray::from(ints.iter().map(|x| x.map(|v| v == 1)).collect::<Vec<_>>())),
            "s" => {
                let strs = ints.iter().map(|x| x.map(|v| STR_POOL[v as usize])).collect::<Vec<_>>();
                match enc {
                    "view" => Arc::new(StringViewArray::from(strs)),
                    "dict" => Arc::new(strs.into_iter().collect::<DictionaryArray<arrow::datatypes::Int32Type>>()),
                    _ => Arc::new(StringArray::from(strs)),
                }
            }
            "x" => {
                let strs = ints.iter().map(|x| x.map(|v| XPOOL[v as usize])).collect::<Vec<_>>();
                match enc {
                    "view" => Arc::new(StringViewArray::from(strs)),
                    "dict" => Arc::new(strs.into_iter().collect::<DictionaryArray<arrow::datatypes::Int32Type>>()),
                    _ => Arc::new(StringArray::from(strs)),
                }
            }
            other => panic!("unknown kind {other}"),
        };
        fields.push(Field::new(format!("c{}", c + 1), arr.data_type().clone(), nullable));
        cols.push(arr);
    }
    let schema = Arc::new(Schema::new(fields));
    let batch = RecordBatch::try_new(Arc::clone(&schema), cols).unwrap();
    (schema, batch)
}

/// Value code of element i of an engine result array (must have the data type of `kind`).
pub fn code_at(a: &ArrayRef, i: usize, env: &Env) -> Result<i64, String> {
    if a.is_null(i) {
        return Ok(env.nullcode);
    }
    let pool: &[&str] = if env.xstrings { &XPOOL } else { &STR_POOL };
    let s = |x: &str| pool.iter().position(|p| *p == x && !p.is_empty()).map(|ix| ix as i64).ok_or_else(|| format!("string {x:?} outside the pool"));
    match a.data_type() {
        DataType::Dictionary(_, v) => {
            let c = arrow::compute::cast(a, v.as_ref()).map_err(|e| e.to_string())?;
            code_at(&c, i, env)
        }
        DataType::Int64 => Ok(a.as_any().downcast_ref::<Int64Array>().unwrap().value(i)),
        DataType::Int32 => Ok(a.as_any().downcast_ref::<Int32Array>().unwrap().value(i) as i64),
        DataType::Int16 => Ok(a.as_any().downcast_ref::<Int16Array>().unwrap().value(i) as i64),
        DataType::Int8 => Ok(a.as_any().downcast_ref::<Int8Array>().unwrap().value(i) as i64),
        DataType::Boolean => Ok(a.as_any().downcast_ref::<BooleanArray>().unwrap().value(i) as i64),
        DataType::Utf8 => s(a.as_any().downcast_ref::<StringArray>().unwrap().value(i)),
        DataType::LargeUtf8 => s(a.as_any().downcast_ref::<LargeStringArray>().unwrap().value(i)),
        DataType::Utf8View => s(a.as_any().downcast_ref::<StringViewArray>().unwrap().value(i)),
        other => Err(format!("unexpected result type {other}")),
    }
}

pub fn show_code(c: i64, env: &Env) -> String {
    if c == env.errcode {
        "ERR".into()
    } else if c == env.nullcode {
        "NULL".into()
    } else {
        c.to_string()
    }
}
