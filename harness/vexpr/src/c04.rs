//! C04 driver (B2, semantic form): every TLC-generated expression is simplified by the real `ExprSimplifier`
//! (nullable / non-nullable column schemas, with and without `with_guarantees`, canonicalisation on/off) and by
//! `PhysicalExprSimplifier`; the result is converted back into the AST and recorded as an event
//! <before, after, scope> for spec/sem/SimpTrace.tla.  Independently (witness confirmation, DESIGN.md §6) both
//! expressions are evaluated IN THE ENGINE on every row of the scope: a row on which the original evaluates to a
//! value and the simplified one to something else is a confirmed violation.

use crate::ast::{self, Env};
use crate::c33::{Outcome, Rng, eval, panic_msg};
use arrow::array::*;
use arrow::compute::take_record_batch;
use arrow::datatypes::{DataType, Field, Schema, SchemaRef};
use arrow::record_batch::RecordBatch;
use datafusion::physical_expr::PhysicalExpr;
use datafusion::physical_expr::simplifier::PhysicalExprSimplifier;
use datafusion::prelude::SessionContext;
use datafusion_common::{DFSchema, ScalarValue};
use datafusion_expr::interval_arithmetic::{Interval, NullableInterval};
use datafusion_expr::simplify::SimplifyContext;
use datafusion_expr::{Expr, ExprSchemable, Operator};
use datafusion_expr::utils::{conjunction, split_conjunction_owned};
use datafusion_optimizer::simplify_expressions::{ExprSimplifier, simplify_predicates};
use serde_json::{Value, json};
use std::collections::BTreeMap;
use std::panic::{AssertUnwindSafe, catch_unwind};
use std::sync::Arc;
use vcommon::util;

fn dt_kind(dt: &DataType) -> Option<&'static str> {
    Some(match dt {
        DataType::Int64 => "i",
        DataType::Int32 => "i32",
        DataType::Int16 => "i16",
        DataType::Int8 => "i8",
        DataType::Boolean => "b",
        DataType::Utf8 | DataType::Utf8View | DataType::LargeUtf8 => "s",
        _ => return None,
    })
}

fn lit_ast(sv: &ScalarValue, env: &Env) -> Option<Value> {
    let int = |v: Option<i64>, t: &str| match v {
        None => Some(json!({"op":"lit","v":{"k":"n","v":0},"t":t})),
        Some(x) if x.abs() < (1 << 30) => Some(json!({"op":"lit","v":{"k":"i","v":x},"t":t})),
        _ => None,
    };
    match sv {
        ScalarValue::Null => Some(json!({"op":"lit","v":{"k":"n","v":0}})),
        ScalarValue::Int64(v) => int(*v, "i"),
        ScalarValue::Int32(v) => int(v.map(|x| x as i64), "i32"),
        ScalarValue::Int16(v) => int(v.map(|x| x as i64), "i16"),
        ScalarValue::Int8(v) => int(v.map(|x| x as i64), "i8"),
        ScalarValue::Boolean(None) => Some(json!({"op":"lit","v":{"k":"n","v":0},"t":"b"})),
        ScalarValue::Boolean(Some(b)) => Some(json!({"op":"lit","v":{"k":"b","v":*b as i64},"t":"b"})),
        ScalarValue::Utf8(s) | ScalarValue::Utf8View(s) | ScalarValue::LargeUtf8(s) => match s {
            None => Some(json!({"op":"lit","v":{"k":"n","v":0},"t": if env.xstrings { "x" } else { "s" }})),
            Some(x) if env.xstrings => ast::XPOOL.iter().position(|p| p == x && !p.is_empty()).map(|ix| json!({"op":"lit","v":{"k":"x","v":ix},"t":"x"})),
            Some(x) => {
                if let Some(ix) = ast::STR_POOL.iter().position(|p| p == x && !p.is_empty()) {
                    Some(json!({"op":"lit","v":{"k":"s","v":ix},"t":"s"}))
                } else {
                    env.pats.iter().skip(1).position(|p| p == x).map(|ix| json!({"op":"lit","v":{"k":"p","v":ix + 1},"t":"p"}))
                }
            }
        },
        _ => None,
    }
}

/// Logical `Expr` -> AST; None when the expression leaves the fragment the specification defines.
/// `pattern` = the expression is in LIKE-pattern position (string literals are looked up in the pattern pool first).
pub fn from_expr(e: &Expr, schema: &DFSchema, env: &Env, pattern: bool) -> Option<Value> {
    let f = |x: &Expr| from_expr(x, schema, env, false);
    let fp = |x: &Expr| from_expr(x, schema, env, pattern);
    Some(match e {
        Expr::Column(c) => json!({"op":"col","i": c.name.strip_prefix('c')?.parse::<i64>().ok()?}),
        Expr::Literal(sv, _) => {
            if pattern {
                if let ScalarValue::Utf8(Some(x)) | ScalarValue::Utf8View(Some(x)) | ScalarValue::LargeUtf8(Some(x)) = sv {
                    let ix = env.pats.iter().skip(1).position(|p| p == x)?;
                    return Some(json!({"op":"lit","v":{"k":"p","v":ix + 1},"t":"p"}));
                }
                if sv.is_null() {
                    return Some(json!({"op":"lit","v":{"k":"n","v":0},"t":"p"}));
                }
            }
            let l = lit_ast(sv, env)?;
            if l["v"]["k"] == "p" {
                return None; // a pattern-looking string outside pattern position is not a pool string
            }
            l
        }
        Expr::BinaryExpr(b) => {
            let name = match b.op {
                Operator::Plus => "+",
                Operator::Minus => "-",
                Operator::Multiply => "*",
                Operator::Divide => "/",
                Operator::Modulo => "%",
                Operator::Eq => "=",
                Operator::NotEq => "<>",
                Operator::Lt => "<",
                Operator::LtEq => "<=",
                Operator::Gt => ">",
                Operator::GtEq => ">=",
                Operator::And => "and",
                Operator::Or => "or",
                Operator::IsDistinctFrom => "isdistinct",
                Operator::IsNotDistinctFrom => "isnotdistinct",
                Operator::BitwiseAnd => "&",
                Operator::BitwiseOr => "|",
                Operator::BitwiseXor => "^",
                Operator::BitwiseShiftLeft => "<<",
                Operator::BitwiseShiftRight => ">>",
                Operator::RegexMatch | Operator::RegexIMatch | Operator::RegexNotMatch | Operator::RegexNotIMatch => {
                    let name = match b.op {
                        Operator::RegexMatch => "~",
                        Operator::RegexIMatch => "~*",
                        Operator::RegexNotMatch => "!~",
                        _ => "!~*",
                    };
                    let Expr::Literal(sv, _) = b.right.as_ref() else { return None };
                    let re = match sv {
                        ScalarValue::Utf8(None) | ScalarValue::Utf8View(None) | ScalarValue::LargeUtf8(None) | ScalarValue::Null => json!({"null": true, "grp": false, "alts": []}),
                        ScalarValue::Utf8(Some(t)) | ScalarValue::Utf8View(Some(t)) | ScalarValue::LargeUtf8(Some(t)) => env.re_map.lock().unwrap().get(t)?.clone(),
                        _ => return None,
                    };
                    return Some(json!({"op":"regex","f":name,"e":f(&b.left)?,"re":re}));
                }
                _ => return None,
            };
            if matches!(b.op, Operator::Plus | Operator::Minus | Operator::Multiply | Operator::Divide | Operator::Modulo) {
                let (lt, rt) = (b.left.get_type(schema).ok()?, b.right.get_type(schema).ok()?);
                if lt != rt {
                    return None;
                }
                match dt_kind(&lt)? {
                    "i" => json!({"op":"bin","f":name,"l":f(&b.left)?,"r":f(&b.right)?}),
                    k @ ("i8" | "i16" | "i32") => json!({"op":"tbin","t":k,"f":name,"l":f(&b.left)?,"r":f(&b.right)?}),
                    _ => return None,
                }
            } else {
                json!({"op":"bin","f":name,"l":f(&b.left)?,"r":f(&b.right)?})
            }
        }
        Expr::Not(x) => json!({"op":"un","f":"not","e":f(x)?}),
        Expr::Negative(x) => match dt_kind(&x.get_type(schema).ok()?)? {
            "i" => json!({"op":"un","f":"neg","e":f(x)?}),
            k @ ("i8" | "i16" | "i32") => json!({"op":"tun","t":k,"f":"neg","e":f(x)?}),
            _ => return None,
        },
        Expr::IsNull(x) => json!({"op":"un","f":"isnull","e":f(x)?}),
        Expr::IsNotNull(x) => json!({"op":"un","f":"isnotnull","e":f(x)?}),
        Expr::IsTrue(x) => json!({"op":"un","f":"istrue","e":f(x)?}),
        Expr::IsFalse(x) => json!({"op":"un","f":"isfalse","e":f(x)?}),
        Expr::IsNotTrue(x) => json!({"op":"un","f":"isnottrue","e":f(x)?}),
        Expr::IsNotFalse(x) => json!({"op":"un","f":"isnotfalse","e":f(x)?}),
        Expr::IsUnknown(x) => json!({"op":"un","f":"isunknown","e":f(x)?}),
        Expr::IsNotUnknown(x) => json!({"op":"un","f":"isnotunknown","e":f(x)?}),
        Expr::InList(l) => {
            let list = l.list.iter().map(f).collect::<Option<Vec<_>>>()?;
            json!({"op":"in","e":f(&l.expr)?,"list":list,"neg":l.negated})
        }
        Expr::Between(b) => json!({"op":"between","e":f(&b.expr)?,"lo":f(&b.low)?,"hi":f(&b.high)?,"neg":b.negated}),
        Expr::Case(c) => {
            let mut whens = vec![];
            for (w, t) in &c.when_then_expr {
                whens.push(json!([f(w)?, fp(t)?]));
            }
            let els = match &c.else_expr {
                Some(x) => fp(x)?,
                None => json!({"op":"lit","v":{"k":"n","v":0}}),
            };
            match &c.expr {
                Some(op) => json!({"op":"casex","e":f(op)?,"whens":whens,"else":els}),
                None => json!({"op":"case","whens":whens,"else":els}),
            }
        }
        Expr::Like(l) | Expr::SimilarTo(l) => {
            if !matches!(l.escape_char, None | Some('\\')) {
                return None;
            }
            let sim = matches!(e, Expr::SimilarTo(_));
            if let (false, Expr::Literal(ScalarValue::Utf8(Some(pt)) | ScalarValue::Utf8View(Some(pt)) | ScalarValue::LargeUtf8(Some(pt)), _)) = (sim, l.pattern.as_ref()) {
                let in_pool = !env.xstrings && env.pats.iter().skip(1).any(|p| p == pt);
                if !in_pool {
                    let toks = ast::likex_tokens(pt)?;
                    return Some(json!({"op":"likex","f": if l.case_insensitive { "ilike" } else { "like" },"e":f(&l.expr)?,"toks":toks,"neg":l.negated}));
                }
            }
            let name = match (sim, l.case_insensitive) {
                (false, false) => "like",
                (false, true) => "ilike",
                (true, false) => "similar",
                (true, true) => "isimilar",
            };
            json!({"op":"like","f":name,"e":f(&l.expr)?,"pat":from_expr(&l.pattern, schema, env, true)?,"neg":l.negated})
        }
        Expr::Cast(c) => {
            let k = dt_kind(c.field.data_type())?;
            if k == "s" {
                return None;
            }
            json!({"op":"cast","to":k,"try":false,"e":f(&c.expr)?})
        }
        Expr::TryCast(c) => {
            let k = dt_kind(c.field.data_type())?;
            if k == "s" {
                return None;
            }
            json!({"op":"cast","to":k,"try":true,"e":f(&c.expr)?})
        }
        Expr::ScalarFunction(sf) => match sf.func.name() {
            "coalesce" => json!({"op":"coalesce","args": sf.args.iter().map(fp).collect::<Option<Vec<_>>>()?}),
            "starts_with" if sf.args.len() == 2 => json!({"op":"startswith","e":f(&sf.args[0])?,"pre":f(&sf.args[1])?}),
            "nvl" if sf.args.len() == 2 => json!({"op":"nvl","l":f(&sf.args[0])?,"r":f(&sf.args[1])?}),
            "nullif" if sf.args.len() == 2 => json!({"op":"nullif","l":f(&sf.args[0])?,"r":f(&sf.args[1])?}),
            "abs" if sf.args.len() == 1 => match dt_kind(&sf.args[0].get_type(schema).ok()?)? {
                "i" => json!({"op":"un","f":"abs","e":f(&sf.args[0])?}),
                k @ ("i8" | "i16" | "i32") => json!({"op":"tun","t":k,"f":"abs","e":f(&sf.args[0])?}),
                _ => return None,
            },
            _ => return None,
        },
        _ => return None,
    })
}

struct Variant {
    name: String,
    nonnull: [bool; 4],
    /// (column 1-based, "null" | "maybe" | "notnull", lo, hi)
    guar: Vec<(usize, String, i64, i64)>,
    canonicalize: bool,
}

fn value_code(t: &Value, c: usize, row: usize, env: &Env) -> i64 {
    let vals = t["vals"][c].as_array().unwrap();
    let stride = t["strides"][c].as_u64().unwrap() as usize;
    let v = &vals[(row / stride) % vals.len()];
    if v["k"] == "n" { env.nullcode } else { v["v"].as_i64().unwrap() }
}

fn in_scope(t: &Value, row: usize, v: &Variant, env: &Env) -> bool {
    for c in 0..4 {
        if v.nonnull[c] && value_code(t, c, row, env) == env.nullcode {
            return false;
        }
    }
    for (col, nk, lo, hi) in &v.guar {
        let x = value_code(t, col - 1, row, env);
        let isnull = x == env.nullcode;
        let inr = !isnull && *lo <= x && x <= *hi;
        let ok = match nk.as_str() {
            "null" => isnull,
            "maybe" => isnull || inr,
            _ => inr,
        };
        if !ok {
            return false;
        }
    }
    true
}

fn scalar_of(kind: &str, v: i64) -> ScalarValue {
    match kind {
        "i" => ScalarValue::Int64(Some(v)),
        "i8" => ScalarValue::Int8(Some(v as i8)),
        "i16" => ScalarValue::Int16(Some(v as i16)),
        "i32" => ScalarValue::Int32(Some(v as i32)),
        "b" => ScalarValue::Boolean(Some(v == 1)),
        k => panic!("no guarantee for kind {k}"),
    }
}

fn variants_for(t: &Value, rng: &mut Rng, quick: bool) -> Vec<Variant> {
    let kinds: Vec<&str> = t["schema"].as_array().unwrap().iter().map(|k| k.as_str().unwrap()).collect();
    let mut vs = vec![
        Variant { name: "nullable".into(), nonnull: [false; 4], guar: vec![], canonicalize: true },
        Variant { name: "non-nullable".into(), nonnull: [true; 4], guar: vec![], canonicalize: true },
    ];
    let mut mixed = [false; 4];
    for m in mixed.iter_mut() {
        *m = rng.below(2) == 0;
    }
    vs.push(Variant { name: "mixed-nullability".into(), nonnull: mixed, guar: vec![], canonicalize: rng.below(4) != 0 });
    let ng = if quick { 2 } else { 3 };
    for g in 0..ng {
        let mut guar = vec![];
        let n = 1 + rng.below(2);
        let mut used = vec![];
        for _ in 0..n {
            let c = rng.below(4);
            if kinds[c] == "s" || kinds[c] == "x" || used.contains(&c) {
                continue;
            }
            used.push(c);
            let vals: Vec<i64> = t["vals"][c].as_array().unwrap().iter().filter(|v| v["k"] != "n").map(|v| v["v"].as_i64().unwrap()).collect();
            let a = vals[rng.below(vals.len())];
            let b = vals[rng.below(vals.len())];
            let (lo, hi) = if rng.below(3) == 0 { (a, a) } else { (a.min(b), a.max(b)) };
            let nk = match rng.below(6) {
                0 => "null",
                1 | 2 => "maybe",
                _ => "notnull",
            };
            guar.push((c + 1, nk.to_string(), lo, hi));
        }
        if guar.is_empty() {
            continue;
        }
        vs.push(Variant { name: format!("guarantees{g}"), nonnull: [false; 4], guar, canonicalize: true });
    }
    vs
}

fn variant_schema(t: &Value, v: &Variant) -> SchemaRef {
    let kinds: Vec<&str> = t["schema"].as_array().unwrap().iter().map(|k| k.as_str().unwrap()).collect();
    Arc::new(Schema::new(kinds.iter().enumerate().map(|(c, k)| Field::new(format!("c{}", c + 1), ast::kind_dt(k), !v.nonnull[c])).collect::<Vec<_>>()))
}

/// per-row engine values of `phys` on `batch` (whole batch first, single rows when the batch evaluation fails)
fn engine_column(phys: &Arc<dyn PhysicalExpr>, batch: &RecordBatch, env: &Env) -> Vec<Result<(i64, DataType), String>> {
    let n = batch.num_rows();
    if let Outcome::Arr(a) = eval(phys, batch, None) {
        if a.len() == n {
            return (0..n).map(|i| ast::code_at(&a, i, env).map(|c| (c, a.data_type().clone()))).collect();
        }
    }
    (0..n)
        .map(|i| match eval(phys, &batch.slice(i, 1), None) {
            Outcome::Arr(a) if a.len() == 1 => ast::code_at(&a, 0, env).map(|c| (c, a.data_type().clone())),
            Outcome::Arr(a) => Err(format!("{} rows for a 1-row batch", a.len())),
            Outcome::Err(e) => Err(e),
            Outcome::Panic(e) => Err(format!("PANIC: {e}")),
        })
        .collect()
}

#[derive(Default)]
struct Stats {
    simplifications: u64,
    changed: u64,
    ast_ok: u64,
    fallback: u64,
    rows_compared: u64,
    before_engine_vs_reference: u64,
    simplify_errors: u64,
    physical: u64,
    physical_changed: u64,
    predicates: u64,
    predicates_changed: u64,
    dataframe: u64,
}

pub fn main() {
    let inp = util::arg("--in").expect("--in");
    let out = util::arg("--out").expect("--out");
    let trace = util::arg("--trace").expect("--trace");
    let threads: usize = util::arg("--threads").and_then(|s| s.parse().ok()).unwrap_or(4);
    let seed = util::seed();
    let quick = util::tier_quick();
    let lines = util::read_ndjson(&inp);
    let header = lines.iter().find(|c| c["id"] == 0).expect("header case (id 0) missing").clone();
    let env_udf_s = ast::env_from_header(&header);
    let mut env_case_s = env_udf_s.clone();
    env_case_s.coalesce_as_case = true;
    let mut env_udf_x = env_udf_s.clone();
    env_udf_x.xstrings = true;
    let mut env_case_x = env_case_s.clone();
    env_case_x.xstrings = true;
    let cases: Vec<Value> = lines.into_iter().filter(|c| c["id"] != 0).collect();
    let per: Vec<(Vec<Value>, Vec<Value>, Stats)> = std::thread::scope(|s| {
        let mut hs = vec![];
        for t in 0..threads {
            let (cases, header, env_udf_s, env_case_s, env_udf_x, env_case_x) = (&cases, &header, &env_udf_s, &env_case_s, &env_udf_x, &env_case_x);
            hs.push(s.spawn(move || {
                let ctx = SessionContext::new();
                let rt = tokio::runtime::Builder::new_current_thread().enable_all().build().unwrap();
                let mut st = Stats::default();
                let (mut results, mut events) = (vec![], vec![]);
                let mut full: BTreeMap<String, RecordBatch> = BTreeMap::new();
                for (name, tv) in header["tables"].as_object().unwrap() {
                    full.insert(name.clone(), ast::table_batch(tv, true).1);
                }
                for (ci, c) in cases.iter().enumerate() {
                    if ci % threads != t {
                        continue;
                    }
                    let tname = c["tbl"].as_str().unwrap();
                    let (env_udf, env_case) = if tname == "C" { (env_udf_x, env_case_x) } else { (env_udf_s, env_case_s) };
                    let tv = &header["tables"][tname];
                    let exp: Vec<i64> = c["exp"].as_array().unwrap().iter().map(|x| x.as_i64().unwrap()).collect();
                    let mut rng = Rng::new(seed ^ (c["id"].as_u64().unwrap() << 20) ^ (c["p"].as_u64().unwrap_or(0) << 40) ^ 0x51);
                    let before = match ast::to_expr(&c["e"], env_udf) {
                        Ok(e) => e,
                        Err(m) => {
                            results.push(json!({"id": c["id"], "p": c["p"], "tool_error": m}));
                            continue;
                        }
                    };
                    let before_case = ast::to_expr(&c["e"], env_case).unwrap();
                    for (vi, v) in variants_for(tv, &mut rng, quick).iter().enumerate() {
                        let evid = format!("{}-{}-{}", c["p"], c["id"], vi);
                        let schema = variant_schema(tv, v);
                        let dfschema = Arc::new(DFSchema::try_from(schema.as_ref().clone()).unwrap());
                        let rows: Vec<usize> = (0..exp.len()).filter(|r| in_scope(tv, *r, v, env_udf)).collect();
                        let kinds: Vec<&str> = tv["schema"].as_array().unwrap().iter().map(|k| k.as_str().unwrap()).collect();
                        let guarantees: Vec<(Expr, NullableInterval)> = v
                            .guar
                            .iter()
                            .map(|(col, nk, lo, hi)| {
                                let k = kinds[col - 1];
                                let iv = Interval::try_new(scalar_of(k, *lo), scalar_of(k, *hi)).unwrap();
                                let ni = match nk.as_str() {
                                    "null" => NullableInterval::Null { datatype: ast::kind_dt(k) },
                                    "maybe" => NullableInterval::MaybeNull { values: iv },
                                    _ => NullableInterval::NotNull { values: iv },
                                };
                                (datafusion_expr::col(format!("c{col}")), ni)
                            })
                            .collect();
                        st.simplifications += 1;
                        let simplified = catch_unwind(AssertUnwindSafe(|| {
                            let sctx = SimplifyContext::builder().with_schema(Arc::clone(&dfschema)).build();
                            let mut s = ExprSimplifier::new(sctx).with_canonicalize(v.canonicalize);
                            if !guarantees.is_empty() {
                                s = s.with_guarantees(guarantees.clone());
                            }
                            s.simplify(before.clone())
                        }));
                        let base = json!({"ev": evid, "id": c["id"], "p": c["p"], "variant": v.name, "nonnull": v.nonnull, "canonicalize": v.canonicalize,
                                          "guar": v.guar.iter().map(|(c, nk, lo, hi)| json!({"col": c, "nk": nk, "lo": lo, "hi": hi})).collect::<Vec<_>>(),
                                          "scope_rows": rows.len()});
                        let after = match simplified {
                            Ok(Ok(a)) => a,
                            Ok(Err(e)) => {
                                st.simplify_errors += 1;
                                let mut r = base.clone();
                                r["simplify_error"] = json!(e.to_string());
                                r["reference_errs_in_scope"] = json!(rows.iter().any(|r| exp[*r] == env_udf.errcode));
                                results.push(r);
                                continue;
                            }
                            Err(p) => {
                                st.simplify_errors += 1;
                                let mut r = base.clone();
                                r["simplify_error"] = json!(format!("PANIC: {}", panic_msg(p)));
                                r["reference_errs_in_scope"] = json!(rows.iter().any(|r| exp[*r] == env_udf.errcode));
                                results.push(r);
                                continue;
                            }
                        };
                        let mut r = base.clone();
                        r["after"] = json!(format!("{after}"));
                        if after != before {
                            st.changed += 1;
                            r["changed"] = json!(true);
                        }
                        // data type must be preserved (both sides are engine artefacts)
                        let (tb, ta) = (before.get_type(dfschema.as_ref()), after.get_type(dfschema.as_ref()));
                        if let (Ok(tb), Ok(ta)) = (&tb, &ta) {
                            if tb != ta {
                                r["type_changed"] = json!(format!("{tb} -> {ta}"));
                            }
                        }
                        // engine evaluation of both sides on every row of the scope
                        let idx = UInt32Array::from(rows.iter().map(|x| *x as u32).collect::<Vec<_>>());
                        let taken = take_record_batch(&full[tname], &idx).unwrap();
                        let batch = RecordBatch::try_new(Arc::clone(&schema), taken.columns().to_vec()).unwrap();
                        let pb = catch_unwind(AssertUnwindSafe(|| ctx.create_physical_expr(before_case.clone(), dfschema.as_ref())));
                        let pa = catch_unwind(AssertUnwindSafe(|| ctx.create_physical_expr(after.clone(), dfschema.as_ref())));
                        match (pb, pa) {
                            (Ok(Ok(pb)), Ok(Ok(pa))) => {
                                let cb = engine_column(&pb, &batch, env_udf);
                                let ca = engine_column(&pa, &batch, env_udf);
                                let mut diffs = vec![];
                                let mut diff_rows: Vec<Value> = vec![];
                                for (j, row) in rows.iter().enumerate() {
                                    if exp[*row] == env_udf.errcode {
                                        continue;
                                    }
                                    st.rows_compared += 1;
                                    match (&cb[j], &ca[j]) {
                                        (Ok((b, bt)), Ok((a, at))) => {
                                            if *b != exp[*row] {
                                                st.before_engine_vs_reference += 1;
                                            }
                                            if a != b || at != bt {
                                                diff_rows.push(json!([row + 1, ast::show_code(*b, env_udf), if at != bt { "TYPE".to_string() } else { ast::show_code(*a, env_udf) }]));
                                                diffs.push(json!({"table_row": row + 1, "before": ast::show_code(*b, env_udf), "after": ast::show_code(*a, env_udf),
                                                                  "before_type": bt.to_string(), "after_type": at.to_string(), "reference": ast::show_code(exp[*row], env_udf)}));
                                            }
                                        }
                                        (Ok((b, _)), Err(e)) => {
                                            diff_rows.push(json!([row + 1, ast::show_code(*b, env_udf), "ERROR"]));
                                            diffs.push(json!({"table_row": row + 1, "before": ast::show_code(*b, env_udf), "after_error": e, "reference": ast::show_code(exp[*row], env_udf)}));
                                        }
                                        (Err(_), _) => st.before_engine_vs_reference += 1,
                                    }
                                }
                                if !diffs.is_empty() {
                                    r["engine_diff_count"] = json!(diffs.len());
                                    diffs.truncate(5);
                                    r["engine_diffs"] = json!(diffs);
                                    r["engine_diff_rows"] = json!(diff_rows);
                                }
                            }
                            (Ok(Ok(_)), Ok(Err(e))) => {
                                r["after_plan_error"] = json!(e.to_string());
                            }
                            (Ok(Ok(_)), Err(p)) => {
                                r["after_plan_error"] = json!(format!("PANIC: {}", panic_msg(p)));
                            }
                            _ => {
                                r["before_plan_error"] = json!(true);
                            }
                        }
                        // event for the TLA+ validator
                        match from_expr(&after, dfschema.as_ref(), env_udf, false) {
                            Some(a) => {
                                st.ast_ok += 1;
                                r["ast"] = json!(true);
                                events.push(json!({"ev": evid, "tbl": tname, "before": c["e"], "after": a, "nonnull": v.nonnull, "filt": false,
                                                   "guar": v.guar.iter().map(|(c, nk, lo, hi)| json!({"col": c, "nk": nk, "lo": lo, "hi": hi})).collect::<Vec<_>>()}));
                            }
                            None => {
                                st.fallback += 1;
                                r["ast"] = json!(false);
                            }
                        }
                        results.push(r);
                    }
                    // physical-expression simplifier (nullable schema, all rows): engine vs engine
                    let schema = full[tname].schema();
                    let dfschema = DFSchema::try_from(schema.as_ref().clone()).unwrap();
                    let no_ref_err = exp.iter().all(|x| *x != env_udf.errcode);
                    let pb_full = catch_unwind(AssertUnwindSafe(|| ctx.create_physical_expr(before_case.clone(), &dfschema)));
                    let cb_full: Option<Vec<Result<(i64, DataType), String>>> = match &pb_full {
                        Ok(Ok(pb)) => Some(engine_column(pb, &full[tname], env_udf)),
                        _ => None,
                    };
                    // simplify_predicates (used by the filter push-down rule on the conjuncts of a predicate): predicate
                    // semantics — the set of rows for which the conjunction is TRUE must not change
                    if c["k"] == "b" {
                        let conj = split_conjunction_owned(before_case.clone());
                        if conj.len() >= 2 {
                            if let (Some(cb), Ok(Ok(out))) = (&cb_full, catch_unwind(AssertUnwindSafe(|| simplify_predicates(conj.clone())))) {
                                st.predicates += 1;
                                let after = conjunction(out.clone()).unwrap_or(datafusion_expr::lit(true));
                                let evid = format!("{}-{}-pred", c["p"], c["id"]);
                                let mut r = json!({"ev": evid, "id": c["id"], "p": c["p"], "variant": "simplify-predicates", "scope_rows": exp.len(),
                                                   "after": format!("{after}"), "guar": [], "nonnull": [false, false, false, false]});
                                if out.len() != conj.len() {
                                    st.predicates_changed += 1;
                                    r["changed"] = json!(true);
                                }
                                match catch_unwind(AssertUnwindSafe(|| ctx.create_physical_expr(after.clone(), &dfschema))) {
                                    Ok(Ok(pa)) => {
                                        let ca = engine_column(&pa, &full[tname], env_udf);
                                        let mut diff_rows: Vec<Value> = vec![];
                                        for row in 0..exp.len() {
                                            if exp[row] == env_udf.errcode {
                                                continue;
                                            }
                                            st.rows_compared += 1;
                                            match (&cb[row], &ca[row]) {
                                                (Ok((b, _)), Ok((a, _))) if (*b == 1) != (*a == 1) => {
                                                    diff_rows.push(json!([row + 1, ast::show_code(*b, env_udf), ast::show_code(*a, env_udf)]))
                                                }
                                                (Ok((b, _)), Err(_)) => diff_rows.push(json!([row + 1, ast::show_code(*b, env_udf), "ERROR"])),
                                                _ => {}
                                            }
                                        }
                                        if !diff_rows.is_empty() {
                                            r["engine_diff_count"] = json!(diff_rows.len());
                                            r["engine_diffs"] = json!(diff_rows.iter().take(5).map(|d| json!({"table_row": d[0], "before": d[1], "after": d[2], "semantics": "row kept by the filter"})).collect::<Vec<_>>());
                                            r["engine_diff_rows"] = json!(diff_rows);
                                        }
                                    }
                                    Ok(Err(e)) => r["after_plan_error"] = json!(e.to_string()),
                                    Err(p) => r["after_plan_error"] = json!(format!("PANIC: {}", panic_msg(p))),
                                }
                                if let Some(a) = from_expr(&after, &dfschema, env_udf, false) {
                                    r["ast"] = json!(true);
                                    events.push(json!({"ev": evid, "tbl": tname, "before": c["e"], "after": a, "nonnull": [false, false, false, false],
                                                       "filt": true, "guar": []}));
                                }
                                results.push(r);
                            }
                        }
                    }
                    // the whole optimizer + physical planner: SELECT expr FROM t / SELECT * FROM t WHERE expr through the DataFrame API
                    if let (true, Some(cb)) = (no_ref_err, &cb_full) {
                        let mut keymap: std::collections::HashMap<Vec<i64>, usize> = std::collections::HashMap::new();
                        for row in 0..exp.len() {
                            keymap.insert((0..4).map(|cc| value_code(tv, cc, row, env_udf)).collect(), row);
                        }
                        let cols: Vec<Expr> = (1..=4).map(|i| datafusion_expr::col(format!("c{i}"))).collect();
                        let mut modes: Vec<(&str, bool)> = vec![("dataframe-projection", false)];
                        if c["k"] == "b" {
                            modes.push(("dataframe-filter", true));
                        }
                        for (mode, is_filter) in modes {
                            st.dataframe += 1;
                            let evid = format!("{}-{}-{}", c["p"], c["id"], mode);
                            let mut r = json!({"ev": evid, "id": c["id"], "p": c["p"], "variant": mode, "scope_rows": exp.len(), "guar": [], "nonnull": [false, false, false, false]});
                            let batch = full[tname].clone();
                            let bexpr = before.clone();
                            let cols2 = cols.clone();
                            let out: Result<Vec<RecordBatch>, String> = rt.block_on(async {
                                let df = ctx.read_batch(batch).map_err(|e| e.to_string())?;
                                let df = if is_filter {
                                    df.filter(bexpr).map_err(|e| e.to_string())?.select(cols2).map_err(|e| e.to_string())?
                                } else {
                                    let mut sel = cols2;
                                    sel.push(bexpr.alias("r"));
                                    df.select(sel).map_err(|e| e.to_string())?
                                };
                                df.collect().await.map_err(|e| e.to_string())
                            });
                            let mut diff_rows: Vec<Value> = vec![];
                            match out {
                                Err(e) => {
                                    r["after_plan_error"] = json!(e);
                                }
                                Ok(batches) => {
                                    let mut seen = vec![false; exp.len()];
                                    let mut bad = false;
                                    for b in &batches {
                                        for i in 0..b.num_rows() {
                                            let key: Result<Vec<i64>, String> = (0..4).map(|cc| ast::code_at(b.column(cc), i, env_udf)).collect();
                                            let Some(row) = key.ok().and_then(|k| keymap.get(&k).copied()) else {
                                                bad = true;
                                                continue;
                                            };
                                            if seen[row] {
                                                bad = true;
                                            }
                                            seen[row] = true;
                                            if !is_filter {
                                                st.rows_compared += 1;
                                                let a = ast::code_at(b.column(4), i, env_udf);
                                                match (&cb[row], a) {
                                                    (Ok((bv, bt)), Ok(av)) => {
                                                        if av != *bv || b.column(4).data_type() != bt {
                                                            diff_rows.push(json!([row + 1, ast::show_code(*bv, env_udf), if b.column(4).data_type() != bt { "TYPE".to_string() } else { ast::show_code(av, env_udf) }]));
                                                        }
                                                    }
                                                    (Ok((bv, _)), Err(_)) => diff_rows.push(json!([row + 1, ast::show_code(*bv, env_udf), "ERROR"])),
                                                    _ => {}
                                                }
                                            }
                                        }
                                    }
                                    for row in 0..exp.len() {
                                        if let Ok((bv, _)) = &cb[row] {
                                            let want = if is_filter { *bv == 1 } else { true };
                                            if is_filter {
                                                st.rows_compared += 1;
                                            }
                                            if want != seen[row] {
                                                diff_rows.push(json!([row + 1, ast::show_code(*bv, env_udf), if seen[row] { "ROW-KEPT" } else { "ROW-MISSING" }]));
                                            }
                                        }
                                    }
                                    if bad {
                                        diff_rows.push(json!([0, "-", "UNKNOWN-OR-DUPLICATE-ROW"]));
                                    }
                                }
                            }
                            if !diff_rows.is_empty() {
                                r["engine_diff_count"] = json!(diff_rows.len());
                                r["engine_diffs"] = json!(diff_rows.iter().take(5).map(|d| json!({"table_row": d[0], "before": d[1], "after": d[2]})).collect::<Vec<_>>());
                                r["engine_diff_rows"] = json!(diff_rows);
                            }
                            results.push(r);
                        }
                    }
                    if let Ok(Ok(pb)) = pb_full {
                        st.physical += 1;
                        let evid = format!("{}-{}-phys", c["p"], c["id"]);
                        let ps = catch_unwind(AssertUnwindSafe(|| PhysicalExprSimplifier::new(schema.as_ref()).simplify(Arc::clone(&pb))));
                        let mut r = json!({"ev": evid, "id": c["id"], "p": c["p"], "variant": "physical-simplifier", "scope_rows": exp.len()});
                        match ps {
                            Ok(Ok(pa)) => {
                                r["after"] = json!(format!("{pa}"));
                                if format!("{pa}") != format!("{pb}") {
                                    st.physical_changed += 1;
                                    r["changed"] = json!(true);
                                }
                                let cb = engine_column(&pb, &full[tname], env_udf);
                                let ca = engine_column(&pa, &full[tname], env_udf);
                                let mut diffs = vec![];
                                let mut diff_rows: Vec<Value> = vec![];
                                for row in 0..exp.len() {
                                    if exp[row] == env_udf.errcode {
                                        continue;
                                    }
                                    st.rows_compared += 1;
                                    match (&cb[row], &ca[row]) {
                                        (Ok((b, bt)), Ok((a, at))) if a != b || at != bt => {
                                            diff_rows.push(json!([row + 1, ast::show_code(*b, env_udf), if at != bt { "TYPE".to_string() } else { ast::show_code(*a, env_udf) }]));
                                            diffs.push(json!({"table_row": row + 1, "before": ast::show_code(*b, env_udf),
                                            "after": ast::show_code(*a, env_udf), "before_type": bt.to_string(), "after_type": at.to_string()}))
                                        }
                                        (Ok((b, _)), Err(e)) => {
                                            diff_rows.push(json!([row + 1, ast::show_code(*b, env_udf), "ERROR"]));
                                            diffs.push(json!({"table_row": row + 1, "before": ast::show_code(*b, env_udf), "after_error": e}))
                                        }
                                        _ => {}
                                    }
                                }
                                if !diffs.is_empty() {
                                    r["engine_diff_count"] = json!(diffs.len());
                                    diffs.truncate(5);
                                    r["engine_diffs"] = json!(diffs);
                                    r["engine_diff_rows"] = json!(diff_rows);
                                }
                            }
                            Ok(Err(e)) => {
                                r["simplify_error"] = json!(e.to_string());
                                r["reference_errs_in_scope"] = json!(exp.iter().any(|x| *x == env_udf.errcode));
                            }
                            Err(p) => {
                                r["simplify_error"] = json!(format!("PANIC: {}", panic_msg(p)));
                                r["reference_errs_in_scope"] = json!(exp.iter().any(|x| *x == env_udf.errcode));
                            }
                        }
                        results.push(r);
                    }
                }
                (results, events, st)
            }));
        }
        hs.into_iter().map(|h| h.join().unwrap()).collect()
    });
    let (mut results, mut events) = (vec![], vec![]);
    let mut tot = Stats::default();
    for (r, e, st) in per {
        results.extend(r);
        events.extend(e);
        tot.simplifications += st.simplifications;
        tot.changed += st.changed;
        tot.ast_ok += st.ast_ok;
        tot.fallback += st.fallback;
        tot.rows_compared += st.rows_compared;
        tot.before_engine_vs_reference += st.before_engine_vs_reference;
        tot.simplify_errors += st.simplify_errors;
        tot.physical += st.physical;
        tot.physical_changed += st.physical_changed;
        tot.predicates += st.predicates;
        tot.predicates_changed += st.predicates_changed;
        tot.dataframe += st.dataframe;
    }
    // engine-vs-engine corpus for rule families without a TLA+ reference
    let (extra_results, extra_summary) = if util::has_flag("--no-extras") { (vec![], json!({})) } else { crate::extras::run(&header) };
    results.extend(extra_results);
    util::write_ndjson(&out, &results);
    util::write_ndjson(&trace, &events);
    util::summary(json!({"cases": cases.len(), "simplifications": tot.simplifications, "changed": tot.changed, "events_for_tlc": tot.ast_ok,
                         "outside_ast_fallback": tot.fallback, "rows_compared_in_engine": tot.rows_compared,
                         "before_engine_vs_reference_rows": tot.before_engine_vs_reference, "simplify_errors": tot.simplify_errors,
                         "physical_simplifications": tot.physical, "physical_changed": tot.physical_changed,
                         "simplify_predicates_calls": tot.predicates, "simplify_predicates_changed": tot.predicates_changed,
                         "dataframe_executions": tot.dataframe, "extras": extra_summary}));
}
