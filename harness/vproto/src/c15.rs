//! C15 — distributor (exchange) channels.  Replays TLC behaviours of spec/proto/DistChanImpl.tla (and
//! seeded random schedules) on the real `channels(n)` / `partition_aware_channels(n_in, n_out)` under
//! the controlled scheduler and evaluates the property-level oracle on the real execution.
//!
//! Hook sites `dc_*` sit before every channel-mutex acquisition, every gate-mutex region and every
//! atomic access.  Some of them are reached while the channel mutex is held; the lock-table rule of
//! DESIGN.md Appendix C is implemented here from the sites themselves: a process stopped at an
//! *inside* site holds its channel's mutex, and a process stopped at a *lock* site of the same
//! channel is then not enabled.  The gate mutex is never held at a hook site.

#[cfg(not(feature = "c15_scratch"))]
use datafusion_physical_plan::repartition::verif_export::{
    DistributionReceiver, DistributionSender, channels, partition_aware_channels,
};
#[cfg(feature = "c15_scratch")]
#[path = "../../../work/mut15/distributor_channels.rs"]
#[allow(dead_code, unused_imports)]
mod scratch_dc;
#[cfg(feature = "c15_scratch")]
use scratch_dc::{DistributionReceiver, DistributionSender, channels, partition_aware_channels};
use rand::rngs::StdRng;
use rand::{Rng, SeedableRng};
use serde_json::{Value, json};
use std::collections::{BTreeMap, HashMap, HashSet};
use vcommon::sched::{self, Sched, Status};
use vcommon::util;

const BLOCKING: &[&str] = &[
    "dc_s_lock", "dc_s_load", "dc_s_gate", "dc_s_wake", "dc_decr", "dc_decr_gate", "dc_d_nsend", "dc_d_lock", "dc_d_wake",
    "dc_r_lock", "dc_r_incr", "dc_r_gate", "dc_r_wake", "dc_x_lock", "dc_x_wcs", "dc_x_wake",
];
const PENDING: &[&str] = &["dc_s_reg", "dc_r_reg"];
/// sites reached while the process holds its channel's mutex
const INSIDE: &[&str] = &["dc_s_load", "dc_s_gate", "dc_decr", "dc_decr_gate", "dc_r_incr", "dc_r_gate", "dc_x_wcs", "dc_x_wake"];
/// sites immediately before the acquisition of the channel mutex
const LOCKS: &[&str] = &["dc_s_lock", "dc_d_lock", "dc_r_lock", "dc_x_lock"];

#[derive(Clone, Debug)]
pub struct Case {
    /// number of gates: 1 with pa=false is `channels(nch)`; otherwise `partition_aware_channels(nin, nch)`
    pub nin: usize,
    pub pa: bool,
    pub nch: usize,
    /// senders[g][c] = number of sender handles (clones) of channel c of gate g
    pub senders: Vec<Vec<usize>>,
    /// program of each process: number of send / recv calls before the handle is dropped
    pub ops: BTreeMap<String, usize>,
    pub steps: Vec<(String, String)>,
    /// probability of continuing with the same process in the random phase
    pub sticky: f64,
    pub origin: String,
}

#[derive(Debug, Default)]
pub struct Outcome {
    pub executed: Vec<(String, String)>,
    pub drift: usize,
    pub deadlock: Option<String>,
    pub panics: Vec<(String, String)>,
    pub tool_error: Option<String>,
    pub violation: Option<String>,
    pub events: Vec<Value>,
    /// API-level history in real-time order: (proc, what, value)
    pub hist: Vec<(String, String, i64)>,
    pub parked_steps: usize,
    pub gate_parks: usize,
}

fn pname(k: char, g: usize, c: usize, i: usize) -> String {
    format!("{k}{g}.{c}.{i}")
}

fn parse_name(n: &str) -> (char, usize, usize, usize) {
    let k = n.chars().next().unwrap();
    let v: Vec<usize> = n[1..].split('.').map(|x| x.parse().unwrap()).collect();
    (k, v[0], v[1], v[2])
}

fn label_site(label: &str) -> String {
    if label == "resume" { "resume".into() } else { format!("dc_{label}") }
}

pub fn run_case(case: &Case, rng: &mut Option<StdRng>) -> Outcome {
    let mut o = Outcome::default();
    let sch = Sched::new(BLOCKING, PENDING, &[], &[], &[]);
    // ---- the real channels ----
    let mut txs: Vec<Vec<DistributionSender<i64>>>;
    let mut rxs: Vec<Vec<DistributionReceiver<i64>>>;
    if case.pa {
        (txs, rxs) = partition_aware_channels::<i64>(case.nin, case.nch);
    } else {
        let (t, r) = channels::<i64>(case.nch);
        txs = vec![t];
        rxs = vec![r];
    }
    if txs.len() != case.nin || rxs.len() != case.nin || txs.iter().any(|t| t.len() != case.nch) || rxs.iter().any(|r| r.len() != case.nch) {
        o.violation = Some(format!(
            "constructor returned the wrong shape: {} sender groups / {} receiver groups of sizes {:?} / {:?}, expected {} x {}",
            txs.len(), rxs.len(), txs.iter().map(|t| t.len()).collect::<Vec<_>>(), rxs.iter().map(|t| t.len()).collect::<Vec<_>>(), case.nin, case.nch
        ));
        sch.shutdown();
        return o;
    }
    let mut idx: HashMap<String, usize> = HashMap::new();
    let mut order: Vec<String> = vec![];
    for g in (1..=case.nin).rev() {
        let gt = txs.pop().unwrap();
        let gr = rxs.pop().unwrap();
        let mut gt: Vec<Option<DistributionSender<i64>>> = gt.into_iter().map(Some).collect();
        for (c0, rx) in gr.into_iter().enumerate() {
            let c = c0 + 1;
            let ns = case.senders[g - 1][c0];
            let first = gt[c0].take().unwrap();
            let mut handles = vec![];
            for _ in 1..ns {
                handles.push(first.clone());
            }
            handles.insert(0, first);
            for (i0, tx) in handles.into_iter().enumerate() {
                let i = i0 + 1;
                let name = pname('s', g, c, i);
                let n = *case.ops.get(&name).unwrap_or(&0) as i64;
                let ii = i as i64;
                let id = sch.spawn(&name, move |ctx| {
                    // the handle is dropped explicitly and never during unwinding: a panic in the code
                    // under test (send or Drop) must stay a catchable observation, not a process abort
                    let mut tx = std::mem::ManuallyDrop::new(tx);
                    let r1 = std::panic::catch_unwind(std::panic::AssertUnwindSafe(|| {
                        for k in 1..=n {
                            let v = ii * 100 + k;
                            ctx.note("send_begin", &[v]);
                            match sched::block_on(&ctx, tx.send(v)) {
                                Ok(Ok(())) => ctx.note("send_ok", &[v]),
                                Ok(Err(_)) => {
                                    ctx.note("send_err", &[v]);
                                    break;
                                }
                                Err(_) => {
                                    ctx.note("tool_err", &[]);
                                    break;
                                }
                            }
                        }
                    }));
                    ctx.note("sdrop_begin", &[]);
                    let r2 = std::panic::catch_unwind(std::panic::AssertUnwindSafe(|| unsafe { std::mem::ManuallyDrop::drop(&mut tx) }));
                    if let Err(e) = r1.and(r2) {
                        std::panic::resume_unwind(e);
                    }
                });
                idx.insert(name.clone(), id);
                order.push(name);
            }
            let name = pname('r', g, c, 0);
            let n = *case.ops.get(&name).unwrap_or(&0);
            let id = sch.spawn(&name, move |ctx| {
                let mut rx = std::mem::ManuallyDrop::new(rx);
                let r1 = std::panic::catch_unwind(std::panic::AssertUnwindSafe(|| {
                    for _ in 0..n {
                        match sched::block_on(&ctx, rx.recv()) {
                            Ok(Some(v)) => ctx.note("got", &[v]),
                            Ok(None) => {
                                ctx.note("none", &[]);
                                break;
                            }
                            Err(_) => {
                                ctx.note("tool_err", &[]);
                                break;
                            }
                        }
                    }
                }));
                ctx.note("rdrop_begin", &[]);
                let r2 = std::panic::catch_unwind(std::panic::AssertUnwindSafe(|| unsafe { std::mem::ManuallyDrop::drop(&mut rx) }));
                if let Err(e) = r1.and(r2) {
                    std::panic::resume_unwind(e);
                }
            });
            idx.insert(name.clone(), id);
            order.push(name);
        }
    }
    order.sort();
    let ids: Vec<usize> = order.iter().map(|n| idx[n]).collect();
    let chan_of: HashMap<usize, (usize, usize)> = order.iter().map(|n| { let (_, g, c, _) = parse_name(n); (idx[n], (g, c)) }).collect();

    // prime: run every process from "start" to its first hook point (touches no shared state)
    for &i in &ids {
        if let Err(e) = sch.step(i, 0) {
            o.tool_error = Some(e);
            sch.free_run();
            return o;
        }
    }

    fn absorb(o: &mut Outcome, log: Vec<vcommon::sched::Event>) -> (String, i64) {
        let (mut res, mut val) = (String::new(), 0);
        for e in log {
            match e.site.as_str() {
                "send_begin" | "sdrop_begin" | "rdrop_begin" => o.hist.push((e.p.clone(), e.site.clone(), e.args.first().copied().unwrap_or(0))),
                "send_ok" => {
                    o.hist.push((e.p.clone(), e.site.clone(), e.args[0]));
                    res = "ok".into();
                }
                "send_err" => {
                    o.hist.push((e.p.clone(), e.site.clone(), e.args[0]));
                    res = "err".into();
                }
                "got" => {
                    o.hist.push((e.p.clone(), e.site.clone(), e.args[0]));
                    res = "some".into();
                    val = e.args[0];
                }
                "none" => {
                    o.hist.push((e.p.clone(), e.site.clone(), 0));
                    res = "none".into();
                }
                "dc_s_reg" => o.gate_parks += 1,
                "tool_err" => o.tool_error = Some("poll loop: pending without a protocol waker".into()),
                _ => {}
            }
        }
        (res, val)
    }
    let _ = absorb(&mut o, sch.take_log());

    // exact enabledness: at a hook point, and not about to acquire a channel mutex that another
    // process (stopped at an inside site) holds
    let enabled = |sch: &Sched| -> Vec<usize> {
        let st: Vec<(usize, Status)> = ids.iter().map(|&i| (i, sch.status(i))).collect();
        let held: HashSet<(usize, usize)> =
            st.iter().filter_map(|(i, s)| match s { Status::AtPoint(site, _) if INSIDE.contains(&site.as_str()) => Some(chan_of[i]), _ => None }).collect();
        st.iter()
            .filter_map(|(i, s)| match s {
                Status::AtPoint(site, _) => {
                    if LOCKS.contains(&site.as_str()) && held.contains(&chan_of[i]) { None } else { Some(*i) }
                }
                _ => None,
            })
            .collect()
    };

    let do_step = |i: usize, o: &mut Outcome| -> bool {
        match sch.step(i, 0) {
            Ok((site, st)) => {
                let name = sch.name(i);
                let (mut res, val) = absorb(o, sch.take_log());
                match st {
                    Status::Parked => {
                        res = "pend".into();
                        o.parked_steps += 1;
                    }
                    Status::Finished => res = "done".into(),
                    _ => {}
                }
                let label = if site == "resume" { "resume".to_string() } else { site.trim_start_matches("dc_").to_string() };
                let (k, g, c, ix) = parse_name(&name);
                o.events.push(json!({"k": k.to_string(), "g": g, "c": c, "i": ix, "l": label, "res": res, "v": [val / 100, val % 100]}));
                o.executed.push((name, label));
                true
            }
            Err(e) => {
                o.tool_error = Some(e);
                false
            }
        }
    };

    // phase 1: follow the given schedule
    for (p, label) in &case.steps {
        let Some(&i) = idx.get(p) else {
            o.drift += 1;
            continue;
        };
        let want = label_site(label);
        match sch.status(i) {
            Status::AtPoint(site, _) if enabled(&sch).contains(&i) => {
                if site != want {
                    o.drift += 1;
                }
                if !do_step(i, &mut o) {
                    sch.free_run();
                    return o;
                }
            }
            _ => o.drift += 1,
        }
    }
    // phase 2: run to completion — lowest-numbered enabled process, or seeded random choice
    let mut guard = 0;
    let mut prev: Option<usize> = None;
    loop {
        if sch.all_finished() {
            break;
        }
        let en = enabled(&sch);
        if en.is_empty() {
            let stuck: Vec<String> =
                ids.iter().filter(|&&i| sch.status(i) != Status::Finished).map(|&i| format!("{}:{:?}", sch.name(i), sch.status(i))).collect();
            o.deadlock = Some(stuck.join(", "));
            break;
        }
        let i = match rng.as_mut() {
            Some(r) => match prev {
                Some(p) if en.contains(&p) && r.random_bool(case.sticky) => p,
                _ => en[r.random_range(0..en.len())],
            },
            None => en[0],
        };
        prev = Some(i);
        if !do_step(i, &mut o) {
            sch.free_run();
            return o;
        }
        guard += 1;
        if guard > 100_000 {
            o.tool_error = Some("step budget exhausted".into());
            break;
        }
    }
    o.panics = sch.panics();
    let _ = absorb(&mut o, sch.take_log());
    if o.deadlock.is_some() || o.tool_error.is_some() {
        sch.free_run();
    }
    sch.shutdown();
    o.violation = judge(case, &o);
    o
}

/// The property-level oracle (C15) on the API-level history of the real execution.
fn judge(case: &Case, o: &Outcome) -> Option<String> {
    if o.tool_error.is_some() {
        return None;
    }
    if let Some((p, m)) = o.panics.first() {
        return Some(format!("process {p} panicked: {m}"));
    }
    // positions in the real-time history
    let mut begin: HashMap<(usize, usize, i64), usize> = HashMap::new(); // (g,c,v) -> time of send_begin
    let mut okt: HashMap<(usize, usize, i64), usize> = HashMap::new();
    let mut sdrop: HashMap<String, usize> = HashMap::new();
    let mut rdrop: HashMap<(usize, usize), usize> = HashMap::new();
    let mut got: HashMap<(usize, usize), Vec<(i64, usize)>> = HashMap::new();
    let mut none_t: HashMap<(usize, usize), usize> = HashMap::new();
    for (t, (p, what, v)) in o.hist.iter().enumerate() {
        let (_, g, c, _) = parse_name(p);
        match what.as_str() {
            "send_begin" => {
                begin.insert((g, c, *v), t);
            }
            "send_ok" => {
                okt.insert((g, c, *v), t);
            }
            "sdrop_begin" => {
                sdrop.insert(p.clone(), t);
            }
            "rdrop_begin" => {
                rdrop.insert((g, c), t);
            }
            "got" => got.entry((g, c)).or_default().push((*v, t)),
            "none" => {
                none_t.insert((g, c), t);
            }
            "send_err" => {
                // checked below (needs rdrop of the whole history)
            }
            _ => {}
        }
    }
    for (t, (p, what, v)) in o.hist.iter().enumerate() {
        if what == "send_err" {
            let (_, g, c, _) = parse_name(p);
            match rdrop.get(&(g, c)) {
                Some(&d) if d < t => {}
                _ => return Some(format!("send of {v} by {p} returned Err although the receiver of channel {g}.{c} was not dropped")),
            }
        }
    }
    for g in 1..=case.nin {
        for c in 1..=case.nch {
            let seq = got.get(&(g, c)).cloned().unwrap_or_default();
            let mut seen = HashSet::new();
            let mut next_k: HashMap<i64, i64> = HashMap::new();
            for (n, (v, t)) in seq.iter().enumerate() {
                match begin.get(&(g, c, *v)) {
                    Some(&b) if b < *t => {}
                    _ => return Some(format!("channel {g}.{c}: received {v}, which was not sent on this channel before")),
                }
                if !seen.insert(*v) {
                    return Some(format!("channel {g}.{c}: value {v} received twice"));
                }
                let (s, k) = (v / 100, v % 100);
                let e = next_k.entry(s).or_insert(1);
                if k != *e {
                    return Some(format!("channel {g}.{c}: values of sender {s} received out of send order or with a gap: got #{k}, expected #{e} (received so far {:?})", seq.iter().map(|x| x.0).collect::<Vec<_>>()));
                }
                *e += 1;
                // send order across handles: a send that returned before another began is received first
                for (v2, _) in &seq[..n] {
                    if let (Some(&ok1), Some(&b2)) = (okt.get(&(g, c, *v)), begin.get(&(g, c, *v2))) {
                        if ok1 < b2 {
                            return Some(format!("channel {g}.{c}: {v2} received before {v}, but send({v}) had returned before send({v2}) began"));
                        }
                    }
                }
            }
            if let Some(&tn) = none_t.get(&(g, c)) {
                for i in 1..=case.senders[g - 1][c - 1] {
                    let s = pname('s', g, c, i);
                    match sdrop.get(&s) {
                        Some(&d) if d < tn => {}
                        _ => return Some(format!("channel {g}.{c}: recv returned None while sender handle {s} was not dropped")),
                    }
                }
                let missing: Vec<i64> = okt.keys().filter(|k| k.0 == g && k.1 == c && !seen.contains(&k.2)).map(|k| k.2).collect();
                if !missing.is_empty() {
                    return Some(format!("channel {g}.{c}: recv returned None but successfully sent values {missing:?} were never received"));
                }
            }
        }
    }
    if let Some(d) = &o.deadlock {
        return Some(format!("no process can make progress (exact scheduler; every unfinished process is parked on a waker nobody holds): {d}"));
    }
    None
}

fn parse_case(v: &Value) -> Case {
    let steps: Vec<(String, String)> =
        v["steps"].as_array().unwrap().iter().map(|s| (s[0].as_str().unwrap().to_string(), s[1].as_str().unwrap().to_string())).collect();
    let senders: Vec<Vec<usize>> =
        v["senders"].as_array().unwrap().iter().map(|g| g.as_array().unwrap().iter().map(|x| x.as_u64().unwrap() as usize).collect()).collect();
    let ops: BTreeMap<String, usize> = v["ops"].as_object().unwrap().iter().map(|(k, x)| (k.clone(), x.as_u64().unwrap() as usize)).collect();
    Case {
        nin: v["nin"].as_u64().unwrap() as usize,
        pa: v["pa"].as_bool().unwrap_or(false),
        nch: v["nch"].as_u64().unwrap() as usize,
        senders,
        ops,
        steps,
        sticky: v.get("sticky").and_then(|x| x.as_f64()).unwrap_or(0.0),
        origin: v.get("origin").and_then(|x| x.as_str()).unwrap_or("tlc").to_string(),
    }
}

fn case_json(c: &Case) -> Value {
    json!({"nin": c.nin, "pa": c.pa, "nch": c.nch, "senders": c.senders, "ops": c.ops, "sticky": c.sticky,
           "steps": c.steps.iter().map(|(p,l)| json!([p,l])).collect::<Vec<_>>(), "origin": c.origin})
}

pub fn main() {
    let out_path = util::arg("--out").unwrap_or_else(|| "c15-result.json".into());
    let mut cases: Vec<Case> = vec![];
    if let Some(p) = util::arg("--behaviours") {
        cases.extend(util::read_ndjson(&p).iter().map(parse_case));
    }
    if let Some(p) = util::arg("--replay") {
        let v: Value = serde_json::from_str(&std::fs::read_to_string(&p).unwrap()).unwrap();
        cases.push(parse_case(&v["case"]));
    }
    let menu: Vec<Value> = util::arg("--menu").map(|p| util::read_ndjson(&p)).unwrap_or_default();
    let nrandom: usize = if menu.is_empty() { 0 } else { util::arg("--random").and_then(|s| s.parse().ok()).unwrap_or(0) };
    let seed = util::seed();
    let mut total = 0usize;
    let (mut drift_total, mut steps_total, mut parked_total, mut gate_parks, mut completed) = (0usize, 0usize, 0usize, 0usize, 0usize);
    let mut tool_errors = vec![];
    let mut violations: Vec<Value> = vec![];
    let mut samples: Vec<Value> = vec![];
    let mut distinct = HashSet::new();
    let mut sites = BTreeMap::<String, usize>::new();
    let mut branches = BTreeMap::<String, usize>::new();
    let mut traces: Vec<Value> = vec![];

    let mut record = |case: &Case, o: &Outcome, total: &mut usize| {
        *total += 1;
        drift_total += o.drift;
        steps_total += o.executed.len();
        parked_total += o.parked_steps;
        gate_parks += o.gate_parks;
        for (_, s) in &o.executed {
            *sites.entry(s.clone()).or_default() += 1;
        }
        distinct.insert(format!("{:?}{:?}", case.senders, o.executed));
        // branch families actually executed: the context of the shared decr_empty_channels regions, API results
        let mut last_lock: HashMap<&str, &str> = HashMap::new();
        for (p, l) in &o.executed {
            if l.ends_with("_lock") {
                last_lock.insert(p.as_str(), l.as_str());
            }
            if l == "decr" || l == "decr_gate" {
                let ctxt = match last_lock.get(p.as_str()).copied().unwrap_or("") {
                    "x_lock" => "receiver_drop",
                    "d_lock" => "sender_drop",
                    _ => "send",
                };
                *branches.entry(format!("{l}_in_{ctxt}")).or_default() += 1;
            }
        }
        for (_, w, _) in &o.hist {
            if w == "send_err" || w == "none" || w == "send_ok" || w == "got" {
                *branches.entry(format!("api_{w}")).or_default() += 1;
            }
        }
        if case.pa { *branches.entry("partition_aware_channels".into()).or_default() += 1; }
        if case.nin > 1 { *branches.entry("several_gates".into()).or_default() += 1; }
        *branches.entry(format!("channels_{}", case.nch)).or_default() += 1;
        *branches.entry(format!("max_handles_per_channel_{}", case.senders.iter().flatten().max().copied().unwrap_or(0))).or_default() += 1;
        if let Some(e) = &o.tool_error {
            tool_errors.push(e.clone());
        }
        let hist: Vec<Value> = o.hist.iter().map(|(p, w, v)| json!([p, w, v])).collect();
        let obs = json!({"executed": o.executed.len(), "drift": o.drift, "deadlock": o.deadlock, "history": hist});
        if let Some(v) = &o.violation {
            if violations.len() < 20 {
                violations.push(json!({"case": case_json(case), "observed": obs, "oracle": v}));
            }
        } else if o.tool_error.is_none() {
            completed += 1;
        }
        if samples.len() < 3 && o.executed.len() > 10 {
            samples.push(json!({"case": case_json(case), "observed": obs}));
        }
        // B2: one run per gate (gates share no state)
        if o.tool_error.is_none() && o.violation.is_none() {
            for g in 1..=case.nin {
                let ev: Vec<&Value> = o.events.iter().filter(|e| e["g"].as_u64() == Some(g as u64)).collect();
                traces.push(json!({"nch": case.nch, "senders": case.senders[g - 1], "ev": ev}));
            }
        }
    };

    for case in &cases {
        let mut none = None;
        let o = run_case(case, &mut none);
        record(case, &o, &mut total);
    }
    let mut rng = StdRng::seed_from_u64(seed ^ 0xC15);
    for n in 0..nrandom {
        let m = &menu[n % menu.len()];
        let nin = m["nin"].as_u64().unwrap() as usize;
        let pa = m["pa"].as_bool().unwrap_or(nin > 1);
        let sv: Vec<usize> = m["senders"].as_array().unwrap().iter().map(|x| x.as_u64().unwrap() as usize).collect();
        let nch = sv.len();
        let maxmsg = m["msgs"].as_u64().unwrap_or(3) as usize;
        let senders: Vec<Vec<usize>> = (0..nin).map(|_| sv.clone()).collect();
        let mut ops = BTreeMap::new();
        // program shapes: full exchange | receivers drop early | senders idle
        let shape = rng.random_range(0..4);
        for g in 1..=nin {
            for c in 1..=nch {
                for i in 1..=sv[c - 1] {
                    let k = if shape == 3 { rng.random_range(0..=1) } else { rng.random_range(0..=maxmsg) };
                    ops.insert(pname('s', g, c, i), k);
                }
                let full = match shape { 0 => true, 1 => false, _ => rng.random_bool(0.6) };
                ops.insert(pname('r', g, c, 0), if full { 99 } else { rng.random_range(0..=3) });
            }
        }
        let sticky = [0.0, 0.5, 0.8][rng.random_range(0..3)];
        let case = Case { nin, pa, nch, senders, ops, steps: vec![], sticky, origin: format!("random seed={seed} n={n}") };
        let mut r = Some(StdRng::seed_from_u64(seed.wrapping_mul(1_000_003).wrapping_add(n as u64)));
        let o = run_case(&case, &mut r);
        // a random run is replayable from its executed schedule
        let mut c2 = case.clone();
        c2.steps = o.executed.clone();
        record(&c2, &o, &mut total);
    }
    let res = json!({
        "evaluations": total, "completed_ok": completed, "distinct_schedules": distinct.len(), "steps": steps_total, "drift_steps": drift_total,
        "pending_returns": parked_total, "gate_parks": gate_parks,
        "violations": violations, "samples": samples, "sites": sites, "branches": branches, "tool_errors": tool_errors,
    });
    std::fs::write(&out_path, serde_json::to_string(&res).unwrap()).unwrap();
    if let Some(p) = util::arg("--traces") {
        util::write_ndjson(&p, &traces);
    }
    util::summary(json!({"evaluations": total, "violations": violations.len(), "tool_errors": tool_errors.len(), "drift_steps": drift_total}));
}
