//! C10 — repartitioning delivers every row exactly once to the right partition.
//!
//! Two drivers:
//!  * `--part-cases`: TLC-enumerated partitioner cases (spec/proto/RepartCases.tla) replayed into the
//!    real `BatchPartitioner::{partition, partition_iter}` and `RangeExpr::evaluate` (binding B3);
//!  * `--random N` / `--replay`: the real `RepartitionExec` is executed on multi-partition inputs with a
//!    row-id column under varied schemes / output counts / preserve_order / batch sizes / memory budgets
//!    (spill path) / early-drop patterns / input errors / runtime schedules; the oracle is evaluated on
//!    the real outputs and every run is recorded as an event trace for spec/proto/RepartitionTrace.tla (B2).

use arrow::array::{Array, ArrayRef, Int32Array, Int64Array, RecordBatch, StringArray, UInt64Array};
use arrow::compute::SortOptions;
use arrow::datatypes::{DataType, Field, Schema, SchemaRef};
use datafusion_common::tree_node::TreeNodeRecursion;
use datafusion_common::{DataFusionError, Result, ScalarValue, SplitPoint};
use datafusion_execution::config::SessionConfig;
use datafusion_execution::runtime_env::RuntimeEnvBuilder;
use datafusion_execution::{RecordBatchStream, SendableRecordBatchStream, TaskContext};
use datafusion_physical_expr::expressions::col;
use datafusion_physical_expr::{EquivalenceProperties, PhysicalExpr, RangePartitioning};
use datafusion_physical_expr_common::sort_expr::{LexOrdering, PhysicalSortExpr};
use datafusion_physical_plan::execution_plan::{Boundedness, EmissionType};
use datafusion_physical_plan::hash_utils::create_hashes;
use datafusion_physical_plan::metrics::{ExecutionPlanMetricsSet, MetricBuilder};
use datafusion_physical_plan::repartition::{BatchPartitioner, REPARTITION_RANDOM_STATE, RangeExpr, RepartitionExec};
use datafusion_physical_plan::{
    ChildrenPropertiesMode, DisplayAs, DisplayFormatType, ExecutionPlan, Partitioning, PlanProperties, ReplaceChildrenOptions,
};
use futures::{Stream, StreamExt};
use rand::rngs::StdRng;
use rand::{Rng, SeedableRng};
use serde_json::{Value, json};
use std::collections::{BTreeMap, HashMap, HashSet};
use std::pin::Pin;
use std::sync::Arc;
use std::sync::atomic::{AtomicU64, Ordering as AO};
use std::task::{Context, Poll};
use vcommon::util;

// ------------------------------------------------------------------------------------------ data

/// One row: id (unique), k1 (Int32?), k2 (Utf8?), k3 (Int64?), s (sort key, per-input non-decreasing)
#[derive(Clone, Debug, PartialEq)]
pub struct Row {
    id: i64,
    k1: Option<i32>,
    k2: Option<String>,
    k3: Option<i64>,
    s: i64,
}

fn schema() -> SchemaRef {
    Arc::new(Schema::new(vec![
        Field::new("id", DataType::Int64, false),
        Field::new("k1", DataType::Int32, true),
        Field::new("k2", DataType::Utf8, true),
        Field::new("k3", DataType::Int64, true),
        Field::new("s", DataType::Int64, false),
    ]))
}

fn to_batch(rows: &[Row]) -> RecordBatch {
    let cols: Vec<ArrayRef> = vec![
        Arc::new(Int64Array::from(rows.iter().map(|r| r.id).collect::<Vec<_>>())),
        Arc::new(Int32Array::from(rows.iter().map(|r| r.k1).collect::<Vec<_>>())),
        Arc::new(StringArray::from(rows.iter().map(|r| r.k2.clone()).collect::<Vec<_>>())),
        Arc::new(Int64Array::from(rows.iter().map(|r| r.k3).collect::<Vec<_>>())),
        Arc::new(Int64Array::from(rows.iter().map(|r| r.s).collect::<Vec<_>>())),
    ];
    RecordBatch::try_new(schema(), cols).unwrap()
}

fn from_batch(b: &RecordBatch) -> Vec<Row> {
    let id = b.column(0).as_any().downcast_ref::<Int64Array>().unwrap();
    let k1 = b.column(1).as_any().downcast_ref::<Int32Array>().unwrap();
    let k2 = b.column(2).as_any().downcast_ref::<StringArray>().unwrap();
    let k3 = b.column(3).as_any().downcast_ref::<Int64Array>().unwrap();
    let s = b.column(4).as_any().downcast_ref::<Int64Array>().unwrap();
    (0..b.num_rows())
        .map(|i| Row {
            id: id.value(i),
            k1: k1.is_valid(i).then(|| k1.value(i)),
            k2: k2.is_valid(i).then(|| k2.value(i).to_string()),
            k3: k3.is_valid(i).then(|| k3.value(i)),
            s: s.value(i),
        })
        .collect()
}

#[derive(Clone, Debug)]
pub enum Item {
    Batch(Vec<Row>),
    Err,
}

#[derive(Clone, Debug)]
pub struct Case {
    scheme: String, // hash | rr | range
    nout: usize,
    keys: Vec<String>,
    splits: Vec<Vec<Option<i64>>>,
    desc: Vec<bool>,
    nulls_first: Vec<bool>,
    preserve_order: bool,
    unbounded: bool,
    inputs: Vec<Vec<Item>>,
    batch_size: usize,
    mem: Option<usize>,
    max_spill_file: Option<usize>,
    /// per output: -2 read fully | -1 never executed | k >= 0 dropped after k batches
    drops: Vec<i64>,
    threads: usize,
    yield_seed: u64,
    /// force two writers of the shared spill pool to hold distinct files at the same time (hook rendezvous at sp_w_p3)
    force_two_files: bool,
    /// the injected input error is delivered only after every `poll once, then drop` output (-3) is gone
    err_after_drops: bool,
    /// scenario family (for the path counters)
    family: String,
    origin: String,
}

fn row_json(r: &Row) -> Value {
    json!([r.id, r.k1, r.k2, r.k3, r.s])
}

fn row_parse(v: &Value) -> Row {
    Row { id: v[0].as_i64().unwrap(), k1: v[1].as_i64().map(|x| x as i32), k2: v[2].as_str().map(|s| s.to_string()), k3: v[3].as_i64(), s: v[4].as_i64().unwrap() }
}

fn case_json(c: &Case) -> Value {
    let inputs: Vec<Value> = c
        .inputs
        .iter()
        .map(|p| Value::Array(p.iter().map(|it| match it { Item::Batch(rs) => Value::Array(rs.iter().map(row_json).collect()), Item::Err => json!({"err": true}) }).collect()))
        .collect();
    json!({"scheme": c.scheme, "nout": c.nout, "keys": c.keys, "splits": c.splits, "desc": c.desc, "nulls_first": c.nulls_first,
           "preserve_order": c.preserve_order, "unbounded": c.unbounded, "inputs": inputs, "batch_size": c.batch_size, "mem": c.mem,
           "max_spill_file": c.max_spill_file, "drops": c.drops, "threads": c.threads, "yield_seed": c.yield_seed, "force_two_files": c.force_two_files, "err_after_drops": c.err_after_drops, "family": c.family, "origin": c.origin})
}

fn case_parse(v: &Value) -> Case {
    let strs = |x: &Value| x.as_array().map(|a| a.iter().map(|s| s.as_str().unwrap().to_string()).collect()).unwrap_or_default();
    let bools = |x: &Value| x.as_array().map(|a| a.iter().map(|s| s.as_bool().unwrap()).collect()).unwrap_or_default();
    Case {
        scheme: v["scheme"].as_str().unwrap().to_string(),
        nout: v["nout"].as_u64().unwrap() as usize,
        keys: strs(&v["keys"]),
        splits: v["splits"].as_array().map(|a| a.iter().map(|sp| sp.as_array().unwrap().iter().map(|x| x.as_i64()).collect()).collect()).unwrap_or_default(),
        desc: bools(&v["desc"]),
        nulls_first: bools(&v["nulls_first"]),
        preserve_order: v["preserve_order"].as_bool().unwrap_or(false),
        unbounded: v["unbounded"].as_bool().unwrap_or(false),
        inputs: v["inputs"]
            .as_array()
            .unwrap()
            .iter()
            .map(|p| p.as_array().unwrap().iter().map(|it| if it.is_object() { Item::Err } else { Item::Batch(it.as_array().unwrap().iter().map(row_parse).collect()) }).collect())
            .collect(),
        batch_size: v["batch_size"].as_u64().unwrap_or(8192) as usize,
        mem: v["mem"].as_u64().map(|x| x as usize),
        max_spill_file: v["max_spill_file"].as_u64().map(|x| x as usize),
        drops: v["drops"].as_array().unwrap().iter().map(|x| x.as_i64().unwrap()).collect(),
        threads: v["threads"].as_u64().unwrap_or(2) as usize,
        yield_seed: v["yield_seed"].as_u64().unwrap_or(0),
        force_two_files: v["force_two_files"].as_bool().unwrap_or(false),
        err_after_drops: v["err_after_drops"].as_bool().unwrap_or(false),
        family: v["family"].as_str().unwrap_or("random").to_string(),
        origin: v["origin"].as_str().unwrap_or("").to_string(),
    }
}

// ------------------------------------------------------------------------------------------ reference routing (harness side)

/// The documented comparison of one key value under sort options (NULL placement by nulls_first,
/// independent of direction).
fn cmp_key(a: Option<i64>, b: Option<i64>, desc: bool, nulls_first: bool) -> std::cmp::Ordering {
    use std::cmp::Ordering::*;
    match (a, b) {
        (None, None) => Equal,
        (None, Some(_)) => if nulls_first { Less } else { Greater },
        (Some(_), None) => if nulls_first { Greater } else { Less },
        (Some(x), Some(y)) => if desc { y.cmp(&x) } else { x.cmp(&y) },
    }
}

fn cmp_rows(a: &[Option<i64>], b: &[Option<i64>], desc: &[bool], nf: &[bool]) -> std::cmp::Ordering {
    for i in 0..a.len() {
        let c = cmp_key(a[i], b[i], desc[i], nf[i]);
        if c != std::cmp::Ordering::Equal {
            return c;
        }
    }
    std::cmp::Ordering::Equal
}

fn key_i64(r: &Row, k: &str) -> Option<i64> {
    match k {
        "k1" => r.k1.map(|x| x as i64),
        "k3" => r.k3,
        "s" => Some(r.s),
        "id" => Some(r.id),
        "k2" => r.k2.as_ref().map(|x| STRS.iter().position(|y| y == x).expect("string outside the domain") as i64),
        _ => None,
    }
}

/// the Utf8 key domain in its byte-wise (arrow) order; a string key is represented by its rank
const STRS: [&str; 5] = ["", "a", "ab", "b", "c"];

/// range rule: the partition is the number of split points that are <= the row key
fn range_part(c: &Case, r: &Row) -> usize {
    let key: Vec<Option<i64>> = c.keys.iter().map(|k| key_i64(r, k)).collect();
    c.splits.iter().filter(|sp| cmp_rows(sp, &key, &c.desc, &c.nulls_first) != std::cmp::Ordering::Greater).count()
}

fn hash_of(keys: &[String], rows: &[Row]) -> Vec<u64> {
    let b = to_batch(rows);
    let arrays: Vec<ArrayRef> = keys.iter().map(|k| Arc::clone(b.column(b.schema().index_of(k).unwrap()))).collect();
    let mut h = vec![0u64; rows.len()];
    create_hashes(&arrays, REPARTITION_RANDOM_STATE.random_state(), &mut h).unwrap();
    h
}

fn limbs(h: u64) -> Value {
    json!([(h >> 48) & 0xffff, (h >> 32) & 0xffff, (h >> 16) & 0xffff, h & 0xffff])
}

fn partitioning(c: &Case) -> Result<Partitioning> {
    let sch = schema();
    Ok(match c.scheme.as_str() {
        "hash" => Partitioning::Hash(c.keys.iter().map(|k| col(k, &sch)).collect::<Result<Vec<_>>>()?, c.nout),
        "rr" => Partitioning::RoundRobinBatch(c.nout),
        "range" => {
            let ord: Vec<PhysicalSortExpr> = c
                .keys
                .iter()
                .enumerate()
                .map(|(i, k)| Ok(PhysicalSortExpr::new(col(k, &sch)?, SortOptions { descending: c.desc[i], nulls_first: c.nulls_first[i] })))
                .collect::<Result<Vec<_>>>()?;
            let splits = c
                .splits
                .iter()
                .map(|sp| {
                    SplitPoint::new(sp.iter().enumerate().map(|(i, v)| match c.keys[i].as_str() { "k1" => ScalarValue::Int32(v.map(|x| x as i32)), "k2" => ScalarValue::Utf8(v.map(|x| STRS[x as usize].to_string())), _ => ScalarValue::Int64(*v) }).collect())
                })
                .collect();
            Partitioning::Range(RangePartitioning::try_new(LexOrdering::new(ord).unwrap(), splits)?)
        }
        o => return Err(DataFusionError::Internal(format!("scheme {o}"))),
    })
}

// ------------------------------------------------------------------------------------------ scripted input plan


#[derive(Debug)]
struct ScriptExec {
    parts: Vec<Vec<Item>>,
    props: Arc<PlanProperties>,
    yield_seed: u64,
    sleeps: bool,
    log: Arc<parking_lot::Mutex<Vec<Value>>>,
    progress: Arc<AtomicU64>,
    /// (outputs dropped so far, drops the error waits for)
    drops_done: Arc<AtomicU64>,
    gate_drops: u64,
}

impl ScriptExec {
    fn new(c: &Case, log: Arc<parking_lot::Mutex<Vec<Value>>>, progress: Arc<AtomicU64>, drops_done: Arc<AtomicU64>) -> Self {
        let sch = schema();
        let eq = if c.preserve_order {
            EquivalenceProperties::new_with_orderings(Arc::clone(&sch), [[PhysicalSortExpr::new(col("s", &sch).unwrap(), SortOptions { descending: false, nulls_first: false })]])
        } else {
            EquivalenceProperties::new(Arc::clone(&sch))
        };
        let bounded = if c.unbounded { Boundedness::Unbounded { requires_infinite_memory: false } } else { Boundedness::Bounded };
        let props = PlanProperties::new(eq, Partitioning::UnknownPartitioning(c.inputs.len()), EmissionType::Incremental, bounded);
        ScriptExec { parts: c.inputs.clone(), props: Arc::new(props), yield_seed: c.yield_seed, sleeps: c.threads > 1, log, progress, drops_done,
                     gate_drops: if c.err_after_drops { c.drops.iter().filter(|d| **d == -3).count() as u64 } else { 0 } }
    }
}

impl DisplayAs for ScriptExec {
    fn fmt_as(&self, _t: DisplayFormatType, f: &mut std::fmt::Formatter) -> std::fmt::Result {
        write!(f, "ScriptExec")
    }
}

#[allow(deprecated)]
impl ExecutionPlan for ScriptExec {
    fn name(&self) -> &'static str {
        "ScriptExec"
    }
    fn properties(&self) -> &Arc<PlanProperties> {
        &self.props
    }
    fn children(&self) -> Vec<&Arc<dyn ExecutionPlan>> {
        vec![]
    }
    fn apply_expressions(&self, _f: &mut dyn FnMut(&Arc<dyn PhysicalExpr>) -> Result<TreeNodeRecursion>) -> Result<TreeNodeRecursion> {
        Ok(TreeNodeRecursion::Continue)
    }
    fn replace_children(self: Arc<Self>, _children: Vec<Arc<dyn ExecutionPlan>>, _o: ReplaceChildrenOptions) -> Result<Arc<dyn ExecutionPlan>> {
        Ok(self)
    }
    fn with_new_children(self: Arc<Self>, children: Vec<Arc<dyn ExecutionPlan>>) -> Result<Arc<dyn ExecutionPlan>> {
        self.replace_children(children, ReplaceChildrenOptions::new(ChildrenPropertiesMode::Recompute))
    }
    fn execute(&self, partition: usize, _ctx: Arc<TaskContext>) -> Result<SendableRecordBatchStream> {
        Ok(Box::pin(ScriptStream {
            input: partition,
            items: self.parts[partition].clone(),
            pos: 0,
            rng: self.yield_seed.wrapping_mul(0x9E3779B97F4A7C15) ^ (partition as u64 + 1),
            fuzz: self.yield_seed != 0,
            sleeps: self.sleeps,
            log: Arc::clone(&self.log),
            progress: Arc::clone(&self.progress),
            drops_done: Arc::clone(&self.drops_done),
            gate_drops: self.gate_drops,
        }))
    }
}

struct ScriptStream {
    input: usize,
    items: Vec<Item>,
    pos: usize,
    rng: u64,
    fuzz: bool,
    sleeps: bool,
    log: Arc<parking_lot::Mutex<Vec<Value>>>,
    progress: Arc<AtomicU64>,
    drops_done: Arc<AtomicU64>,
    gate_drops: u64,
}

fn xorshift(x: &mut u64) -> u64 {
    *x ^= *x << 13;
    *x ^= *x >> 7;
    *x ^= *x << 17;
    *x
}

impl Stream for ScriptStream {
    type Item = Result<RecordBatch>;
    fn poll_next(mut self: Pin<&mut Self>, cx: &mut Context<'_>) -> Poll<Option<Self::Item>> {
        if self.fuzz {
            let r = xorshift(&mut self.rng);
            match r % 8 {
                0 | 1 => {
                    cx.waker().wake_by_ref();
                    return Poll::Pending;
                }
                2 => std::thread::yield_now(),
                3 if self.sleeps => std::thread::sleep(std::time::Duration::from_micros(r % 300)),
                _ => {}
            }
        }
        if self.pos >= self.items.len() {
            let i = self.input;
            self.log.lock().push(json!({"e": "idone", "i": i + 1}));
            return Poll::Ready(None);
        }
        let it = self.items[self.pos].clone();
        if matches!(it, Item::Err) && self.drops_done.load(AO::SeqCst) < self.gate_drops {
            // the failure is scheduled after the planned early drops: come back later
            std::thread::yield_now();
            cx.waker().wake_by_ref();
            return Poll::Pending;
        }
        self.pos += 1;
        self.progress.fetch_add(1, AO::Relaxed);
        match it {
            Item::Batch(rows) => {
                let (i, pos) = (self.input, self.pos);
                self.log.lock().push(json!({"e": "in", "i": i + 1, "b": pos, "ids": rows.iter().map(|r| r.id).collect::<Vec<_>>()}));
                // every other batch is handed over as a slice of a longer batch (array offsets != 0)
                let b = if pos % 2 == 0 && !rows.is_empty() {
                    let mut padded = vec![rows[0].clone()];
                    padded.extend(rows.iter().cloned());
                    padded.push(rows[rows.len() - 1].clone());
                    to_batch(&padded).slice(1, rows.len())
                } else {
                    to_batch(&rows)
                };
                Poll::Ready(Some(Ok(b)))
            }
            Item::Err => {
                let i = self.input;
                self.log.lock().push(json!({"e": "ierr", "i": i + 1}));
                Poll::Ready(Some(Err(DataFusionError::Execution(format!("injected input error on input {}", self.input)))))
            }
        }
    }
}

impl RecordBatchStream for ScriptStream {
    fn schema(&self) -> SchemaRef {
        schema()
    }
}


// ------------------------------------------------------------------------------------------ schedule forcing (hook rendezvous)

static FORCE: parking_lot::Mutex<(bool, usize)> = parking_lot::Mutex::new((false, 0));
static FORCE_CV: parking_lot::Condvar = parking_lot::Condvar::new();

/// At `sp_w_p3` a writer of a spill pool holds the file it is about to append to.  The first writer to
/// get there waits (bounded) for a second one, so that two writers of the shared pool hold two distinct
/// files - an interleaving that needs real parallelism inside `push_batch` and is rare otherwise.
fn force_hook(site: &'static str, _args: &[i64]) -> i64 {
    if site == "sp_w_p3" {
        let mut g = FORCE.lock();
        if g.0 {
            g.1 += 1;
            FORCE_CV.notify_all();
            if g.1 == 1 {
                let t0 = std::time::Instant::now();
                while g.1 < 2 && t0.elapsed().as_millis() < 300 {
                    FORCE_CV.wait_for(&mut g, std::time::Duration::from_millis(50));
                }
            }
        }
    }
    0
}

// ------------------------------------------------------------------------------------------ running RepartitionExec

#[derive(Debug, Default)]
pub struct Outcome {
    /// per output: rows received in order, final status: eos | err | dropped | never | resource
    out: Vec<Vec<Row>>,
    status: Vec<String>,
    batches: Vec<usize>,
    reserved_after: usize,
    spilled: u64,
    hang: bool,
    violation: Option<String>,
    skipped: Option<String>,
    events: Vec<Value>,
}

fn root_is_resources(e: &DataFusionError) -> bool {
    let s = e.to_string();
    matches!(e.find_root(), DataFusionError::ResourcesExhausted(_)) || s.contains("Resources exhausted") || s.contains("ResourcesExhausted")
}

pub fn run_case(c: &Case) -> Outcome {
    run_case_idle(c, 20)
}

pub fn run_case_idle(c: &Case, idle_ticks: u32) -> Outcome {
    let mut o = Outcome::default();
    let t_begin = std::time::Instant::now();
    let log = Arc::new(parking_lot::Mutex::new(Vec::<Value>::new()));
    let rt = if c.threads <= 1 {
        tokio::runtime::Builder::new_current_thread().enable_all().build().unwrap()
    } else {
        tokio::runtime::Builder::new_multi_thread().worker_threads(c.threads).enable_all().build().unwrap()
    };
    let mut rb = RuntimeEnvBuilder::default();
    if let Some(m) = c.mem {
        rb = rb.with_memory_limit(m, 1.0);
    }
    let env = rb.build_arc().unwrap();
    let mut cfg = SessionConfig::new().with_batch_size(c.batch_size);
    if let Some(m) = c.max_spill_file {
        cfg.options_mut().execution.max_spill_file_size_bytes = datafusion_common::config::ConfigNonZeroUsize::try_new(m.max(1)).unwrap();
    }
    let ctx = Arc::new(TaskContext::default().with_session_config(cfg).with_runtime(Arc::clone(&env)));
    let progress = Arc::new(AtomicU64::new(0));
    let drops_done = Arc::new(AtomicU64::new(0));
    let input: Arc<dyn ExecutionPlan> = Arc::new(ScriptExec::new(c, Arc::clone(&log), Arc::clone(&progress), Arc::clone(&drops_done)));
    let part = match partitioning(c) {
        Ok(p) => p,
        Err(e) => {
            // the generated split points are strictly increasing under the ordering: a rejection is a defect
            o.violation = Some(format!("a valid partitioning specification was rejected: {e}"));
            return o;
        }
    };
    let exec = match RepartitionExec::try_new(input, part) {
        Ok(e) => if c.preserve_order { e.with_preserve_order() } else { e },
        Err(e) => {
            o.skipped = Some(format!("try_new: {e}"));
            return o;
        }
    };
    if c.preserve_order != exec.preserve_order() {
        // single input partition: documented no-op
        if c.inputs.len() > 1 {
            o.violation = Some("with_preserve_order() did not enable order preservation on a sorted multi-partition input".into());
            return o;
        }
    }
    let nout = exec.partitioning().partition_count();
    if nout != c.nout {
        o.violation = Some(format!("partition_count {nout} != requested {}", c.nout));
        return o;
    }
    let exec = Arc::new(exec);
    o.out = vec![vec![]; nout];
    o.status = vec!["never".into(); nout];
    o.batches = vec![0; nout];
    let results: Arc<parking_lot::Mutex<Vec<(usize, Vec<Row>, String, usize)>>> = Arc::new(parking_lot::Mutex::new(vec![]));
    if c.force_two_files {
        *FORCE.lock() = (true, 0);
        datafusion_common::verif::set_hook(Some(Arc::new(force_hook)));
    }
    let fuzz = c.yield_seed;
    let t_setup = t_begin.elapsed();
    let hang = rt.block_on(async {
        let mut handles = vec![];
        // streams are created in a seeded order (the first poll of any of them starts the input tasks)
        let mut order: Vec<usize> = (0..nout).collect();
        let mut x = fuzz | 1;
        for i in (1..order.len()).rev() {
            let j = (xorshift(&mut x) % (i as u64 + 1)) as usize;
            order.swap(i, j);
        }
        for p in order {
            let d = c.drops[p];
            if d == -1 {
                continue;
            }
            let exec = Arc::clone(&exec);
            let ctx = Arc::clone(&ctx);
            let results = Arc::clone(&results);
            let log = Arc::clone(&log);
            let progress = Arc::clone(&progress);
            let drops_done = Arc::clone(&drops_done);
            let sleeps = c.threads > 1;
            let mut rng = fuzz.wrapping_mul(31).wrapping_add(p as u64 + 7) | 1;
            handles.push(tokio::spawn(async move {
                let mut rows = vec![];
                let mut nb = 0usize;
                let mut status = "dropped".to_string();
                match exec.execute(p, ctx) {
                    Err(e) => status = format!("err:{e}"),
                    Ok(mut s) => loop {
                        if d == -3 {
                            // poll once (this starts the input tasks and moves the receiver into the
                            // stream), then drop the stream whatever the poll returned
                            let _ = futures::poll!(s.next());
                            log.lock().push(json!({"e": "drop", "o": p + 1}));
                            break;
                        }
                        if d >= 0 && nb as i64 >= d {
                            log.lock().push(json!({"e": "drop", "o": p + 1}));
                            break;
                        }
                        if fuzz != 0 {
                            match xorshift(&mut rng) % 6 {
                                0 => tokio::task::yield_now().await,
                                1 if sleeps => tokio::time::sleep(std::time::Duration::from_micros(xorshift(&mut rng) % 400)).await,
                                _ => {}
                            }
                        }
                        match s.next().await {
                            Some(Ok(b)) => {
                                nb += 1;
                                progress.fetch_add(1, AO::Relaxed);
                                let rs = from_batch(&b);
                                log.lock().push(json!({"e": "out", "o": p + 1, "ids": rs.iter().map(|r| r.id).collect::<Vec<_>>()}));
                                rows.extend(rs);
                            }
                            Some(Err(e)) => {
                                status = if root_is_resources(&e) { "resource".into() } else { format!("err:{e}") };
                                log.lock().push(json!({"e": if status == "resource" { "ores" } else { "oerr" }, "o": p + 1}));
                                break;
                            }
                            None => {
                                status = "eos".into();
                                log.lock().push(json!({"e": "eos", "o": p + 1}));
                                break;
                            }
                        }
                    },
                }
                if status == "dropped" {
                    drops_done.fetch_add(1, AO::SeqCst); // the stream (and its receiver) is gone by now
                }
                results.lock().push((p, rows, status, nb));
            }));
        }
        // progress-based watchdog: a hang is declared only after 40 s without any batch moving
        let all = futures::future::join_all(handles);
        tokio::pin!(all);
        let mut last = progress.load(AO::Relaxed);
        let mut idle = 0;
        let idle_limit: u32 = std::env::var("C10_IDLE").ok().and_then(|s| s.parse().ok()).unwrap_or(idle_ticks);
        loop {
            tokio::select! {
                _ = &mut all => return false,
                _ = tokio::time::sleep(std::time::Duration::from_secs(2)) => {
                    let now = progress.load(AO::Relaxed);
                    if now == last { idle += 1; } else { idle = 0; last = now; }
                    if idle >= idle_limit { return true; }
                }
            }
        }
    });
    o.hang = hang;
    if c.force_two_files {
        *FORCE.lock() = (false, 0);
        datafusion_common::verif::set_hook(None);
    }
    let t_run = std::time::Instant::now();
    for (p, rows, status, nb) in results.lock().drain(..) {
        o.out[p] = rows;
        o.status[p] = status;
        o.batches[p] = nb;
    }
    o.spilled = exec.metrics().and_then(|m| m.spill_count()).unwrap_or(0) as u64;
    drop(exec);
    drop(ctx);
    // all streams are dropped; background tasks are aborted asynchronously.  Normally the pool is
    // empty at once; the verdict is taken only after the runtime itself has shut down (every task
    // future dropped), so it does not depend on timing.
    let t0 = std::time::Instant::now();
    while env.memory_pool.reserved() != 0 && t0.elapsed().as_secs() < 5 && !hang {
        std::thread::sleep(std::time::Duration::from_millis(1));
    }
    rt.shutdown_timeout(std::time::Duration::from_secs(if hang { 1 } else { 120 }));
    o.reserved_after = env.memory_pool.reserved();
    o.events = std::mem::take(&mut *log.lock());
    if std::env::var("C10_TIMING").is_ok() {
        eprintln!("timing: setup {:?} total {:?} after-run {:?} reserved_wait_end {:?}", t_setup, t_begin.elapsed(), t_run.elapsed(), t0.elapsed());
    }
    o
}

/// Expected output partition of every row (None for rows behind an input error: never pulled).
fn expected(c: &Case) -> (HashMap<i64, usize>, HashMap<i64, (usize, usize)>, Vec<Value>) {
    let mut exp = HashMap::new();
    let mut origin = HashMap::new(); // id -> (input, seq in input)
    let mut route_ev = vec![];
    let nin = c.inputs.len();
    for (i, part) in c.inputs.iter().enumerate() {
        let mut k = 0usize; // non-empty batches seen by the partitioner
        let mut seq = 0usize;
        let start = if c.preserve_order && nin > 1 { 0 } else { (i * c.nout) / nin };
        for it in part {
            let Item::Batch(rows) = it else { break };
            if rows.is_empty() {
                continue;
            }
            let hashes = if c.scheme == "hash" { hash_of(&c.keys, rows) } else { vec![] };
            for (j, r) in rows.iter().enumerate() {
                let p = match c.scheme.as_str() {
                    "hash" => (hashes[j] % c.nout as u64) as usize,
                    "rr" => (start + k) % c.nout,
                    _ => range_part(c, r),
                };
                exp.insert(r.id, p);
                origin.insert(r.id, (i, seq));
                seq += 1;
                let key: Vec<Option<i64>> = c.keys.iter().map(|kk| key_i64(r, kk)).collect();
                route_ev.push(json!({"id": r.id, "i": i + 1, "bk": k, "h": if c.scheme == "hash" { limbs(hashes[j]) } else { json!([0,0,0,0]) }, "key": key, "s": r.s}));
            }
            k += 1;
        }
    }
    (exp, origin, route_ev)
}

fn judge(c: &Case, o: &Outcome) -> Option<String> {
    if let Some(v) = &o.violation {
        return Some(v.clone());
    }
    if o.skipped.is_some() {
        return None;
    }
    if o.hang {
        return Some(format!("hang: no batch moved for 10-40 s while outputs {:?} were still being read, and the same configuration hung again when re-run", (0..c.nout).filter(|&p| o.status[p] == "never" && c.drops[p] != -1).collect::<Vec<_>>()));
    }
    let (mut exp, origin, route) = expected(c);
    if c.scheme == "rr" {
        // the property does not fix the starting output of an input: take it from the first delivered row
        let delivered: HashMap<i64, usize> = o.out.iter().enumerate().flat_map(|(p, rs)| rs.iter().map(move |r| (r.id, p))).collect();
        for i in 0..c.inputs.len() {
            let doc_start = if c.preserve_order && c.inputs.len() > 1 { 0 } else { (i * c.nout) / c.inputs.len() };
            let obs = route.iter().filter(|r| r["i"].as_u64() == Some(i as u64 + 1)).find_map(|r| {
                delivered.get(&r["id"].as_i64().unwrap()).map(|p| (p + c.nout - (r["bk"].as_u64().unwrap() as usize % c.nout)) % c.nout)
            });
            if let Some(st) = obs {
                if st != doc_start {
                    for r in route.iter().filter(|r| r["i"].as_u64() == Some(i as u64 + 1)) {
                        exp.insert(r["id"].as_i64().unwrap(), (st + r["bk"].as_u64().unwrap() as usize) % c.nout);
                    }
                }
            }
        }
    }
    let has_err = c.inputs.iter().any(|p| p.iter().any(|it| matches!(it, Item::Err)));
    let resource = o.status.iter().any(|s| s == "resource");
    let mut seen: HashSet<i64> = HashSet::new();
    for p in 0..c.nout {
        for r in &o.out[p] {
            let Some(&e) = exp.get(&r.id) else { return Some(format!("output {p} delivered row id {} that no input produced", r.id)) };
            if e != p {
                return Some(format!("row id {} (keys {:?}/{:?}/{:?}) delivered to output {p}, the {} rule selects output {e}", r.id, r.k1, r.k2, r.k3, c.scheme));
            }
            if !seen.insert(r.id) {
                return Some(format!("row id {} delivered twice", r.id));
            }
            // content intact
            let (i, _) = origin[&r.id];
            let src = c.inputs[i].iter().filter_map(|it| if let Item::Batch(rs) = it { rs.iter().find(|x| x.id == r.id) } else { None }).next().unwrap();
            if src != r {
                return Some(format!("row id {} changed content: sent {:?}, received {:?}", r.id, src, r));
            }
        }
        match o.status[p].as_str() {
            "eos" => {
                // a clean end of stream means every row routed here was delivered
                let missing: Vec<i64> = exp.iter().filter(|(id, e)| **e == p && !o.out[p].iter().any(|r| r.id == **id)).map(|(id, _)| *id).collect();
                if !missing.is_empty() && !has_err {
                    let mut m = missing.clone();
                    m.sort();
                    return Some(format!("output {p} ended cleanly but rows {m:?} routed to it were never delivered"));
                }
                if has_err {
                    return Some(format!("output {p} ended cleanly although an input failed (rows after the error silently missing)"));
                }
            }
            "dropped" | "never" | "resource" => {}
            s => {
                if !has_err && !resource {
                    return Some(format!("output {p} failed without any injected fault: {s}"));
                }
            }
        }
        if c.preserve_order && c.inputs.len() > 1 {
            // sortedness preserved, and per input FIFO
            for w in o.out[p].windows(2) {
                if w[0].s > w[1].s {
                    return Some(format!("preserve_order: output {p} not sorted on s: row {} (s={}) before row {} (s={})", w[0].id, w[0].s, w[1].id, w[1].s));
                }
            }
            let mut last: HashMap<usize, usize> = HashMap::new();
            for r in &o.out[p] {
                let (i, seq) = origin[&r.id];
                if let Some(&l) = last.get(&i) {
                    if seq < l {
                        return Some(format!("preserve_order: output {p} received row {} of input {i} after a later row of the same input", r.id));
                    }
                }
                last.insert(i, seq);
            }
        }
    }
    if o.reserved_after != 0 {
        return Some(format!("memory pool still has {} bytes reserved after every output stream ended or was dropped", o.reserved_after));
    }
    None
}

// ------------------------------------------------------------------------------------------ random cases

fn gen_case(rng: &mut StdRng, n: usize, seed: u64) -> Case {
    let nin = rng.random_range(1..=4usize);
    let nout = rng.random_range(1..=8usize);
    let scheme = ["hash", "hash", "rr", "range"][rng.random_range(0..4)].to_string();
    let preserve_order = rng.random_bool(0.35);
    let keyset = [vec!["k1"], vec!["k2"], vec!["k3"], vec!["k1", "k2"], vec!["k2", "k3"], vec!["k1", "k2", "k3"], vec!["k3", "k1"]];
    let (keys, splits, desc, nulls_first, nout) = match scheme.as_str() {
        "hash" => (keyset[rng.random_range(0..keyset.len())].iter().map(|s| s.to_string()).collect(), vec![], vec![], vec![], nout),
        "range" => {
            let keys: Vec<String> = [vec!["k1"], vec!["k1", "k3"], vec!["k2"], vec!["k2", "k1"]][rng.random_range(0..4)].iter().map(|s| s.to_string()).collect();
            let desc: Vec<bool> = keys.iter().map(|_| rng.random_bool(0.4)).collect();
            let nf: Vec<bool> = keys.iter().map(|_| rng.random_bool(0.5)).collect();
            let mut sps: Vec<Vec<Option<i64>>> = (0..nout - 1).map(|_| keys.iter().map(|k| if rng.random_bool(0.15) { None } else { Some(rng.random_range(0..(if k == "k2" { 5i64 } else { 6i64 }))) }).collect()).collect();
            sps.sort_by(|a, b| cmp_rows(a, b, &desc, &nf));
            sps.dedup();
            let n2 = sps.len() + 1;
            (keys, sps, desc, nf, n2)
        }
        _ => (vec![], vec![], vec![], vec![], nout),
    };
    let mut inputs = vec![];
    let inject_err = rng.random_bool(0.12);
    let err_in = rng.random_range(0..nin);
    for i in 0..nin {
        let nb = rng.random_range(0..=5usize);
        let mut part = vec![];
        let mut s = rng.random_range(0..3i64);
        let mut seq = 0i64;
        let err_at = rng.random_range(0..=nb);
        for b in 0..nb {
            if inject_err && i == err_in && b == err_at {
                part.push(Item::Err);
                break;
            }
            let nr = if rng.random_bool(0.1) { 0 } else { rng.random_range(1..=6usize) };
            let rows = (0..nr)
                .map(|_| {
                    s += rng.random_range(0..3i64);
                    seq += 1;
                    Row {
                        id: (i as i64 + 1) * 1000 + seq,
                        k1: if rng.random_bool(0.15) { None } else { Some(rng.random_range(0..6)) },
                        k2: if rng.random_bool(0.15) { None } else { Some(["", "a", "b", "ab", "c"][rng.random_range(0..5)].to_string()) },
                        k3: if rng.random_bool(0.15) { None } else { Some(rng.random_range(-2..4)) },
                        s,
                    }
                })
                .collect();
            part.push(Item::Batch(rows));
        }
        if inject_err && i == err_in && err_at == nb {
            part.push(Item::Err);
        }
        inputs.push(part);
    }
    let drops: Vec<i64> = {
        let pattern = rng.random_range(0..4);
        (0..nout).map(|_| match pattern { 0 | 1 => -2, 2 => if rng.random_bool(0.35) { rng.random_range(0..3) } else { -2 }, _ => if rng.random_bool(0.3) { -1 } else if rng.random_bool(0.3) { rng.random_range(0..2) } else if rng.random_bool(0.3) { -3 } else { -2 } }).collect()
    };
    Case {
        scheme, nout, keys, splits, desc, nulls_first, preserve_order,
        unbounded: rng.random_bool(0.15),
        inputs,
        batch_size: [1, 2, 3, 8, 8192][rng.random_range(0..5)],
        mem: [None, None, Some(1), Some(400), Some(1500), Some(6000)][rng.random_range(0..6)],
        max_spill_file: [None, Some(1), Some(2000)][rng.random_range(0..3)],
        drops,
        threads: rng.random_range(1..=4),
        yield_seed: if rng.random_bool(0.8) { rng.random::<u64>() | 1 } else { 0 },
        force_two_files: false,
        err_after_drops: false,
        family: "random".into(),
        origin: format!("random seed={seed} n={n}"),
    }
}


/// Run a case; a suspected hang (no batch moved for 40 s) becomes a verdict only when the same
/// configuration hangs again (up to 4 more runs, 20 s without progress each).
fn run_and_confirm(c: &Case) -> (Outcome, Option<String>) {
    let mut o = run_case_idle(c, if c.force_two_files { 5 } else { 20 });
    let mut v = judge(c, &o);
    if o.hang {
        let mut again = 0;
        for k in 0..4u64 {
            let mut c2 = c.clone();
            c2.yield_seed = c.yield_seed.wrapping_add(k * 7919) | 1;
            if run_case_idle(&c2, 5).hang {
                again += 1;
                break;
            }
        }
        if again == 0 {
            v = None;
            o.skipped = Some("suspected hang not reproduced".into());
        }
    }
    (o, v)
}

/// Signature of the known defect: the shared (multi-writer) spill pool of the non-order-preserving
/// mode under a memory limit with at least two input tasks.
fn known_key(c: &Case, o: &Outcome) -> Option<&'static str> {
    let po = c.preserve_order && c.inputs.len() > 1;
    if o.hang && !po && c.inputs.len() >= 2 && c.mem.is_some() { Some("hang: shared multi-writer spill pool x gate (non-preserve-order, >=2 inputs, memory limit)") } else { None }
}

/// Scenario family aimed at the spill-pool x gate interplay: 2-3 inputs, 1-2 outputs, small batches, a
/// memory budget of a few batches, two writers forced to hold distinct spill files once.
fn gen_forced(rng: &mut StdRng, n: usize, seed: u64) -> Case {
    let nin = rng.random_range(2..=3usize);
    let nout = rng.random_range(1..=2usize);
    let mut inputs = vec![];
    for i in 0..nin {
        let nb = rng.random_range(3..=6usize);
        let mut s = 0i64;
        let mut seq = 0i64;
        let part = (0..nb)
            .map(|_| {
                Item::Batch(
                    (0..rng.random_range(1..=4usize))
                        .map(|_| {
                            s += rng.random_range(0..3i64);
                            seq += 1;
                            Row { id: (i as i64 + 1) * 1000 + seq, k1: Some(rng.random_range(0..6)), k2: Some(["a", "b", "c"][rng.random_range(0..3)].to_string()), k3: Some(rng.random_range(0..4)), s }
                        })
                        .collect(),
                )
            })
            .collect();
        inputs.push(part);
    }
    let scheme = if rng.random_bool(0.5) { "rr" } else { "hash" }.to_string();
    Case {
        keys: if scheme == "hash" { vec!["k1".into()] } else { vec![] },
        scheme, nout, splits: vec![], desc: vec![], nulls_first: vec![], preserve_order: false,
        unbounded: rng.random_bool(0.3),
        inputs,
        batch_size: [1, 1, 2][rng.random_range(0..3)],
        mem: Some([700, 1000, 1500, 2200][rng.random_range(0..4)]),
        max_spill_file: None,
        drops: vec![-2; nout],
        threads: rng.random_range(2..=4),
        yield_seed: rng.random::<u64>() | 1,
        force_two_files: true,
        err_after_drops: false,
        family: "forced".into(),
        origin: format!("forced seed={seed} n={n}"),
    }
}


/// The combined "early drop, then input failure" scenarios enumerated by spec/proto/RepartDropErr.tla:
/// outputs in `drops` are polled once and dropped, the failure of input `err_in` (at its first / middle /
/// last position) is delivered only after those drops, the other outputs are read to the end.  Three
/// inputs of different lengths (the second one ends early) so that end markers, the error and channel
/// closure meet in every order at the live outputs.
fn droperr_case(v: &Value, rep: usize, seed: u64) -> Case {
    let nout = v["nout"].as_u64().unwrap() as usize;
    let dropset: Vec<usize> = v["drop"].as_array().unwrap().iter().map(|x| x.as_u64().unwrap() as usize).collect();
    let never: Vec<usize> = v["never"].as_array().map(|a| a.iter().map(|x| x.as_u64().unwrap() as usize).collect()).unwrap_or_default();
    let scheme = v["scheme"].as_str().unwrap().to_string();
    let po = v["po"].as_bool().unwrap();
    let spill = v["spill"].as_bool().unwrap();
    let err_in = v["err_in"].as_u64().unwrap() as usize - 1;
    let err_pos = v["err_pos"].as_str().unwrap();
    let rep = rep + v["id"].as_u64().unwrap_or(0) as usize; // variant selector: differs from case to case
    let mut rng = StdRng::seed_from_u64(seed ^ (rep as u64 * 0x9E37) ^ 0xD0E);
    let lens = [4usize, 1, 3];
    let mut inputs = vec![];
    for (i, &nb) in lens.iter().enumerate() {
        let (mut s, mut seq) = (0i64, 0i64);
        let mut part: Vec<Item> = (0..nb)
            .map(|_| {
                Item::Batch((0..rng.random_range(1..=3usize)).map(|_| {
                    s += rng.random_range(0..3i64);
                    seq += 1;
                    Row { id: (i as i64 + 1) * 1000 + seq, k1: if rng.random_bool(0.15) { None } else { Some(rng.random_range(0..6)) },
                          k2: if rng.random_bool(0.15) { None } else { Some(STRS[rng.random_range(0..5)].to_string()) }, k3: Some(rng.random_range(0..4)), s }
                }).collect())
            })
            .collect();
        if i == err_in {
            let at = match err_pos { "first" => 0, "mid" => nb / 2, _ => nb };
            part.truncate(at);
            part.push(Item::Err);
        }
        inputs.push(part);
    }
    let (keys, splits, desc, nf): (Vec<String>, Vec<Vec<Option<i64>>>, Vec<bool>, Vec<bool>) = match scheme.as_str() {
        "hash" => (vec!["k1".into(), "k2".into()], vec![], vec![], vec![]),
        "range" => {
            let mut sp: Vec<Vec<Option<i64>>> = vec![vec![Some(1)], vec![Some(3)], vec![Some(4)], vec![Some(5)]];
            sp.truncate(nout - 1);
            (vec!["k1".into()], sp, vec![false], vec![false])
        }
        _ => (vec![], vec![], vec![], vec![]),
    };
    Case {
        scheme, nout, keys, splits, desc, nulls_first: nf, preserve_order: po, unbounded: false, inputs,
        batch_size: if rep % 2 == 0 { 1 } else { 8192 },
        mem: if spill { Some(if po { 3000 } else { 1 }) } else { None },
        max_spill_file: if rep % 3 == 0 { Some(1) } else { None },
        drops: (1..=nout).map(|o| if dropset.contains(&o) { -3 } else if never.contains(&o) { -1 } else { -2 }).collect(),
        threads: 1 + rep % 4,
        yield_seed: if rep % 5 == 4 { 0 } else { rng.random::<u64>() | 1 },
        force_two_files: false,
        err_after_drops: true,
        family: "droperr".into(),
        origin: format!("RepartDropErr case {} rep {rep} seed {seed}", v["id"]),
    }
}

/// which code paths / configurations a run exercised (measured; the driver guards against zeros)
fn paths_of(c: &Case, o: &Outcome, paths: &mut BTreeMap<String, usize>) {
    let mut hit = |k: &str| *paths.entry(k.to_string()).or_default() += 1;
    let nin = c.inputs.len();
    let po = c.preserve_order && nin > 1;
    let has_err = c.inputs.iter().any(|p| p.iter().any(|it| matches!(it, Item::Err)));
    let total_rows: usize = c.inputs.iter().flatten().map(|it| if let Item::Batch(r) = it { r.len() } else { 0 }).sum();
    hit(&format!("scheme_{}", c.scheme));
    hit(&format!("family_{}", c.family));
    if c.scheme == "hash" { hit(&format!("hash_{}_keys", c.keys.len())); }
    if c.scheme == "range" {
        if c.splits.is_empty() { hit("range_no_split_points"); }
        if c.splits.iter().flatten().any(|x| x.is_none()) { hit("range_null_split_value"); }
        if c.desc.iter().any(|x| *x) { hit("range_desc"); }
        if c.nulls_first.iter().any(|x| *x) { hit("range_nulls_first"); }
        if c.keys.iter().any(|k| k == "k2") { hit("range_string_key"); }
        if c.keys.len() > 1 { hit("range_compound_key"); }
        if c.inputs.iter().flatten().any(|it| if let Item::Batch(r) = it { r.iter().any(|x| key_i64(x, &c.keys[0]).is_none()) } else { false }) { hit("range_null_key_rows"); }
    }
    if po { hit("preserve_order"); } else { hit("not_preserve_order"); }
    if po && c.inputs.iter().any(|p| p.iter().all(|it| matches!(it, Item::Batch(r) if r.is_empty()))) { hit("preserve_order_with_exhausted_input"); }
    if po && o.spilled > 0 { hit("preserve_order_spilled"); }
    if !po && o.spilled > 0 { hit("shared_pool_spilled"); }
    if c.max_spill_file == Some(1) && o.spilled > 0 { hit("spill_file_rotation_every_batch"); }
    if c.unbounded { hit("unbounded_no_coalescer"); }
    if !po && !c.unbounded && c.batch_size > total_rows && total_rows > 0 { hit("coalescer_all_rows_residual"); }
    if !po && !c.unbounded && c.batch_size == 1 { hit("coalescer_batch_size_1"); }
    if !po && !c.unbounded && c.batch_size > 1 && c.batch_size <= 8 { hit("coalescer_small_target"); }
    if c.inputs.iter().flatten().any(|it| matches!(it, Item::Batch(r) if r.is_empty())) { hit("empty_input_batches"); }
    if c.inputs.iter().any(|p| p.is_empty()) { hit("input_without_batches"); }
    if nin == 1 { hit("single_input"); }
    if c.nout == 1 { hit("single_output"); }
    if c.drops.iter().any(|d| *d >= 0) { hit("drop_after_k_batches"); }
    if c.drops.iter().any(|d| *d == -3) { hit("drop_after_first_poll"); }
    if c.drops.iter().any(|d| *d == -1) { hit("output_never_executed"); }
    if has_err {
        hit("input_error");
        if c.drops.iter().any(|d| *d == -3 || *d >= 0) && c.drops.iter().any(|d| *d == -2) { hit("input_error_with_dropped_and_live_outputs"); }
        if c.inputs.iter().any(|p| !p.iter().any(|it| matches!(it, Item::Err)) && p.len() <= 1) { hit("input_error_while_other_input_already_ended"); }
        if c.inputs.iter().any(|p| matches!(p.first(), Some(Item::Err))) { hit("input_error_before_first_batch"); }
        if !po && !c.unbounded && c.batch_size > total_rows { hit("input_error_with_rows_in_coalescer"); }
        if po { hit("input_error_preserve_order"); }
        if o.spilled > 0 { hit("input_error_with_spilled_batches"); }
    }
    if o.status.iter().any(|s| s == "resource") { hit("resources_exhausted_output"); }
    if c.threads <= 1 { hit("current_thread_runtime"); } else { hit("multi_thread_runtime"); }
}

// ------------------------------------------------------------------------------------------ partitioner cases (B3)

/// A TLC-enumerated case: key column k1 (values / null), scheme, n, (range) split points + options,
/// (rr) input index / input count / number of batches; `expect` = partition of every row (1-based).
fn run_part_case(v: &Value) -> (Option<String>, Value) {
    let colv: Vec<Option<i32>> = v["col"].as_array().unwrap().iter().map(|x| x.as_i64().map(|y| y as i32)).collect();
    let n = v["n"].as_u64().unwrap() as usize;
    let scheme = v["scheme"].as_str().unwrap();
    let expect: Vec<usize> = v["expect"].as_array().unwrap().iter().map(|x| x.as_u64().unwrap() as usize - 1).collect();
    let kc = v["kc"].as_str().unwrap_or("k1");
    let rows: Vec<Row> = colv
        .iter()
        .enumerate()
        .map(|(i, k)| if kc == "k2" { Row { id: i as i64, k1: None, k2: k.map(|x| STRS[x as usize].to_string()), k3: None, s: 0 } } else { Row { id: i as i64, k1: *k, k2: None, k3: None, s: 0 } })
        .collect();
    let c = Case {
        scheme: if scheme == "range_bad" { "range".to_string() } else { scheme.to_string() }, nout: n, keys: vec![kc.to_string()],
        splits: v["splits"].as_array().map(|a| a.iter().map(|x| vec![x.as_i64()]).collect()).unwrap_or_default(),
        desc: vec![v["desc"].as_bool().unwrap_or(false)], nulls_first: vec![v["nf"].as_bool().unwrap_or(false)],
        preserve_order: false, unbounded: false, inputs: vec![], batch_size: 8192, mem: None, max_spill_file: None, drops: vec![], threads: 1, yield_seed: 0, force_two_files: false, err_after_drops: false, family: "part".into(), origin: "tlc".into(),
    };
    if scheme == "range_bad" {
        return match partitioning(&c) {
            Ok(_) => (Some("split points that are not strictly increasing under the ordering were accepted by RangePartitioning::try_new".into()), json!(null)),
            Err(_) => (None, json!({"rejected": true})),
        };
    }
    let part = match partitioning(&c) {
        Ok(p) => p,
        Err(e) => return (Some(format!("partitioning rejected a valid specification case: {e}")), json!(null)),
    };
    let metrics = ExecutionPlanMetricsSet::new();
    let timer = || MetricBuilder::new(&metrics).subset_time("t", 0);
    let (rr_in, rr_nin, rr_batches) = (v["rr_in"].as_u64().unwrap_or(0) as usize, v["rr_nin"].as_u64().unwrap_or(1) as usize, v["rr_batches"].as_u64().unwrap_or(1) as usize);
    let mut observed = json!({});
    for mode in ["partition", "partition_iter"] {
        let mut bp = match BatchPartitioner::try_new(part.clone(), timer(), rr_in, rr_nin) {
            Ok(b) => b,
            Err(e) => return (Some(format!("BatchPartitioner::try_new failed: {e}")), json!(null)),
        };
        // round robin routes whole batches: the column is split into rr_batches single-row batches
        let batches: Vec<Vec<Row>> = if scheme == "rr" { rows.iter().take(rr_batches).map(|r| vec![r.clone()]).collect() } else { vec![rows.clone()] };
        let mut got: BTreeMap<i64, usize> = BTreeMap::new();
        let mut dup = None;
        for b in &batches {
            let rb = to_batch(b);
            let mut sink = |p: usize, ob: RecordBatch| {
                for r in from_batch(&ob) {
                    if got.insert(r.id, p).is_some() {
                        dup = Some(r.id);
                    }
                    if rows[r.id as usize] != r {
                        dup = Some(-r.id - 1);
                    }
                }
            };
            let res: Result<()> = if mode == "partition" {
                bp.partition(rb, |p, ob| {
                    sink(p, ob);
                    Ok(())
                })
            } else {
                match bp.partition_iter(rb) {
                    Ok(it) => {
                        let mut r = Ok(());
                        for x in it {
                            match x {
                                Ok((p, ob)) => sink(p, ob),
                                Err(e) => {
                                    r = Err(e);
                                    break;
                                }
                            }
                        }
                        r
                    }
                    Err(e) => Err(e),
                }
            };
            if let Err(e) = res {
                return (Some(format!("{mode} failed on a valid case: {e}")), json!(null));
            }
        }
        if let Some(d) = dup {
            return (Some(format!("{mode}: row {d} emitted twice or with changed content")), json!(got));
        }
        let nrows = if scheme == "rr" { rr_batches.min(rows.len()) } else { rows.len() };
        for i in 0..nrows {
            match got.get(&(i as i64)) {
                None => return (Some(format!("{mode}: row {i} (key {:?}) was not emitted", colv[i])), json!(got)),
                Some(&p) if scheme == "rr" && (p + n - got[&0]) % n == (expect[i] + n - expect[0]) % n => {}
                Some(&p) if p != expect[i] => return (Some(format!("{mode}: row {i} (key {:?}) routed to partition {p}; the specification's {scheme} rule gives {}", colv[i], expect[i])), json!(got)),
                Some(&p) if p >= n => return (Some(format!("{mode}: partition index {p} out of range")), json!(got)),
                _ => {}
            }
        }
        if got.len() != nrows {
            return (Some(format!("{mode}: {} rows emitted for {nrows} input rows", got.len())), json!(got));
        }
        observed[mode] = json!(got.values().collect::<Vec<_>>());
    }
    if scheme == "range" {
        // the range-partition expression must agree with the partitioner
        if let Partitioning::Range(rp) = &part {
            let e = RangeExpr::try_new(vec![col(kc, &schema()).unwrap()], rp).and_then(|e| e.evaluate(&to_batch(&rows))).and_then(|cv| cv.into_array(rows.len()));
            match e {
                Ok(a) => {
                    let a = a.as_any().downcast_ref::<UInt64Array>().unwrap();
                    for i in 0..rows.len() {
                        if a.value(i) as usize != expect[i] {
                            return (Some(format!("RangeExpr::evaluate gives partition {} for key {:?}; specification gives {}", a.value(i), colv[i], expect[i])), observed);
                        }
                    }
                }
                Err(e) => return (Some(format!("RangeExpr failed: {e}")), observed),
            }
        }
    }
    (None, observed)
}

pub fn main() {
    let out_path = util::arg("--out").unwrap_or_else(|| "c10-result.json".into());
    let seed = util::seed();
    // ---- key-domain hashes for the specification (real create_hashes with the repartition seed)
    if let Some(p) = util::arg("--hashes") {
        let dom: Vec<Option<i32>> = vec![None, Some(0), Some(1), Some(2), Some(3), Some(4), Some(5)];
        let rows: Vec<Row> = dom.iter().enumerate().map(|(i, k)| Row { id: i as i64, k1: *k, k2: None, k3: None, s: 0 }).collect();
        let h = hash_of(&["k1".to_string()], &rows);
        std::fs::write(&p, serde_json::to_string(&json!({"domain": dom, "limbs": h.iter().map(|x| limbs(*x)).collect::<Vec<_>>()})).unwrap()).unwrap();
        util::summary(json!({"hashes": h.len()}));
        return;
    }
    let mut violations: Vec<Value> = vec![];
    let mut samples: Vec<Value> = vec![];
    let mut part_total = 0usize;
    let mut part_distinct = HashSet::new();
    let mut part_kinds = BTreeMap::<String, usize>::new();
    if let Some(p) = util::arg("--part-cases") {
        for v in util::read_ndjson(&p) {
            part_total += 1;
            let (viol, obs) = run_part_case(&v);
            part_distinct.insert(format!("{}|{}|{}|{}|{}|{}|{}", v["scheme"], v["kc"], v["n"], v["col"], v["splits"], v["desc"], v["nf"]));
            *part_kinds.entry(format!("{}_{}", v["scheme"].as_str().unwrap_or(""), v["kc"].as_str().unwrap_or(""))).or_default() += 1;
            if let Some(m) = viol {
                if violations.len() < 20 {
                    violations.push(json!({"kind": "partitioner", "case": v, "observed": obs, "oracle": m}));
                }
            } else if samples.len() < 2 && v["col"].as_array().map(|a| a.len()).unwrap_or(0) >= 3 {
                samples.push(json!({"kind": "partitioner", "case": v, "observed": obs}));
            }
        }
    }
    let mut cases: Vec<Case> = vec![];
    if let Some(p) = util::arg("--replay") {
        let v: Value = serde_json::from_str(&std::fs::read_to_string(&p).unwrap()).unwrap();
        if v["kind"] == "partitioner" {
            let (viol, obs) = run_part_case(&v["case"]);
            part_total += 1;
            if let Some(m) = viol {
                violations.push(json!({"kind": "partitioner", "case": v["case"], "observed": obs, "oracle": m}));
            }
        } else {
            let base = case_parse(&v["case"]);
            // --vary N: N schedule variants of the same case (development aid)
            let vary: u64 = util::arg("--vary").and_then(|s| s.parse().ok()).unwrap_or(0);
            for k in 0..vary {
                let mut c = base.clone();
                c.yield_seed = base.yield_seed.wrapping_add(k * 7919) | 1;
                c.threads = util::arg("--threads").and_then(|s| s.parse().ok()).unwrap_or(1 + (k as usize % 4));
                cases.push(c);
            }
            cases.push(base);
        }
    }
    let nrandom: usize = util::arg("--random").and_then(|s| s.parse().ok()).unwrap_or(0);
    let mut rng = StdRng::seed_from_u64(seed ^ 0xC10);
    for n in 0..nrandom {
        cases.push(gen_case(&mut rng, n, seed));
    }
    if let Some(p) = util::arg("--droperr-cases") {
        let reps: usize = util::arg("--droperr-reps").and_then(|s| s.parse().ok()).unwrap_or(1);
        for v in util::read_ndjson(&p) {
            for r in 0..reps {
                cases.push(droperr_case(&v, r, seed));
            }
        }
    }
    let nforced: usize = util::arg("--forced").and_then(|s| s.parse().ok()).unwrap_or(0);
    let first_forced = cases.len();
    for n in 0..nforced {
        cases.push(gen_forced(&mut rng, n, seed));
    }
    let mut traces: Vec<Value> = vec![];
    let (mut total, mut skipped, mut spilled_runs, mut rows_delivered, mut resource_runs, mut err_runs, mut drop_runs, mut po_runs) = (0usize, 0usize, 0usize, 0usize, 0usize, 0usize, 0usize, 0usize);
    let mut cfgs = HashSet::new();
    let mut skip_notes: Vec<Value> = vec![];
    let mut paths = BTreeMap::<String, usize>::new();
    let mut schemes = BTreeMap::<String, usize>::new();
    // cases are independent: run them on a few OS threads (each case has its own runtime and pool)
    let next = std::sync::atomic::AtomicUsize::new(0);
    let done: parking_lot::Mutex<Vec<Option<(Outcome, Option<String>)>>> = parking_lot::Mutex::new((0..cases.len()).map(|_| None).collect());
    let jobs: usize = util::arg("--jobs").and_then(|s| s.parse().ok()).unwrap_or(4);
    std::thread::scope(|sc| {
        for _ in 0..jobs {
            sc.spawn(|| loop {
                let k = next.fetch_add(1, AO::Relaxed);
                if k >= cases.len() {
                    break;
                }
                let c = &cases[k];
                if c.force_two_files {
                    continue; // process-wide hook: run sequentially below
                }
                let (o, v) = run_and_confirm(c);
                done.lock()[k] = Some((o, v));
            });
        }
    });
    let mut done = done.into_inner();
    let mut forced_hangs = 0usize;
    for k in 0..cases.len() {
        if cases[k].force_two_files {
            if forced_hangs > 0 && util::has_flag("--forced-stop") {
                // the finding is established; the remaining forced scenarios are skipped (counted)
                let mut o = Outcome::default();
                o.skipped = Some("forced scenario not run: a confirmed hang was already found".into());
                o.status = vec![];
                done[k] = Some((o, None));
                continue;
            }
            let r = run_and_confirm(&cases[k]);
            if r.0.hang && r.1.is_some() {
                forced_hangs += 1;
            }
            done[k] = Some(r);
        }
    }
    let _ = first_forced;
    for (k, c) in cases.iter().enumerate() {
        let (o, v) = done[k].take().unwrap();
        total += 1;
        if o.skipped.is_none() {
            paths_of(c, &o, &mut paths);
        }
        if let Some(sk) = &o.skipped {
            skipped += 1;
            if skip_notes.len() < 5 {
                skip_notes.push(json!({"why": sk, "case": case_json(c)}));
            }
        }
        if o.spilled > 0 {
            spilled_runs += 1;
        }
        if o.status.iter().any(|s| s == "resource") {
            resource_runs += 1;
        }
        if c.inputs.iter().any(|p| p.iter().any(|it| matches!(it, Item::Err))) {
            err_runs += 1;
        }
        if c.drops.iter().any(|d| *d != -2) {
            drop_runs += 1;
        }
        if c.preserve_order && c.inputs.len() > 1 {
            po_runs += 1;
        }
        rows_delivered += o.out.iter().map(|x| x.len()).sum::<usize>();
        *schemes.entry(c.scheme.clone()).or_default() += 1;
        cfgs.insert(format!("{}|{}|{:?}|{}|{}|{:?}|{}|{:?}", c.scheme, c.nout, c.keys, c.preserve_order, c.batch_size, c.mem, c.inputs.len(), c.drops));
        let obs = json!({"status": o.status, "rows": o.out.iter().map(|x| x.iter().map(|r| r.id).collect::<Vec<_>>()).collect::<Vec<_>>(),
                         "spill_count": o.spilled, "reserved_after": o.reserved_after, "skipped": o.skipped});
        if let Some(m) = v {
            if violations.len() < 20 {
                violations.push(json!({"kind": "exec", "case": case_json(c), "observed": obs, "oracle": m, "key": known_key(c, &o)}));
            }
        } else {
            if samples.len() < 4 && o.spilled > 0 && rows_delivered > 0 {
                samples.push(json!({"kind": "exec", "case": case_json(c), "observed": obs}));
            }
            if o.skipped.is_none() && !o.hang {
                let (_, _, route) = expected(c);
                let delivered: HashMap<i64, usize> = o.out.iter().enumerate().flat_map(|(p, rs)| rs.iter().map(move |r| (r.id, p))).collect();
                let rrstart: Vec<usize> = (0..c.inputs.len())
                    .map(|i| {
                        route.iter().filter(|r| r["i"].as_u64() == Some(i as u64 + 1)).find_map(|r| delivered.get(&r["id"].as_i64().unwrap()).map(|p| (p + c.nout - (r["bk"].as_u64().unwrap() as usize % c.nout)) % c.nout))
                            // nothing of this input was observed at an output: the documented start (as the harness oracle assumes)
                            .unwrap_or(if c.preserve_order && c.inputs.len() > 1 { 0 } else { (i * c.nout) / c.inputs.len() })
                    })
                    .collect();
                traces.push(json!({"scheme": c.scheme, "n": c.nout, "nin": c.inputs.len(), "rrstart": rrstart, "po": c.preserve_order && c.inputs.len() > 1,
                                   "splits": c.splits.iter().map(|sp| sp.iter().map(|x| json!({"nul": x.is_none(), "v": x.unwrap_or(0)})).collect::<Vec<_>>()).collect::<Vec<_>>(),
                                   "desc": c.desc, "nf": c.nulls_first,
                                   "rows": route.iter().map(|r| { let mut r = r.clone(); r["key"] = Value::Array(r["key"].as_array().unwrap().iter().map(|x| json!({"nul": x.is_null(), "v": x.as_i64().unwrap_or(0)})).collect()); r }).collect::<Vec<_>>(),
                                   "ev": o.events}));
            }
        }
    }
    let res = json!({
        "part_cases": part_total, "part_distinct": part_distinct.len(),
        "exec_runs": total, "exec_skipped": skipped, "exec_spilled_runs": spilled_runs, "exec_resource_exhausted_runs": resource_runs,
        "exec_input_error_runs": err_runs, "exec_early_drop_runs": drop_runs, "exec_preserve_order_runs": po_runs,
        "rows_delivered": rows_delivered, "distinct_configurations": cfgs.len(), "schemes": schemes,
        "paths": paths, "part_kinds": part_kinds, "forced_runs": nforced, "forced_confirmed_hangs": forced_hangs, "violations": violations, "samples": samples, "skip_notes": skip_notes,
    });
    std::fs::write(&out_path, serde_json::to_string(&res).unwrap()).unwrap();
    if let Some(p) = util::arg("--traces") {
        util::write_ndjson(&p, &traces);
    }
    util::summary(json!({"part_cases": part_total, "exec_runs": total, "violations": violations.len()}));
}
