//! Protocol drivers (B1 schedule replay, B2 trace recording) — DESIGN.md §7.2.
mod c10;
mod c15;
mod c16;

fn main() {
    let a: Vec<String> = std::env::args().collect();
    let cmd = a.get(1).map(|s| s.as_str()).unwrap_or("");
    match cmd {
        "c10" => c10::main(),
        "c15" => c15::main(),
        "c16" => c16::main(),
        _ => {
            eprintln!("usage: vproto <c16|...> [options]");
            std::process::exit(2);
        }
    }
}
