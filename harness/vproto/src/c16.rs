//! C16 — spill channels.  Replays TLC behaviours of spec/proto/SpillPool.tla (and seeded random
//! schedules) on the real `spsc_channel` / `mpsc_channel` under the controlled scheduler and
//! evaluates the property-level oracle on the real execution.

use arrow::array::{ArrayRef, Int32Array};
use arrow::datatypes::{DataType, Field, Schema, SchemaRef};
use arrow::record_batch::RecordBatch;
use datafusion_execution::runtime_env::RuntimeEnv;
use datafusion_physical_plan::metrics::{ExecutionPlanMetricsSet, SpillMetrics};
use datafusion_physical_plan::spill::SpillManager;
use datafusion_physical_plan::spill::spill_pool::{SpillPoolSink, mpsc_channel, spsc_channel};
use rand::rngs::StdRng;
use rand::{Rng, SeedableRng};
use serde_json::{Value, json};
use std::sync::Arc;
use vcommon::sched::{self, Sched, Status};
use vcommon::util;

const BLOCKING: &[&str] = &[
    "sp_w_p1", "sp_w_p2a", "sp_w_p2b", "sp_w_p3", "sp_w_p4", "sp_d_q1", "sp_d_q2", "sp_d_q3", "sp_r_b",
    "sp_r_f1", "sp_r_f1b", "sp_r_read", "sp_r_fin", "sp_r_fd", "sp_r_fpend",
];
const PENDING: &[&str] = &["sp_reg_pool", "sp_reg_file"];
const FAULT: &[&str] = &["dm_write_fault"];

fn schema() -> SchemaRef {
    Arc::new(Schema::new(vec![Field::new("a", DataType::Int32, false)]))
}

fn batch(w: i64, k: i64) -> RecordBatch {
    let a: ArrayRef = Arc::new(Int32Array::from(vec![(w * 1000 + k) as i32]));
    RecordBatch::try_new(schema(), vec![a]).unwrap()
}

#[derive(Clone, Debug)]
pub struct Case {
    pub w: usize,
    pub rot: usize,
    /// per writer: number of pushes it performs before it is dropped
    pub pushes: Vec<usize>,
    /// schedule: (process name, label); label decides fault injection
    pub steps: Vec<(String, String)>,
    pub origin: String,
}

#[derive(Debug, Default)]
pub struct Outcome {
    pub executed: Vec<(String, String)>,
    pub drift: usize,
    pub ok_pushed: Vec<i64>,
    pub attempted: Vec<i64>,
    pub failed: Vec<i64>,
    pub out: Vec<i64>,
    pub eos: bool,
    pub read_err: Option<String>,
    pub deadlock: Option<String>,
    pub panics: Vec<(String, String)>,
    pub tool_error: Option<String>,
    pub violation: Option<String>,
    /// one B2 trace event per executed step, with the API-level observations made during it
    pub events: Vec<Value>,
}

fn label_site(label: &str) -> String {
    match label {
        "r_resume" => "resume".to_string(),
        "w_p3_fail" | "w_p3_finfail" => "sp_w_p3".to_string(),
        l if l.starts_with("w_") || l.starts_with("d_") || l.starts_with("r_") => format!("sp_{l}"),
        l => l.to_string(),
    }
}

fn inject_for(label: &str) -> i64 {
    match label {
        "w_p3_fail" => 1,
        "w_p3_finfail" => 2,
        _ => 0,
    }
}

pub fn run_case(case: &Case, rt: &tokio::runtime::Runtime, rng: &mut Option<StdRng>, fault_p: f64) -> Outcome {
    let mut o = Outcome::default();
    let sch = Sched::new(BLOCKING, PENDING, FAULT, &["sp_r_read"], &["sp_r_fpend"]);
    sch.set_arm_sites(&["sp_w_rotate"]);
    let env = Arc::new(RuntimeEnv::default());
    let metrics = SpillMetrics::new(&ExecutionPlanMetricsSet::new(), 0);
    let sm = Arc::new(SpillManager::new(Arc::clone(&env), metrics, schema()));
    let s = batch(1, 1).get_array_memory_size();
    let max = case.rot * s - 1;

    let mut sinks: Vec<SpillPoolSink> = vec![];
    let reader;
    if case.w == 1 {
        let (sink, r) = spsc_channel(max, sm);
        sinks.push(sink);
        reader = r;
    } else {
        let (writer, r) = mpsc_channel(max, sm);
        for _ in 0..case.w {
            sinks.push(writer.new_sink());
        }
        // the original SpillPoolWriter handle is dropped before scheduling starts; the sinks
        // created from it keep remaining_writer_count = W
        let f = sch.spawn("setup", move |_ctx| drop(writer));
        while sch.status(f) != Status::Finished {
            if let Err(e) = sch.step(f, 0) {
                o.tool_error = Some(e);
                return o;
            }
        }
        reader = r;
    }
    let mut idx = std::collections::HashMap::new();
    for (wi, sink) in sinks.into_iter().enumerate() {
        let w = (wi + 1) as i64;
        let n = case.pushes[wi] as i64;
        let name = format!("w{w}");
        let i = sch.spawn(&name, move |ctx| {
            for k in 1..=n {
                ctx.note("push_begin", &[w, k]);
                match sink.push_batch(&batch(w, k)) {
                    Ok(()) => ctx.note("push_ok", &[w, k]),
                    Err(_) => ctx.note("push_err", &[w, k]),
                }
            }
            drop(sink);
            ctx.note("dropped", &[w]);
        });
        idx.insert(name, i);
    }
    let handle = rt.handle().clone();
    let mut reader = reader;
    let ri = sch.spawn("r0", move |ctx| {
        let _g = handle.enter();
        loop {
            match sched::next_item(&ctx, &mut reader) {
                Ok(Some(Ok(b))) => {
                    let col = b.column(0).as_any().downcast_ref::<Int32Array>().unwrap();
                    for i in 0..col.len() {
                        ctx.note("out", &[col.value(i) as i64]);
                    }
                }
                Ok(Some(Err(_e))) => {
                    ctx.note("out_err", &[]);
                    break;
                }
                Ok(None) => {
                    ctx.note("eos", &[]);
                    break;
                }
                Err(_) => {
                    ctx.note("tool_err", &[]);
                    break;
                }
            }
        }
    });
    idx.insert("r0".to_string(), ri);

    // prime: run every process from "start" to its first hook point (touches no shared state)
    for (_, &i) in idx.iter() {
        if let Err(e) = sch.step(i, 0) {
            o.tool_error = Some(e);
            sch.free_run();
            return o;
        }
    }

    /// returns (batches yielded, pushes returned Ok, fault fired: 0 none | 1 in append | 2 in finish)
    fn absorb(o: &mut Outcome, log: Vec<vcommon::sched::Event>) -> (Vec<Value>, Vec<Value>, i64) {
        let (mut outs, mut oks) = (vec![], vec![]);
        let mut rotating = false;
        let mut fired = 0;
        for e in log {
            match e.site.as_str() {
                "sp_w_rotate" => rotating = true,
                "dm_write_fault" => {
                    if e.args.get(1).copied().unwrap_or(0) != 0 && fired == 0 {
                        fired = if rotating { 2 } else { 1 };
                    }
                }
                "push_begin" => o.attempted.push(e.args[0] * 1000 + e.args[1]),
                "push_ok" => {
                    o.ok_pushed.push(e.args[0] * 1000 + e.args[1]);
                    oks.push(json!([e.args[0], e.args[1]]));
                }
                "push_err" => o.failed.push(e.args[0] * 1000 + e.args[1]),
                "out" => {
                    o.out.push(e.args[0]);
                    outs.push(json!([e.args[0] / 1000, e.args[0] % 1000]));
                }
                "eos" => o.eos = true,
                "out_err" => o.read_err = Some("reader returned an error".into()),
                "tool_err" => o.tool_error = Some("i/o wake-up timeout in reader".into()),
                _ => {}
            }
        }
        (outs, oks, fired)
    }
    let _ = absorb(&mut o, sch.take_log());
    let do_step = |i: usize, inj: i64, o: &mut Outcome| -> bool {
        match sch.step(i, inj) {
            Ok((site, _st)) => {
                let name = sch.name(i);
                let (outs, oks, fired) = absorb(o, sch.take_log());
                // the label records what actually happened (an armed fault that never fired is a plain step)
                let label = match (site.as_str(), fired) {
                    ("sp_w_p3", 1) => "w_p3_fail".to_string(),
                    ("sp_w_p3", 2) => "w_p3_finfail".to_string(),
                    ("resume", _) => "r_resume".to_string(),
                    (s, _) => s.trim_start_matches("sp_").to_string(),
                };
                o.events.push(json!({"k": &name[..1], "i": name[1..].parse::<i64>().unwrap_or(0), "l": label,
                                     "out": outs, "ok": oks, "eos": o.eos}));
                o.executed.push((name, label));
                true
            }
            Err(e) => {
                o.tool_error = Some(e);
                false
            }
        }
    };

    // phase 1: follow the given schedule
    for (p, label) in &case.steps {
        let Some(&i) = idx.get(p) else { continue };
        let want = label_site(label);
        match sch.status(i) {
            Status::AtPoint(site, _) => {
                if site != want {
                    o.drift += 1;
                }
                if !do_step(i, inject_for(label), &mut o) {
                    sch.free_run();
                    return o;
                }
            }
            _ => o.drift += 1,
        }
    }
    // phase 2: run to completion — lowest-numbered enabled process, or seeded random choice
    let mut guard = 0;
    loop {
        if sch.all_finished() {
            break;
        }
        let en = sch.enabled();
        if en.is_empty() {
            let stuck: Vec<String> =
                (0..sch.n()).filter(|&i| sch.status(i) != Status::Finished).map(|i| format!("{}:{:?}", sch.name(i), sch.status(i))).collect();
            o.deadlock = Some(stuck.join(", "));
            break;
        }
        let (i, inj) = match rng.as_mut() {
            Some(r) => {
                let i = en[r.random_range(0..en.len())];
                let at_p3 = matches!(sch.status(i), Status::AtPoint(ref s, _) if s == "sp_w_p3");
                let inj = if at_p3 && r.random_bool(fault_p) { if r.random_bool(0.5) { 1 } else { 2 } } else { 0 };
                (i, inj)
            }
            None => (en[0], 0),
        };
        if !do_step(i, inj, &mut o) {
            sch.free_run();
            return o;
        }
        guard += 1;
        if guard > 100_000 {
            o.tool_error = Some("step budget exhausted".into());
            break;
        }
    }
    o.panics = sch.panics();
    // ---- oracle on the real execution ----
    let _ = absorb(&mut o, sch.take_log());
    if o.deadlock.is_some() {
        sch.free_run();
    }
    sch.shutdown();
    o.violation = judge(case, &o);
    o
}

fn judge(case: &Case, o: &Outcome) -> Option<String> {
    if o.tool_error.is_some() {
        return None;
    }
    if let Some((p, m)) = o.panics.first() {
        return Some(format!("process {p} panicked: {m}"));
    }
    let mut seen = std::collections::HashSet::new();
    for b in &o.out {
        if !o.attempted.contains(b) {
            return Some(format!("reader yielded batch {b} that was never pushed"));
        }
        if !seen.insert(*b) {
            return Some(format!("batch {b} delivered twice"));
        }
    }
    if case.w == 1 {
        // FIFO: delivered successfully-pushed batches appear in push order
        let ok_out: Vec<i64> = o.out.iter().copied().filter(|b| o.ok_pushed.contains(b)).collect();
        let expect: Vec<i64> = o.ok_pushed.iter().copied().take(ok_out.len()).collect();
        if ok_out != expect {
            return Some(format!("single-writer order broken: pushed {:?}, read {:?}", o.ok_pushed, o.out));
        }
    }
    if let Some(d) = &o.deadlock {
        let missing: Vec<i64> = o.ok_pushed.iter().copied().filter(|b| !o.out.contains(b)).collect();
        return Some(format!(
            "no process can make progress (exact scheduler): {d}; reader eos={}, successfully pushed but undelivered batches {:?}",
            o.eos, missing
        ));
    }
    if o.read_err.is_some() && o.failed.is_empty() {
        return Some("reader returned an error although no push failed".into());
    }
    if o.eos {
        let missing: Vec<i64> = o.ok_pushed.iter().copied().filter(|b| !o.out.contains(b)).collect();
        if !missing.is_empty() {
            return Some(format!("end of stream reported but successfully pushed batches {missing:?} were never read"));
        }
    } else if o.read_err.is_none() {
        return Some("reader finished without end-of-stream".into());
    }
    None
}

fn parse_case(v: &Value) -> Case {
    let steps: Vec<(String, String)> = v["steps"]
        .as_array()
        .unwrap()
        .iter()
        .map(|s| (s[0].as_str().unwrap().to_string(), s[1].as_str().unwrap().to_string()))
        .collect();
    let w = v["W"].as_u64().unwrap() as usize;
    let mut pushes = vec![0usize; w];
    if let Some(p) = v.get("pushes").and_then(|p| p.as_array()) {
        for (i, x) in p.iter().enumerate() {
            pushes[i] = x.as_u64().unwrap() as usize;
        }
    } else {
        for (p, l) in &steps {
            if l == "w_p1" {
                let wi: usize = p[1..].parse().unwrap();
                pushes[wi - 1] += 1;
            }
        }
    }
    Case { w, rot: v["rot"].as_u64().unwrap() as usize, pushes, steps, origin: v.get("origin").and_then(|x| x.as_str()).unwrap_or("tlc").to_string() }
}

fn case_json(c: &Case) -> Value {
    json!({"W": c.w, "rot": c.rot, "pushes": c.pushes, "steps": c.steps.iter().map(|(p,l)| json!([p,l])).collect::<Vec<_>>(), "origin": c.origin})
}

pub fn main() {
    let rt = tokio::runtime::Builder::new_multi_thread().worker_threads(2).enable_all().build().unwrap();
    let out_path = util::arg("--out").unwrap_or_else(|| "c16-result.json".into());
    let mut cases: Vec<Case> = vec![];
    if let Some(p) = util::arg("--behaviours") {
        cases.extend(util::read_ndjson(&p).iter().map(parse_case));
    }
    if let Some(p) = util::arg("--replay") {
        let v: Value = serde_json::from_str(&std::fs::read_to_string(&p).unwrap()).unwrap();
        cases.push(parse_case(&v["case"]));
    }
    let nrandom: usize = util::arg("--random").and_then(|s| s.parse().ok()).unwrap_or(0);
    let seed = util::seed();
    let mut total = 0usize;
    let mut drift_total = 0usize;
    let mut steps_total = 0usize;
    let mut tool_errors = vec![];
    let mut violations: Vec<Value> = vec![];
    let mut samples: Vec<Value> = vec![];
    let mut distinct = std::collections::HashSet::new();
    let mut sites = std::collections::BTreeMap::<String, usize>::new();
    let mut traces: Vec<Value> = vec![];

    let mut record = |case: &Case, o: &Outcome, total: &mut usize| {
        *total += 1;
        drift_total += o.drift;
        steps_total += o.executed.len();
        for (_, s) in &o.executed {
            *sites.entry(s.clone()).or_default() += 1;
        }
        distinct.insert(format!("{:?}", o.executed));
        if let Some(e) = &o.tool_error {
            tool_errors.push(e.clone());
        }
        let obs = json!({"executed": o.executed.len(), "drift": o.drift, "ok_pushed": o.ok_pushed, "failed": o.failed,
                         "out": o.out, "eos": o.eos, "deadlock": o.deadlock});
        if let Some(v) = &o.violation {
            violations.push(json!({"case": case_json(case), "observed": obs, "oracle": v,
                                   "executed": o.executed.iter().map(|(p,s)| json!([p,s])).collect::<Vec<_>>() }));
        }
        if samples.len() < 3 {
            samples.push(json!({"case": case_json(case), "observed": obs}));
        }
        traces.push(json!({"W": case.w, "rot": case.rot, "ev": o.events}));
    };

    for case in &cases {
        let mut none = None;
        let o = run_case(case, &rt, &mut none, 0.0);
        record(case, &o, &mut total);
    }
    let mut rng = StdRng::seed_from_u64(seed);
    for n in 0..nrandom {
        let w = rng.random_range(1..=3usize);
        let rot = rng.random_range(1..=3usize);
        let pushes: Vec<usize> = (0..w).map(|_| rng.random_range(0..=4usize)).collect();
        let case = Case { w, rot, pushes, steps: vec![], origin: format!("random seed={seed} n={n}") };
        let mut r = Some(StdRng::seed_from_u64(seed.wrapping_mul(1_000_003).wrapping_add(n as u64)));
        let fault_p = if n % 2 == 0 { 0.0 } else { 0.3 };
        let o = run_case(&case, &rt, &mut r, fault_p);
        // a random run is replayable from its executed schedule (labels carry the injected faults)
        let mut c2 = case.clone();
        c2.steps = o.executed.clone();
        record(&c2, &o, &mut total);
    }
    let res = json!({
        "evaluations": total, "distinct_schedules": distinct.len(), "steps": steps_total, "drift_steps": drift_total,
        "violations": violations, "samples": samples, "sites": sites, "tool_errors": tool_errors,
    });
    std::fs::write(&out_path, serde_json::to_string(&res).unwrap()).unwrap();
    if let Some(p) = util::arg("--traces") {
        util::write_ndjson(&p, &traces);
    }
    util::summary(json!({"evaluations": total, "violations": violations.len(), "tool_errors": tool_errors.len(), "drift_steps": drift_total}));
}
