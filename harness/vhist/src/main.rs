//! Statement-history driver (C39 DML on memory tables, C49 catalog + information schema).
//!
//! `vhist run --in hist.ndjson --out res.ndjson`
//!
//! One input line = one history, executed on ONE fresh `SessionContext`:
//!   {"id":..,
//!    "config":{"information_schema":bool,"target_partitions":n,"set":[["key","value"],..]},
//!    "tables":[{"name":..,"cols":[{"name":..,"kind":"i|s|b"}],"parts":[[row,..],..],"batch_rows":n,"utf8view":bool,"empty_batch":bool,"defaults":{col:value},"sort":[col..]}],
//!    "steps":[{"sql":"...","obs":["SELECT ...",..]}]}
//! A table is registered as a `MemTable` with exactly the given partitions (each split into batches of
//! `batch_rows` rows, 0 = one batch per partition).  Every step's statement is executed through
//! `SessionContext::sql(..).collect()`, then every observation query of the step.  Output line:
//!   {"id":..,"steps":[{"ok":bool,"err":str|null,"panic":bool,"rows":[..],"obs":[{"ok","err","panic","rows","cols"}..]}]}
//! Rows are value grids (see vcommon::sqlexec::value_at; strings outside the pool come back as
//! {"k":"s","v":-1,"raw":text}).  The driver has no oracle: lib/c39.py / lib/c49.py compare every step with
//! the TLA+ specification's expectation.
use arrow::record_batch::RecordBatch;
use datafusion::datasource::MemTable;
use datafusion::prelude::*;
use futures::FutureExt;
use serde_json::{Value, json};
use std::panic::AssertUnwindSafe;
use std::sync::Arc;
use vcommon::sqlexec::{batches_to_rows, rows_to_batch, table_schema};
use vcommon::util;

fn make_ctx(h: &Value) -> Result<SessionContext, String> {
    let c = &h["config"];
    let mut cfg = SessionConfig::new();
    if c["information_schema"].as_bool().unwrap_or(false) {
        cfg = cfg.with_information_schema(true);
    }
    if let Some(n) = c["target_partitions"].as_u64() {
        cfg = cfg.with_target_partitions(n as usize);
    }
    if let Some(sets) = c["set"].as_array() {
        for kv in sets {
            let (k, v) = (kv[0].as_str().unwrap(), kv[1].as_str().unwrap());
            cfg.options_mut().set(k, v).map_err(|e| format!("config {k}={v}: {e}"))?;
        }
    }
    let ctx = SessionContext::new_with_config(cfg);
    if let Some(ts) = h["tables"].as_array() {
        for t in ts {
            let u8v = t["utf8view"].as_bool().unwrap_or(false);
            let schema = table_schema(t, u8v);
            let br = t["batch_rows"].as_u64().unwrap_or(0) as usize;
            let mut parts = vec![];
            for p in t["parts"].as_array().unwrap() {
                let rows: Vec<&Value> = p.as_array().unwrap().iter().collect();
                let mut batches = vec![];
                if t["empty_batch"].as_bool().unwrap_or(false) {
                    // a zero-row batch in front of every partition (the DML loops skip such batches)
                    batches.push(RecordBatch::new_empty(Arc::clone(&schema)));
                }
                if rows.is_empty() {
                    // an empty partition has no batches
                } else if br == 0 {
                    batches.push(rows_to_batch(t, &schema, &rows, u8v));
                } else {
                    for ch in rows.chunks(br) {
                        batches.push(rows_to_batch(t, &schema, ch, u8v));
                    }
                }
                parts.push(batches);
            }
            let mut mt = MemTable::try_new(schema, parts).map_err(|e| e.to_string())?;
            if let Some(d) = t["defaults"].as_object() {
                // column defaults: {"c2": {"k":"i","v":5}, ...}
                let mut m = std::collections::HashMap::new();
                for (k, v) in d {
                    let e = match v["k"].as_str().unwrap() {
                        "i" => lit(v["v"].as_i64().unwrap()),
                        "s" => lit(vcommon::sqlexec::STR_POOL[v["v"].as_i64().unwrap() as usize]),
                        "b" => lit(v["v"].as_i64().unwrap() == 1),
                        _ => lit(datafusion::scalar::ScalarValue::Null),
                    };
                    m.insert(k.clone(), e);
                }
                mt = mt.with_column_defaults(m);
            }
            if let Some(cols) = t["sort"].as_array() {
                // declared sort order: the listed columns ASC NULLS LAST (the caller sorts every partition)
                let order: Vec<datafusion::logical_expr::SortExpr> = cols.iter().map(|c| col(c.as_str().unwrap()).sort(true, false)).collect();
                mt = mt.with_sort_order(vec![order]);
            }
            ctx.register_table(t["name"].as_str().unwrap(), Arc::new(mt)).map_err(|e| e.to_string())?;
        }
    }
    Ok(ctx)
}

async fn exec(ctx: &SessionContext, sql: &str) -> Value {
    let fut = async {
        let df = ctx.sql(sql).await.map_err(|e| format!("plan: {e}"))?;
        let cols: Vec<String> = df.schema().fields().iter().map(|f| f.name().clone()).collect();
        let types: Vec<String> = df.schema().fields().iter().map(|f| f.data_type().to_string()).collect();
        let batches = df.collect().await.map_err(|e| format!("exec: {e}"))?;
        Ok::<_, String>((cols, types, batches_to_rows(&batches)))
    };
    match AssertUnwindSafe(fut).catch_unwind().await {
        Ok(Ok((cols, types, rows))) => json!({"ok":true,"err":null,"panic":false,"rows":rows,"cols":cols,"types":types}),
        Ok(Err(e)) => json!({"ok":false,"err":e,"panic":false,"rows":[]}),
        Err(p) => {
            let msg = p.downcast_ref::<String>().cloned().or_else(|| p.downcast_ref::<&str>().map(|s| s.to_string())).unwrap_or_default();
            json!({"ok":false,"err":format!("panic: {msg}"),"panic":true,"rows":[]})
        }
    }
}

/// A step that goes through the Rust API of `SessionContext` instead of SQL:
///   {"op":"register_table","ref":"s1.\"Ab\"","table":{cols,rows}}   rows = [] on success
///   {"op":"register_view","ref":..,"query":"SELECT .."}            (DataFrame::into_view, no definition text)
///   {"op":"deregister_table","ref":..}                             rows = [[existed]]
///   {"op":"table_exist","ref":..}                                  rows = [[exists]]
/// The reference string is parsed by `TableReference::from(&str)` (same identifier rules as SQL).
async fn exec_api(ctx: &SessionContext, a: &Value) -> Value {
    let fut = async {
        let r = a["ref"].as_str().unwrap().to_string();
        let b = |x: bool| vec![json!([{"k":"b","v": x as i64}])];
        match a["op"].as_str().unwrap() {
            "register_table" => {
                let t = &a["table"];
                let schema = table_schema(t, false);
                let rows: Vec<&Value> = t["rows"].as_array().unwrap().iter().collect();
                let batches = if rows.is_empty() { vec![] } else { vec![rows_to_batch(t, &schema, &rows, false)] };
                let mt = MemTable::try_new(schema, vec![batches]).map_err(|e| e.to_string())?;
                ctx.register_table(r.as_str(), Arc::new(mt)).map_err(|e| e.to_string())?;
                Ok::<_, String>(vec![])
            }
            "register_view" => {
                let df = ctx.sql(a["query"].as_str().unwrap()).await.map_err(|e| format!("plan: {e}"))?;
                ctx.register_table(r.as_str(), df.into_view()).map_err(|e| e.to_string())?;
                Ok(vec![])
            }
            "deregister_table" => {
                let old = ctx.deregister_table(r.as_str()).map_err(|e| e.to_string())?;
                Ok(b(old.is_some()))
            }
            "table_exist" => Ok(b(ctx.table_exist(r.as_str()).map_err(|e| e.to_string())?)),
            other => Err(format!("unknown api op {other}")),
        }
    };
    match AssertUnwindSafe(fut).catch_unwind().await {
        Ok(Ok(rows)) => json!({"ok":true,"err":null,"panic":false,"rows":rows,"cols":[],"types":[]}),
        Ok(Err(e)) => json!({"ok":false,"err":e,"panic":false,"rows":[]}),
        Err(_) => json!({"ok":false,"err":"panic","panic":true,"rows":[]}),
    }
}

async fn logical_plan_text(ctx: &SessionContext, sql: &str) -> String {
    let fut = async {
        let state = ctx.state();
        let plan = state.create_logical_plan(sql).await.map_err(|e| format!("plan: {e}"))?;
        let opt = state.optimize(&plan).map_err(|e| format!("optimize: {e}"))?;
        Ok::<_, String>(format!("{}", opt.display_indent()))
    };
    match AssertUnwindSafe(fut).catch_unwind().await {
        Ok(Ok(s)) => s,
        Ok(Err(e)) => format!("error: {e}"),
        Err(_) => "panic".to_string(),
    }
}

async fn run_history(h: &Value) -> Value {
    let ctx = match make_ctx(h) {
        Ok(c) => c,
        Err(e) => return json!({"id":h["id"],"setup_err":e,"steps":[]}),
    };
    let mut out = vec![];
    for st in h["steps"].as_array().unwrap() {
        // optional: the optimized logical plan of the statement (no physical planning, hence no side effect)
        let lplan = if st["plan"].as_bool().unwrap_or(false) && !st["api"].is_object() { Some(logical_plan_text(&ctx, st["sql"].as_str().unwrap()).await) } else { None };
        // statements to run before the step's statement (PREPARE ...); a failure there is the step's failure
        let mut pre_fail = None;
        if let Some(pre) = st["pre"].as_array() {
            for q in pre {
                let x = exec(&ctx, q.as_str().unwrap()).await;
                if x["ok"] == false {
                    pre_fail = Some(x);
                    break;
                }
            }
        }
        let mut r = if let Some(x) = pre_fail { x } else if st["api"].is_object() { exec_api(&ctx, &st["api"]).await } else { exec(&ctx, st["sql"].as_str().unwrap()).await };
        if let Some(lp) = lplan {
            r["lplan"] = Value::String(lp);
        }
        let mut obs = vec![];
        if let Some(qs) = st["obs"].as_array() {
            for q in qs {
                obs.push(exec(&ctx, q.as_str().unwrap()).await);
            }
        }
        r["obs"] = Value::Array(obs);
        out.push(r);
    }
    json!({"id":h["id"],"steps":out})
}

fn run_main() {
    let inp = util::arg("--in").expect("--in");
    let outp = util::arg("--out").expect("--out");
    let threads: usize = util::arg("--threads").and_then(|s| s.parse().ok()).unwrap_or(2);
    let hs = util::read_ndjson(&inp);
    // silence panic messages of the code under test (they are data)
    std::panic::set_hook(Box::new(|_| {}));
    let rt = tokio::runtime::Builder::new_multi_thread().worker_threads(threads).enable_all().build().unwrap();
    let mut res = vec![];
    let (mut stmts, mut failed, mut panics) = (0usize, 0usize, 0usize);
    for h in &hs {
        let r = rt.block_on(run_history(h));
        for s in r["steps"].as_array().unwrap() {
            stmts += 1 + s["obs"].as_array().map(|o| o.len()).unwrap_or(0);
            if s["ok"] == false {
                failed += 1;
            }
            if s["panic"] == true {
                panics += 1;
            }
        }
        res.push(r);
    }
    util::write_ndjson(&outp, &res);
    util::summary(json!({"histories":hs.len(),"statements":stmts,"failed_steps":failed,"panics":panics}));
}

fn main() {
    let a: Vec<String> = std::env::args().collect();
    match a.get(1).map(|s| s.as_str()).unwrap_or("") {
        "run" => run_main(),
        _ => {
            eprintln!("usage: vhist run --in hist.ndjson --out res.ndjson [--threads N]");
            std::process::exit(2);
        }
    }
}
