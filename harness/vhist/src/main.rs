//! Statement-history driver (C39 DML on memory tables, C49 catalog + information schema).
//!
//! `vhist run --in hist.ndjson --out res.ndjson`
//!
//! One input line = one history, executed on ONE fresh `SessionContext`:
//!   {"id":..,
//!    "config":{"information_schema":bool,"target_partitions":n,"set":[["key","value"],..]},
//!    "tables":[{"name":..,"cols":[{"name":..,"kind":"i|s|b"}],"parts":[[row,..],..],"batch_rows":n,"utf8view":bool}],
//!    "steps":[{"sql":"...","obs":["SELECT ...",..]}]}
//! A table is registered as a `MemTable` with exactly the given partitions (each split into batches of
//! `batch_rows` rows, 0 = one batch per partition).  Every step's statement is executed through
//! `SessionContext::sql(..).collect()`, then every observation query of the step.  Output line:
//!   {"id":..,"steps":[{"ok":bool,"err":str|null,"panic":bool,"rows":[..],"obs":[{"ok","err","panic","rows","cols"}..]}]}
//! Rows are value grids (see vcommon::sqlexec::value_at; strings outside the pool come back as
//! {"k":"s","v":-1,"raw":text}).  The driver has no oracle: lib/c39.py / lib/c49.py compare every step with
//! the TLA+ specification's expectation.
use datafusion::datasource::MemTable;
use datafusion::prelude::*;
use futures::FutureExt;
use serde_json::{Value, json};
use std::panic::AssertUnwindSafe;
use std::sync::Arc;
use vcommon::sqlexec::{batches_to_rows, rows_to_batch, table_schema};
use vcommon::util;

fn make_ctx(h: &Value) -> Result<SessionContext, String> {
    let c = &h["config"];
    let mut cfg = SessionConfig::new();
    if c["information_schema"].as_bool().unwrap_or(false) {
        cfg = cfg.with_information_schema(true);
    }
    if let Some(n) = c["target_partitions"].as_u64() {
        cfg = cfg.with_target_partitions(n as usize);
    }
    if let Some(sets) = c["set"].as_array() {
        for kv in sets {
            let (k, v) = (kv[0].as_str().unwrap(), kv[1].as_str().unwrap());
            cfg.options_mut().set(k, v).map_err(|e| format!("config {k}={v}: {e}"))?;
        }
    }
    let ctx = SessionContext::new_with_config(cfg);
    if let Some(ts) = h["tables"].as_array() {
        for t in ts {
            let u8v = t["utf8view"].as_bool().unwrap_or(false);
            let schema = table_schema(t, u8v);
            let br = t["batch_rows"].as_u64().unwrap_or(0) as usize;
            let mut parts = vec![];
            for p in t["parts"].as_array().unwrap() {
                let rows: Vec<&Value> = p.as_array().unwrap().iter().collect();
                let mut batches = vec![];
                if rows.is_empty() {
                    // an empty partition has no batches
                } else if br == 0 {
                    batches.push(rows_to_batch(t, &schema, &rows, u8v));
                } else {
                    for ch in rows.chunks(br) {
                        batches.push(rows_to_batch(t, &schema, ch, u8v));
                    }
                }
                parts.push(batches);
            }
            let mt = MemTable::try_new(schema, parts).map_err(|e| e.to_string())?;
            ctx.register_table(t["name"].as_str().unwrap(), Arc::new(mt)).map_err(|e| e.to_string())?;
        }
    }
    Ok(ctx)
}

async fn exec(ctx: &SessionContext, sql: &str) -> Value {
    let fut = async {
        let df = ctx.sql(sql).await.map_err(|e| format!("plan: {e}"))?;
        let cols: Vec<String> = df.schema().fields().iter().map(|f| f.name().clone()).collect();
        let types: Vec<String> = df.schema().fields().iter().map(|f| f.data_type().to_string()).collect();
        let batches = df.collect().await.map_err(|e| format!("exec: {e}"))?;
        Ok::<_, String>((cols, types, batches_to_rows(&batches)))
    };
    match AssertUnwindSafe(fut).catch_unwind().await {
        Ok(Ok((cols, types, rows))) => json!({"ok":true,"err":null,"panic":false,"rows":rows,"cols":cols,"types":types}),
        Ok(Err(e)) => json!({"ok":false,"err":e,"panic":false,"rows":[]}),
        Err(p) => {
            let msg = p.downcast_ref::<String>().cloned().or_else(|| p.downcast_ref::<&str>().map(|s| s.to_string())).unwrap_or_default();
            json!({"ok":false,"err":format!("panic: {msg}"),"panic":true,"rows":[]})
        }
    }
}

async fn logical_plan_text(ctx: &SessionContext, sql: &str) -> String {
    let fut = async {
        let state = ctx.state();
        let plan = state.create_logical_plan(sql).await.map_err(|e| format!("plan: {e}"))?;
        let opt = state.optimize(&plan).map_err(|e| format!("optimize: {e}"))?;
        Ok::<_, String>(format!("{}", opt.display_indent()))
    };
    match AssertUnwindSafe(fut).catch_unwind().await {
        Ok(Ok(s)) => s,
        Ok(Err(e)) => format!("error: {e}"),
        Err(_) => "panic".to_string(),
    }
}

async fn run_history(h: &Value) -> Value {
    let ctx = match make_ctx(h) {
        Ok(c) => c,
        Err(e) => return json!({"id":h["id"],"setup_err":e,"steps":[]}),
    };
    let mut out = vec![];
    for st in h["steps"].as_array().unwrap() {
        // optional: the optimized logical plan of the statement (no physical planning, hence no side effect)
        let lplan = if st["plan"].as_bool().unwrap_or(false) { Some(logical_plan_text(&ctx, st["sql"].as_str().unwrap()).await) } else { None };
        let mut r = exec(&ctx, st["sql"].as_str().unwrap()).await;
        if let Some(lp) = lplan {
            r["lplan"] = Value::String(lp);
        }
        let mut obs = vec![];
        if let Some(qs) = st["obs"].as_array() {
            for q in qs {
                obs.push(exec(&ctx, q.as_str().unwrap()).await);
            }
        }
        r["obs"] = Value::Array(obs);
        out.push(r);
    }
    json!({"id":h["id"],"steps":out})
}

fn run_main() {
    let inp = util::arg("--in").expect("--in");
    let outp = util::arg("--out").expect("--out");
    let threads: usize = util::arg("--threads").and_then(|s| s.parse().ok()).unwrap_or(2);
    let hs = util::read_ndjson(&inp);
    // silence panic messages of the code under test (they are data)
    std::panic::set_hook(Box::new(|_| {}));
    let rt = tokio::runtime::Builder::new_multi_thread().worker_threads(threads).enable_all().build().unwrap();
    let mut res = vec![];
    let (mut stmts, mut failed, mut panics) = (0usize, 0usize, 0usize);
    for h in &hs {
        let r = rt.block_on(run_history(h));
        for s in r["steps"].as_array().unwrap() {
            stmts += 1 + s["obs"].as_array().map(|o| o.len()).unwrap_or(0);
            if s["ok"] == false {
                failed += 1;
            }
            if s["panic"] == true {
                panics += 1;
            }
        }
        res.push(r);
    }
    util::write_ndjson(&outp, &res);
    util::summary(json!({"histories":hs.len(),"statements":stmts,"failed_steps":failed,"panics":panics}));
}

fn main() {
    let a: Vec<String> = std::env::args().collect();
    match a.get(1).map(|s| s.as_str()).unwrap_or("") {
        "run" => run_main(),
        _ => {
            eprintln!("usage: vhist run --in hist.ndjson --out res.ndjson [--threads N]");
            std::process::exit(2);
        }
    }
}
