//! Small helpers: NDJSON I/O, seeds, summaries.
use serde_json::Value;
use std::io::{BufRead, Write};

pub fn seed() -> u64 {
    std::env::var("VERIF_SEED").ok().and_then(|s| s.parse().ok()).unwrap_or(1)
}

pub fn tier_quick() -> bool {
    std::env::var("VERIF_TIER").map(|t| t != "thorough").unwrap_or(true)
}

pub fn read_ndjson(path: &str) -> Vec<Value> {
    let f = std::fs::File::open(path).unwrap_or_else(|e| panic!("open {path}: {e}"));
    std::io::BufReader::new(f)
        .lines()
        .map(|l| l.unwrap())
        .filter(|l| !l.trim().is_empty())
        .map(|l| serde_json::from_str(&l).unwrap_or_else(|e| panic!("bad json line {l}: {e}")))
        .collect()
}

pub fn write_ndjson<T: serde::Serialize>(path: &str, items: &[T]) {
    let mut f = std::io::BufWriter::new(std::fs::File::create(path).unwrap());
    for it in items {
        serde_json::to_writer(&mut f, it).unwrap();
        f.write_all(b"\n").unwrap();
    }
}

/// Command-line helper: value of `--name`.
pub fn arg(name: &str) -> Option<String> {
    let a: Vec<String> = std::env::args().collect();
    a.iter().position(|x| x == name).and_then(|i| a.get(i + 1).cloned())
}

pub fn has_flag(name: &str) -> bool {
    std::env::args().any(|x| x == name)
}

/// Print the one-line JSON summary the python driver reads.
pub fn summary(v: Value) {
    println!("{}", serde_json::to_string(&v).unwrap());
}
