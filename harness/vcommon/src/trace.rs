//! B2 recorder: a hook that appends every `verif::point` event to one global, mutex-ordered log.
//! Hooks in /repo emit events while holding the lock that protects the state they report, so the
//! log order is a linearization of the protected updates.  Optional seeded schedule fuzzing
//! (yield / short sleep at hook points) widens the set of interleavings visited.

use parking_lot::Mutex;
use std::sync::Arc;
use std::sync::atomic::{AtomicU64, Ordering};

#[derive(Clone, Debug, serde::Serialize, serde::Deserialize)]
pub struct Ev {
    pub seq: u64,
    pub tid: u64,
    pub site: String,
    pub args: Vec<i64>,
}

static LOG: Mutex<Vec<Ev>> = Mutex::new(Vec::new());
static FUZZ: AtomicU64 = AtomicU64::new(0);
static NEXT_TID: AtomicU64 = AtomicU64::new(1);

thread_local! {
    static TID: u64 = NEXT_TID.fetch_add(1, Ordering::Relaxed);
    static RNG: std::cell::Cell<u64> = const { std::cell::Cell::new(0) };
}

fn rec(site: &'static str, args: &[i64]) -> i64 {
    let tid = TID.with(|t| *t);
    {
        let mut l = LOG.lock();
        let seq = l.len() as u64;
        l.push(Ev { seq, tid, site: site.to_string(), args: args.to_vec() });
    }
    let f = FUZZ.load(Ordering::Relaxed);
    if f != 0 {
        let r = RNG.with(|c| {
            let mut x = c.get();
            if x == 0 {
                x = f ^ (tid.wrapping_mul(0x9E3779B97F4A7C15));
            }
            x ^= x << 13;
            x ^= x >> 7;
            x ^= x << 17;
            c.set(x);
            x
        });
        match r % 8 {
            0 => std::thread::yield_now(),
            1 => std::thread::sleep(std::time::Duration::from_micros(r % 200)),
            _ => {}
        }
    }
    0
}

/// Install the recording hook; `fuzz_seed != 0` enables schedule fuzzing.
pub fn install(fuzz_seed: u64) {
    LOG.lock().clear();
    FUZZ.store(fuzz_seed, Ordering::Relaxed);
    datafusion_common::verif::set_hook(Some(Arc::new(rec)));
}

pub fn uninstall() {
    datafusion_common::verif::set_hook(None);
}

pub fn take() -> Vec<Ev> {
    std::mem::take(&mut *LOG.lock())
}

/// Append a driver-side event (API call results etc.) to the same log.
pub fn note(site: &str, args: &[i64]) {
    let tid = TID.with(|t| *t);
    let mut l = LOG.lock();
    let seq = l.len() as u64;
    l.push(Ev { seq, tid, site: site.to_string(), args: args.to_vec() });
}
