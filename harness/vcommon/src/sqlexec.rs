//! Shared SQL executor for TLC-generated "sqlcases" (see /verif/lib/sqlcases.py and spec/lib/AST.md).
//! Tables arrive as value grids (`{"k":"i","v":3}` …), are registered as MemTables (optionally split
//! into several partitions / batches), the SQL text is executed, and result batches are converted
//! back into value grids.  String values are indices into a fixed pool whose order is lexicographic.

use arrow::array::*;
use arrow::datatypes::{DataType, Field, Schema, SchemaRef};
use arrow::record_batch::RecordBatch;
use datafusion::datasource::MemTable;
use datafusion::prelude::*;
use serde_json::{Value, json};
use std::sync::Arc;

pub const STR_POOL: [&str; 4] = ["", "a", "ab", "b"]; // index 0 unused

#[derive(Clone, Debug)]
pub struct ExecOpts {
    /// number of partitions each table is split into (round-robin by row)
    pub partitions: usize,
    /// rows per record batch inside a partition (0 = one batch)
    pub batch_rows: usize,
    /// session configuration `key=value`
    pub settings: Vec<(String, String)>,
    /// register string columns as Utf8View instead of Utf8
    pub utf8view: bool,
}

impl Default for ExecOpts {
    fn default() -> Self {
        ExecOpts { partitions: 1, batch_rows: 0, settings: vec![], utf8view: false }
    }
}

pub fn kind_type(kind: &str, utf8view: bool) -> DataType {
    match kind {
        "i" => DataType::Int64,
        "s" => {
            if utf8view {
                DataType::Utf8View
            } else {
                DataType::Utf8
            }
        }
        "b" => DataType::Boolean,
        k => panic!("unknown kind {k}"),
    }
}

pub fn column_from_values(kind: &str, vals: &[&Value], utf8view: bool) -> ArrayRef {
    let isnull = |v: &Value| v["k"] == "n";
    match kind {
        "i" => Arc::new(Int64Array::from(vals.iter().map(|v| if isnull(v) { None } else { v["v"].as_i64() }).collect::<Vec<_>>())),
        "b" => Arc::new(BooleanArray::from(vals.iter().map(|v| if isnull(v) { None } else { Some(v["v"].as_i64() == Some(1)) }).collect::<Vec<_>>())),
        "s" => {
            let it = vals.iter().map(|v| if isnull(v) { None } else { Some(STR_POOL[v["v"].as_i64().unwrap() as usize]) });
            if utf8view {
                Arc::new(StringViewArray::from(it.collect::<Vec<_>>()))
            } else {
                Arc::new(StringArray::from(it.collect::<Vec<_>>()))
            }
        }
        k => panic!("unknown kind {k}"),
    }
}

pub fn table_schema(t: &Value, utf8view: bool) -> SchemaRef {
    let fields: Vec<Field> = t["cols"]
        .as_array()
        .unwrap()
        .iter()
        .map(|c| Field::new(c["name"].as_str().unwrap(), kind_type(c["kind"].as_str().unwrap(), utf8view), true))
        .collect();
    Arc::new(Schema::new(fields))
}

pub fn rows_to_batch(t: &Value, schema: &SchemaRef, rows: &[&Value], utf8view: bool) -> RecordBatch {
    let cols = t["cols"].as_array().unwrap();
    if cols.is_empty() {
        return RecordBatch::new_empty(Arc::clone(schema));
    }
    let arrays: Vec<ArrayRef> = cols
        .iter()
        .enumerate()
        .map(|(ci, c)| {
            let vals: Vec<&Value> = rows.iter().map(|r| &r[ci]).collect();
            column_from_values(c["kind"].as_str().unwrap(), &vals, utf8view)
        })
        .collect();
    RecordBatch::try_new(Arc::clone(schema), arrays).unwrap()
}

/// Partitions (each a list of batches) for a table under the given options.
pub fn table_partitions(t: &Value, opts: &ExecOpts) -> (SchemaRef, Vec<Vec<RecordBatch>>) {
    let schema = table_schema(t, opts.utf8view);
    let rows: Vec<&Value> = t["rows"].as_array().unwrap().iter().collect();
    let np = opts.partitions.max(1);
    let mut parts: Vec<Vec<&Value>> = vec![vec![]; np];
    for (i, r) in rows.iter().enumerate() {
        parts[i % np].push(r);
    }
    let mut out = vec![];
    for p in parts {
        let mut batches = vec![];
        if opts.batch_rows == 0 || p.is_empty() {
            batches.push(rows_to_batch(t, &schema, &p, opts.utf8view));
        } else {
            for ch in p.chunks(opts.batch_rows) {
                batches.push(rows_to_batch(t, &schema, ch, opts.utf8view));
            }
        }
        out.push(batches);
    }
    (schema, out)
}

pub fn session(opts: &ExecOpts) -> Result<SessionContext, String> {
    let mut cfg = SessionConfig::new();
    for (k, v) in &opts.settings {
        cfg.options_mut().set(k, v).map_err(|e| format!("config {k}={v}: {e}"))?;
    }
    Ok(SessionContext::new_with_config(cfg))
}

pub fn register_tables(ctx: &SessionContext, case: &Value, opts: &ExecOpts) -> Result<(), String> {
    for t in case["tables"].as_array().unwrap() {
        let (schema, parts) = table_partitions(t, opts);
        let mt = MemTable::try_new(schema, parts).map_err(|e| e.to_string())?;
        ctx.register_table(t["name"].as_str().unwrap(), Arc::new(mt)).map_err(|e| e.to_string())?;
    }
    Ok(())
}

pub fn value_at(a: &ArrayRef, i: usize) -> Value {
    if a.is_null(i) {
        return json!({"k":"n","v":0});
    }
    let s = |x: &str| match STR_POOL.iter().position(|p| *p == x) {
        Some(ix) if ix > 0 => json!({"k":"s","v":ix}),
        _ => json!({"k":"s","v":-1,"raw":x}),
    };
    match a.data_type() {
        DataType::Null => json!({"k":"n","v":0}),
        DataType::Int64 => json!({"k":"i","v":a.as_any().downcast_ref::<Int64Array>().unwrap().value(i)}),
        DataType::Int32 => json!({"k":"i","v":a.as_any().downcast_ref::<Int32Array>().unwrap().value(i)}),
        DataType::Int16 => json!({"k":"i","v":a.as_any().downcast_ref::<Int16Array>().unwrap().value(i)}),
        DataType::Int8 => json!({"k":"i","v":a.as_any().downcast_ref::<Int8Array>().unwrap().value(i)}),
        DataType::UInt64 => json!({"k":"i","v":a.as_any().downcast_ref::<UInt64Array>().unwrap().value(i)}),
        DataType::UInt32 => json!({"k":"i","v":a.as_any().downcast_ref::<UInt32Array>().unwrap().value(i)}),
        DataType::Boolean => json!({"k":"b","v": a.as_any().downcast_ref::<BooleanArray>().unwrap().value(i) as i64}),
        // UNION of BIGINT with an unsigned window column (rank / row_number) is coerced to Decimal128(20, 0)
        DataType::Decimal128(_, 0) => json!({"k":"i","v": a.as_any().downcast_ref::<Decimal128Array>().unwrap().value(i) as i64}),
        DataType::Utf8 => s(a.as_any().downcast_ref::<StringArray>().unwrap().value(i)),
        DataType::LargeUtf8 => s(a.as_any().downcast_ref::<LargeStringArray>().unwrap().value(i)),
        DataType::Utf8View => s(a.as_any().downcast_ref::<StringViewArray>().unwrap().value(i)),
        DataType::Float64 => {
            let f = a.as_any().downcast_ref::<Float64Array>().unwrap().value(i);
            if f.fract() == 0.0 && f.abs() < 1e15 { json!({"k":"i","v":f as i64,"float":true}) } else { json!({"k":"x","v":0,"raw":f.to_string()}) }
        }
        DataType::Dictionary(_, _) => {
            let c = arrow::compute::cast(a, &match a.data_type() { DataType::Dictionary(_, v) => (**v).clone(), _ => unreachable!() }).unwrap();
            value_at(&c, i)
        }
        other => json!({"k":"x","v":0,"raw":format!("{other:?}")}),
    }
}

pub fn batches_to_rows(batches: &[RecordBatch]) -> Vec<Value> {
    let mut rows = vec![];
    for b in batches {
        for i in 0..b.num_rows() {
            rows.push(Value::Array(b.columns().iter().map(|c| value_at(c, i)).collect()));
        }
    }
    rows
}

/// Execute the case's SQL; Ok(rows) or Err(message).
pub async fn run_sql_case(case: &Value, opts: &ExecOpts) -> Result<Vec<Value>, String> {
    let ctx = session(opts)?;
    register_tables(&ctx, case, opts)?;
    let df = ctx.sql(case["sql"].as_str().unwrap()).await.map_err(|e| format!("plan: {e}"))?;
    let batches = df.collect().await.map_err(|e| format!("exec: {e}"))?;
    Ok(batches_to_rows(&batches))
}
