//! Shared helpers for the conformance harness (see /verif/DESIGN.md §4).
pub mod sched;
pub mod trace;
pub mod util;
pub mod sqlexec;
