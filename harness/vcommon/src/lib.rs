//! shared harness helpers
