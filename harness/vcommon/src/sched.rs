//! Controlled scheduler for B1 (schedule replay) — see DESIGN.md §4 and Appendix C.
//!
//! Each specification process is an OS thread executing real DataFusion calls.  The cfg-guarded
//! `datafusion_common::verif::point(site, args)` hooks call into [`hook`]; at *blocking* sites
//! (registered by the driver) the thread parks until the scheduler grants it the next step.
//! Blocking sites are placed immediately *before* a lock region, so a parked thread never holds a
//! lock and one step = one critical section (the grain of the TLA+ modules).
//!
//! A process whose future returned `Pending` after registering a protocol waker is `Parked` and is
//! disabled until its waker is invoked — the same enabledness rule as the specification.  Deadlock
//! is therefore detected exactly: no enabled process while some are unfinished.

use parking_lot::{Condvar, Mutex};
use std::cell::Cell;
use std::collections::HashSet;
use std::sync::Arc;
use std::task::{Wake, Waker};
use std::time::Duration;

#[derive(Clone, Debug, PartialEq, Eq)]
pub enum Status {
    /// waiting at a blocking hook site for a grant
    AtPoint(String, Vec<i64>),
    Running,
    /// returned Pending with a protocol waker registered; disabled until woken
    Parked,
    Finished,
}

#[derive(Clone, Debug, serde::Serialize)]
pub struct Event {
    pub p: String,
    pub site: String,
    pub args: Vec<i64>,
}

struct Proc {
    name: String,
    status: Status,
    woken: bool,
    inject: i64,
    proto_pending: bool,
    /// the last blocking site passed in this poll was an I/O site (disk read in flight)
    io_last: bool,
    panicked: Option<String>,
}

struct State {
    procs: Vec<Proc>,
    granted: Option<usize>,
    log: Vec<Event>,
    blocking: HashSet<String>,
    pending_sites: HashSet<String>,
    fault_sites: HashSet<String>,
    io_sites: HashSet<String>,
    io_transparent: HashSet<String>,
    arm_sites: HashSet<String>,
    free_run: bool,
}

pub struct Inner {
    m: Mutex<State>,
    cv: Condvar,
}

thread_local! {
    static ME: Cell<Option<usize>> = const { Cell::new(None) };
    /// the scheduler this thread belongs to (a thread leaked by an earlier, deadlocked case must
    /// never touch the scheduler of a later case)
    static MINE: std::cell::RefCell<Option<Arc<Inner>>> = const { std::cell::RefCell::new(None) };
}

static CURRENT: Mutex<Option<Arc<Inner>>> = Mutex::new(None);

#[derive(Clone)]
pub struct Sched {
    inner: Arc<Inner>,
}

/// The function installed into `datafusion_common::verif`.
pub fn hook(site: &'static str, args: &[i64]) -> i64 {
    let me = ME.with(|m| m.get());
    let cur = match me {
        Some(_) => MINE.with(|m| m.borrow().clone()),
        None => CURRENT.lock().clone(),
    };
    let Some(inner) = cur else { return 0 };
    let mut st = inner.m.lock();
    let pname = match me {
        Some(i) => st.procs[i].name.clone(),
        None => "?".to_string(),
    };
    let Some(i) = me else {
        st.log.push(Event { p: pname, site: site.to_string(), args: args.to_vec() });
        return 0;
    };
    if st.pending_sites.contains(site) {
        st.procs[i].proto_pending = true;
    }
    if st.arm_sites.contains(site) && st.procs[i].inject == 2 {
        st.procs[i].inject = 1;
    }
    if st.fault_sites.contains(site) {
        // inject: 0 none | 1 every consult in this step fails | 2 armed: consults fail only after an
        // arming site was passed in this step | n >= 10: the (n-9)-th consult of the step fails
        let inj = st.procs[i].inject;
        let r = match inj {
            0 => 0,
            1 => 1,
            2 => 0,
            n => {
                st.procs[i].inject = if n > 10 { n - 1 } else { 0 };
                (n == 10) as i64
            }
        };
        st.log.push(Event { p: pname, site: site.to_string(), args: vec![inj, r] });
        return r;
    }
    if st.blocking.contains(site) && !st.io_transparent.contains(site) {
        st.procs[i].io_last = st.io_sites.contains(site);
    }
    if st.blocking.contains(site) && !st.free_run {
        st.procs[i].status = Status::AtPoint(site.to_string(), args.to_vec());
        st.granted = None;
        inner.cv.notify_all();
        while st.granted != Some(i) {
            inner.cv.wait(&mut st);
        }
        st.procs[i].status = Status::Running;
    }
    st.log.push(Event { p: pname, site: site.to_string(), args: args.to_vec() });
    0
}

struct ProcWaker {
    inner: Arc<Inner>,
    idx: usize,
}

impl Wake for ProcWaker {
    fn wake(self: Arc<Self>) {
        self.wake_by_ref()
    }
    fn wake_by_ref(self: &Arc<Self>) {
        let mut st = self.inner.m.lock();
        st.procs[self.idx].woken = true;
        self.inner.cv.notify_all();
    }
}

impl Sched {
    /// `blocking`: sites at which a registered thread waits for a grant.
    /// `pending`: sites whose passage means "a protocol waker was registered in this poll".
    /// `fault`: sites that return the per-step injection value.
    /// `io`: blocking sites after which a `Pending` is I/O-internal (a disk read in flight that a
    /// runtime thread completes) rather than a protocol wait, even if a protocol waker was
    /// registered on the way out.
    /// `io_transparent`: blocking sites passed on the way out of a poll that do not change that.
    pub fn new(blocking: &[&str], pending: &[&str], fault: &[&str], io: &[&str], io_transparent: &[&str]) -> Self {
        let inner = Arc::new(Inner {
            m: Mutex::new(State {
                procs: vec![],
                granted: None,
                log: vec![],
                blocking: blocking.iter().map(|s| s.to_string()).chain(["start".to_string(), "resume".to_string()]).collect(),
                pending_sites: pending.iter().map(|s| s.to_string()).collect(),
                fault_sites: fault.iter().map(|s| s.to_string()).collect(),
                io_sites: io.iter().map(|s| s.to_string()).collect(),
                io_transparent: io_transparent.iter().map(|s| s.to_string()).collect(),
                arm_sites: HashSet::new(),
                free_run: false,
            }),
            cv: Condvar::new(),
        });
        *CURRENT.lock() = Some(Arc::clone(&inner));
        datafusion_common::verif::set_hook(Some(Arc::new(hook)));
        Sched { inner }
    }

    /// Sites that turn an armed injection (inject = 2) into a failing one for the rest of the step.
    pub fn set_arm_sites(&self, sites: &[&str]) {
        self.inner.m.lock().arm_sites = sites.iter().map(|s| s.to_string()).collect();
    }

    pub fn shutdown(&self) {
        *CURRENT.lock() = None;
    }

    /// Spawn a specification process.  It first parks at the synthetic site "start".
    pub fn spawn<F>(&self, name: &str, f: F) -> usize
    where
        F: FnOnce(ProcCtx) + Send + 'static,
    {
        let idx = {
            let mut st = self.inner.m.lock();
            st.procs.push(Proc {
                name: name.to_string(),
                status: Status::Running,
                woken: false,
                inject: 0,
                proto_pending: false,
                io_last: false,
                panicked: None,
            });
            st.procs.len() - 1
        };
        let inner = Arc::clone(&self.inner);
        std::thread::Builder::new()
            .name(name.to_string())
            .spawn(move || {
                ME.with(|m| m.set(Some(idx)));
                MINE.with(|m| *m.borrow_mut() = Some(Arc::clone(&inner)));
                hook("start", &[]);
                let ctx = ProcCtx { inner: Arc::clone(&inner), idx };
                let r = std::panic::catch_unwind(std::panic::AssertUnwindSafe(|| f(ctx)));
                let mut st = inner.m.lock();
                if let Err(e) = r {
                    let msg = e
                        .downcast_ref::<String>()
                        .cloned()
                        .or_else(|| e.downcast_ref::<&str>().map(|s| s.to_string()))
                        .unwrap_or_else(|| "panic".into());
                    st.procs[idx].panicked = Some(msg);
                }
                st.procs[idx].status = Status::Finished;
                st.granted = None;
                inner.cv.notify_all();
            })
            .unwrap();
        // wait until it reached "start"
        let mut st = self.inner.m.lock();
        while !matches!(st.procs[idx].status, Status::AtPoint(..)) {
            self.inner.cv.wait(&mut st);
        }
        idx
    }

    pub fn status(&self, i: usize) -> Status {
        let mut st = self.inner.m.lock();
        Self::promote(&mut st, i);
        st.procs[i].status.clone()
    }

    fn promote(st: &mut State, i: usize) {
        if st.procs[i].status == Status::Parked && st.procs[i].woken {
            st.procs[i].status = Status::AtPoint("resume".into(), vec![]);
        }
    }

    pub fn n(&self) -> usize {
        self.inner.m.lock().procs.len()
    }

    pub fn name(&self, i: usize) -> String {
        self.inner.m.lock().procs[i].name.clone()
    }

    pub fn index_of(&self, name: &str) -> Option<usize> {
        self.inner.m.lock().procs.iter().position(|p| p.name == name)
    }

    pub fn enabled(&self) -> Vec<usize> {
        let mut st = self.inner.m.lock();
        let n = st.procs.len();
        (0..n)
            .filter(|&i| {
                Self::promote(&mut st, i);
                matches!(st.procs[i].status, Status::AtPoint(..))
            })
            .collect()
    }

    pub fn all_finished(&self) -> bool {
        self.inner.m.lock().procs.iter().all(|p| p.status == Status::Finished)
    }

    pub fn panics(&self) -> Vec<(String, String)> {
        self.inner
            .m
            .lock()
            .procs
            .iter()
            .filter_map(|p| p.panicked.clone().map(|m| (p.name.clone(), m)))
            .collect()
    }

    /// Grant process `i` one step (it must be enabled) and wait until it stops again.
    /// Returns the site it was at, and its new status.
    pub fn step(&self, i: usize, inject: i64) -> Result<(String, Status), String> {
        let mut st = self.inner.m.lock();
        Self::promote(&mut st, i);
        let site = match &st.procs[i].status {
            Status::AtPoint(s, _) => s.clone(),
            other => return Err(format!("process {} not enabled: {:?}", st.procs[i].name, other)),
        };
        st.procs[i].inject = inject;
        st.procs[i].status = Status::Running;
        st.granted = Some(i);
        self.inner.cv.notify_all();
        let mut waited = 0u32;
        while st.procs[i].status == Status::Running {
            if self.inner.cv.wait_for(&mut st, Duration::from_secs(5)).timed_out() {
                waited += 1;
                if waited >= 24 {
                    return Err(format!(
                        "machinery timeout: process {} did not reach a hook point within 120 s after {}",
                        st.procs[i].name, site
                    ));
                }
            }
        }
        st.procs[i].inject = 0;
        Self::promote(&mut st, i);
        Ok((site, st.procs[i].status.clone()))
    }

    /// Let all processes run without scheduling (used to finish after a verdict).
    pub fn free_run(&self) {
        let mut st = self.inner.m.lock();
        st.free_run = true;
        self.inner.cv.notify_all();
    }

    pub fn take_log(&self) -> Vec<Event> {
        std::mem::take(&mut self.inner.m.lock().log)
    }

    pub fn log_len(&self) -> usize {
        self.inner.m.lock().log.len()
    }
}

/// Handle given to a process body.
pub struct ProcCtx {
    inner: Arc<Inner>,
    idx: usize,
}

impl ProcCtx {
    pub fn waker(&self) -> Waker {
        Waker::from(Arc::new(ProcWaker { inner: Arc::clone(&self.inner), idx: self.idx }))
    }

    /// Explicit scheduling point in driver code (e.g. between two API calls).
    pub fn point(&self, site: &'static str, args: &[i64]) {
        hook(site, args);
    }

    /// Non-blocking note in the log.
    pub fn note(&self, site: &str, args: &[i64]) {
        let mut st = self.inner.m.lock();
        let p = st.procs[self.idx].name.clone();
        st.log.push(Event { p, site: site.to_string(), args: args.to_vec() });
    }

    /// Called by a poll loop before each poll.
    pub fn begin_poll(&self) {
        let mut st = self.inner.m.lock();
        st.procs[self.idx].proto_pending = false;
        st.procs[self.idx].io_last = false;
        st.procs[self.idx].woken = false;
    }

    /// Called by a poll loop when the future returned Pending.
    /// Protocol pending (a waker-registration site was passed during the poll): park until woken,
    /// then wait for a grant.  I/O-internal pending: wait for the wake inside the step.
    pub fn pending(&self) -> Result<(), String> {
        let mut st = self.inner.m.lock();
        if st.procs[self.idx].proto_pending && !st.procs[self.idx].io_last && !st.free_run {
            st.procs[self.idx].status = Status::Parked;
            st.granted = None;
            self.inner.cv.notify_all();
            while st.granted != Some(self.idx) {
                self.inner.cv.wait(&mut st);
                if st.free_run && st.procs[self.idx].woken {
                    break;
                }
            }
            st.procs[self.idx].status = Status::Running;
            Ok(())
        } else {
            let mut waited = 0;
            while !st.procs[self.idx].woken {
                if self.inner.cv.wait_for(&mut st, Duration::from_secs(1)).timed_out() {
                    waited += 1;
                    if waited > 60 {
                        return Err("i/o-internal pending never woken (60 s)".into());
                    }
                }
            }
            Ok(())
        }
    }
}

/// Poll a stream to its next item under the scheduler.
pub fn next_item<S: futures::Stream + Unpin>(ctx: &ProcCtx, s: &mut S) -> Result<Option<S::Item>, String> {
    use futures::StreamExt;
    let waker = ctx.waker();
    let mut cx = std::task::Context::from_waker(&waker);
    loop {
        ctx.begin_poll();
        match s.poll_next_unpin(&mut cx) {
            std::task::Poll::Ready(x) => return Ok(x),
            std::task::Poll::Pending => ctx.pending()?,
        }
    }
}

/// Poll a future to completion under the scheduler.
pub fn block_on<F: std::future::Future>(ctx: &ProcCtx, f: F) -> Result<F::Output, String> {
    let waker = ctx.waker();
    let mut cx = std::task::Context::from_waker(&waker);
    let mut f = std::pin::pin!(f);
    loop {
        ctx.begin_poll();
        match f.as_mut().poll(&mut cx) {
            std::task::Poll::Ready(x) => return Ok(x),
            std::task::Poll::Pending => ctx.pending()?,
        }
    }
}
