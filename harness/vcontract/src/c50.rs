//! C50 — queries accepted over unbounded inputs keep producing.
//!
//! Each case: {"id", "shape", "sql", "sources":[{"name", "parts": n}], "feed":[{"src": i, "part": p, "rows":[[ts,k,v]..]}], "settings":[[k,v]..]}
//! Sources are StreamingTables (infinite, declared sorted by ts) over pump-fed partition streams that are NEVER closed.
//! The driver runs on a current-thread runtime: after every feed event it polls the root stream and yields to the
//! runtime until quiescence (no output, no source batch consumed for a long run of scheduler turns), then records the
//! point {fed, out (cumulative), ended}.  Output line: {"id","shape","planned", "err", "feed", "points":[...]}.
use arrow::array::{ArrayRef, Int64Array};
use arrow::datatypes::{DataType, Field, Schema, SchemaRef};
use arrow::record_batch::RecordBatch;
use datafusion::catalog::streaming::StreamingTable;
use datafusion::execution::{RecordBatchStream, SendableRecordBatchStream, TaskContext};
use datafusion::physical_plan::streaming::PartitionStream;
use datafusion::physical_plan::{ExecutionPlanProperties, execute_stream};
use datafusion::prelude::*;
use futures::{Stream, StreamExt};
use parking_lot::Mutex;
use serde_json::{Value, json};
use std::collections::VecDeque;
use std::pin::Pin;
use std::sync::Arc;
use std::sync::atomic::{AtomicUsize, Ordering};
use std::task::{Context, Poll, Waker};
use vcommon::sqlexec::batches_to_rows;
use vcommon::util;

#[derive(Debug, Default)]
struct Pump {
    queue: Mutex<VecDeque<RecordBatch>>,
    waker: Mutex<Option<Waker>>,
    taken: AtomicUsize,
}

#[derive(Debug)]
struct PumpPartition {
    schema: SchemaRef,
    pump: Arc<Pump>,
}

struct PumpStream {
    schema: SchemaRef,
    pump: Arc<Pump>,
}

impl Stream for PumpStream {
    type Item = datafusion::common::Result<RecordBatch>;
    fn poll_next(self: Pin<&mut Self>, cx: &mut Context<'_>) -> Poll<Option<Self::Item>> {
        if let Some(b) = self.pump.queue.lock().pop_front() {
            self.pump.taken.fetch_add(1, Ordering::SeqCst);
            return Poll::Ready(Some(Ok(b)));
        }
        *self.pump.waker.lock() = Some(cx.waker().clone());
        Poll::Pending // the input never ends
    }
}

impl RecordBatchStream for PumpStream {
    fn schema(&self) -> SchemaRef {
        Arc::clone(&self.schema)
    }
}

impl PartitionStream for PumpPartition {
    fn schema(&self) -> &SchemaRef {
        &self.schema
    }
    fn execute(&self, _ctx: Arc<TaskContext>) -> SendableRecordBatchStream {
        Box::pin(PumpStream { schema: Arc::clone(&self.schema), pump: Arc::clone(&self.pump) })
    }
}

fn schema() -> SchemaRef {
    Arc::new(Schema::new(vec![
        Field::new("ts", DataType::Int64, false),
        Field::new("k", DataType::Int64, true),
        Field::new("v", DataType::Int64, true),
    ]))
}

fn batch(rows: &[Value]) -> RecordBatch {
    let col = |i: usize| -> ArrayRef {
        Arc::new(Int64Array::from(rows.iter().map(|r| if r[i]["k"] == "n" { None } else { r[i]["v"].as_i64() }).collect::<Vec<_>>()))
    };
    RecordBatch::try_new(schema(), vec![col(0), col(1), col(2)]).unwrap()
}

async fn run_case(case: &Value) -> Value {
    let id = case["id"].clone();
    let shape = case["shape"].clone();
    let mut cfg = SessionConfig::new().with_target_partitions(1).with_batch_size(4);
    if let Some(s) = case["settings"].as_array() {
        for kv in s {
            if let Err(e) = cfg.options_mut().set(kv[0].as_str().unwrap(), kv[1].as_str().unwrap()) {
                return json!({"id": id, "shape": shape, "planned": false, "tool_err": e.to_string()});
            }
        }
    }
    let ctx = SessionContext::new_with_config(cfg);
    let mut pumps: Vec<Vec<Arc<Pump>>> = vec![];
    for s in case["sources"].as_array().unwrap() {
        let n = s["parts"].as_u64().unwrap_or(1) as usize;
        let ps: Vec<Arc<Pump>> = (0..n).map(|_| Arc::new(Pump::default())).collect();
        let parts: Vec<Arc<dyn PartitionStream>> =
            ps.iter().map(|p| Arc::new(PumpPartition { schema: schema(), pump: Arc::clone(p) }) as Arc<dyn PartitionStream>).collect();
        let mut t = StreamingTable::try_new(schema(), parts).unwrap().with_infinite_table(true);
        if s["sorted"].as_bool().unwrap_or(true) {
            t = t.with_sort_order(vec![col("ts").sort(true, false)]);
        }
        ctx.register_table(s["name"].as_str().unwrap(), Arc::new(t)).unwrap();
        pumps.push(ps);
    }
    let plan = match ctx.sql(case["sql"].as_str().unwrap()).await {
        Ok(df) => df.create_physical_plan().await,
        Err(e) => Err(e),
    };
    let plan = match plan {
        Ok(p) => p,
        Err(e) => return json!({"id": id, "shape": shape, "planned": false, "err": e.to_string().chars().take(400).collect::<String>()}),
    };
    let plan_text = format!("{}", datafusion::physical_plan::displayable(plan.as_ref()).indent(false));
    let unbounded = plan.boundedness().is_unbounded();
    let mut stream = match execute_stream(plan, ctx.task_ctx()) {
        Ok(s) => s,
        Err(e) => return json!({"id": id, "shape": shape, "planned": true, "plan": plan_text, "exec_err": e.to_string()}),
    };
    let mut out: Vec<RecordBatch> = vec![];
    let mut ended = false;
    let mut err: Option<String> = None;
    let mut points = vec![];
    let feed = case["feed"].as_array().unwrap();
    let taken = |pumps: &Vec<Vec<Arc<Pump>>>| -> usize { pumps.iter().flatten().map(|p| p.taken.load(Ordering::SeqCst)).sum() };
    for (fi, ev) in feed.iter().enumerate() {
        let p = &pumps[ev["src"].as_u64().unwrap() as usize][ev["part"].as_u64().unwrap_or(0) as usize];
        p.queue.lock().push_back(batch(ev["rows"].as_array().unwrap()));
        if let Some(w) = p.waker.lock().take() {
            w.wake();
        }
        // run to quiescence: progress-based (output produced or a source batch taken resets the counter)
        let mut idle = 0;
        let mut turns = 0usize;
        while idle < 300 && !ended && err.is_none() {
            turns += 1;
            if turns > 2_000_000 {
                return json!({"id": id, "shape": shape, "planned": true, "tool_err": "no quiescence"});
            }
            let before = taken(&pumps);
            match futures::poll!(stream.next()) {
                Poll::Ready(Some(Ok(b))) => {
                    out.push(b);
                    idle = 0;
                    continue;
                }
                Poll::Ready(Some(Err(e))) => err = Some(e.to_string()),
                Poll::Ready(None) => ended = true,
                Poll::Pending => {}
            }
            tokio::task::yield_now().await;
            if taken(&pumps) != before { idle = 0 } else { idle += 1 }
        }
        points.push(json!({"fed": fi + 1, "out": batches_to_rows(&out), "ended": ended, "err": err.is_some()}));
        if err.is_some() {
            break;
        }
    }
    let pending: usize = pumps.iter().flatten().map(|p| p.queue.lock().len()).sum();
    json!({"id": id, "shape": shape, "planned": true, "unbounded": unbounded, "plan": plan_text, "points": points,
           "err": err.unwrap_or_default(), "unconsumed_batches": pending})
}

pub fn main() {
    let inp = util::arg("--in").expect("--in");
    let out = util::arg("--out").expect("--out");
    let cases = util::read_ndjson(&inp);
    let mut res = vec![];
    for c in &cases {
        // a fresh current-thread runtime per case: dropping it cancels the never-ending query
        let rt = tokio::runtime::Builder::new_current_thread().enable_all().build().unwrap();
        let c2 = c.clone();
        let r = std::panic::catch_unwind(std::panic::AssertUnwindSafe(|| rt.block_on(async move { run_case(&c2).await })));
        res.push(match r {
            Ok(v) => v,
            Err(_) => json!({"id": c["id"], "shape": c["shape"], "planned": true, "panic": true}),
        });
        drop(rt);
    }
    util::write_ndjson(&out, &res);
    util::summary(json!({"cases": res.len()}));
}
