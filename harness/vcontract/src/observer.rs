//! Transparent observer node (binding B2 for C28/C29/C30/C53).
//!
//! `instrument(plan)` rebuilds the plan bottom-up with `with_new_children`, putting one
//! `ObserverExec` above EVERY node.  The observer passes schema / properties / statistics through
//! unchanged, and records per executed ⟨node, partition⟩ stream every emitted batch, an error, and
//! whether the stream was polled to its end (`End`).
use arrow::datatypes::SchemaRef;
use arrow::record_batch::RecordBatch;
use datafusion::common::tree_node::TreeNodeRecursion;
use datafusion::common::{Result, Statistics};
use datafusion::execution::{RecordBatchStream, SendableRecordBatchStream, TaskContext};
use datafusion::physical_expr::PhysicalExpr;
use datafusion::physical_plan::execution_plan::CardinalityEffect;
use datafusion::physical_plan::statistics::{ChildStats, StatisticsArgs};
use datafusion::physical_plan::{DisplayAs, DisplayFormatType, ExecutionPlan, PlanProperties};
use futures::Stream;
use parking_lot::Mutex;
use std::fmt;
use std::pin::Pin;
use std::sync::Arc;
use std::task::{Context, Poll};

/// What one executed stream (one call of `execute(partition)`) produced.
#[derive(Debug, Default, Clone)]
pub struct StreamLog {
    pub node: usize,
    pub part: usize,
    pub stream_schema: Option<SchemaRef>,
    pub batches: Vec<RecordBatch>,
    pub ended: bool,
    pub error: Option<String>,
}

#[derive(Debug, Default)]
pub struct Recorder {
    pub streams: Mutex<Vec<StreamLog>>,
}

impl Recorder {
    fn open(&self, node: usize, part: usize, schema: SchemaRef) -> usize {
        let mut g = self.streams.lock();
        g.push(StreamLog { node, part, stream_schema: Some(schema), ..Default::default() });
        g.len() - 1
    }
}

#[derive(Debug)]
pub struct ObserverExec {
    pub inner: Arc<dyn ExecutionPlan>,
    pub id: usize,
    pub rec: Arc<Recorder>,
}

impl DisplayAs for ObserverExec {
    fn fmt_as(&self, _t: DisplayFormatType, f: &mut fmt::Formatter) -> fmt::Result {
        write!(f, "ObserverExec: id={}", self.id)
    }
}

impl ExecutionPlan for ObserverExec {
    fn name(&self) -> &str {
        "ObserverExec"
    }
    fn properties(&self) -> &Arc<PlanProperties> {
        self.inner.properties()
    }
    fn children(&self) -> Vec<&Arc<dyn ExecutionPlan>> {
        vec![&self.inner]
    }
    fn maintains_input_order(&self) -> Vec<bool> {
        vec![true]
    }
    fn benefits_from_input_partitioning(&self) -> Vec<bool> {
        vec![false]
    }
    fn apply_expressions(
        &self,
        _f: &mut dyn FnMut(&Arc<dyn PhysicalExpr>) -> Result<TreeNodeRecursion>,
    ) -> Result<TreeNodeRecursion> {
        Ok(TreeNodeRecursion::Continue)
    }
    #[allow(deprecated)]
    fn with_new_children(self: Arc<Self>, children: Vec<Arc<dyn ExecutionPlan>>) -> Result<Arc<dyn ExecutionPlan>> {
        Ok(Arc::new(ObserverExec { inner: Arc::clone(&children[0]), id: self.id, rec: Arc::clone(&self.rec) }))
    }
    fn downcast_delegate(&self) -> Option<&dyn ExecutionPlan> {
        Some(self.inner.as_ref())
    }
    fn execute(&self, partition: usize, context: Arc<TaskContext>) -> Result<SendableRecordBatchStream> {
        let inner = self.inner.execute(partition, context)?;
        let slot = self.rec.open(self.id, partition, inner.schema());
        Ok(Box::pin(ObservedStream { inner, slot, rec: Arc::clone(&self.rec) }))
    }
    #[allow(deprecated)]
    fn partition_statistics(&self, partition: Option<usize>) -> Result<Arc<Statistics>> {
        self.inner.partition_statistics(partition)
    }
    fn statistics_from_inputs(&self, input_stats: &[Arc<Statistics>], _args: &StatisticsArgs) -> Result<Arc<Statistics>> {
        Ok(Arc::clone(&input_stats[0]))
    }
    fn child_stats_requests(&self, partition: Option<usize>) -> Vec<ChildStats> {
        vec![ChildStats::At(partition)]
    }
    fn cardinality_effect(&self) -> CardinalityEffect {
        CardinalityEffect::Equal
    }
    fn fetch(&self) -> Option<usize> {
        None
    }
}

struct ObservedStream {
    inner: SendableRecordBatchStream,
    slot: usize,
    rec: Arc<Recorder>,
}

impl Stream for ObservedStream {
    type Item = Result<RecordBatch>;
    fn poll_next(mut self: Pin<&mut Self>, cx: &mut Context<'_>) -> Poll<Option<Self::Item>> {
        let r = self.inner.as_mut().poll_next(cx);
        match &r {
            Poll::Ready(Some(Ok(b))) => {
                self.rec.streams.lock()[self.slot].batches.push(b.clone());
            }
            Poll::Ready(Some(Err(e))) => {
                self.rec.streams.lock()[self.slot].error = Some(e.to_string());
            }
            Poll::Ready(None) => {
                self.rec.streams.lock()[self.slot].ended = true;
            }
            Poll::Pending => {}
        }
        r
    }
}

impl RecordBatchStream for ObservedStream {
    fn schema(&self) -> SchemaRef {
        self.inner.schema()
    }
}

/// One node of the plan: the original (un-instrumented) node whose declared facts are read, and the
/// re-parented copy that is executed under the observers (its `metrics()` are the ones the run fills).
pub struct NodeRef {
    pub id: usize,
    pub parent: Option<usize>,
    pub original: Arc<dyn ExecutionPlan>,
    pub executed: Arc<dyn ExecutionPlan>,
}

/// Returns the instrumented root and the node table (pre-order ids).
#[allow(deprecated)]
pub fn instrument(plan: &Arc<dyn ExecutionPlan>, rec: &Arc<Recorder>) -> Result<(Arc<dyn ExecutionPlan>, Vec<NodeRef>)> {
    fn go(
        plan: &Arc<dyn ExecutionPlan>,
        parent: Option<usize>,
        rec: &Arc<Recorder>,
        nodes: &mut Vec<Option<NodeRef>>,
    ) -> Result<Arc<dyn ExecutionPlan>> {
        let id = nodes.len();
        nodes.push(None);
        let mut kids = vec![];
        for c in plan.children() {
            kids.push(go(c, Some(id), rec, nodes)?);
        }
        let executed = if kids.is_empty() { Arc::clone(plan) } else { Arc::clone(plan).with_new_children(kids)? };
        nodes[id] = Some(NodeRef { id, parent, original: Arc::clone(plan), executed: Arc::clone(&executed) });
        Ok(Arc::new(ObserverExec { inner: executed, id, rec: Arc::clone(rec) }))
    }
    let mut nodes = vec![];
    let root = go(plan, None, rec, &mut nodes)?;
    Ok((root, nodes.into_iter().map(|n| n.unwrap()).collect()))
}
