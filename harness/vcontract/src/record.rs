//! The shared recorder: one run = one query under one session configuration.
//!
//! Input line: {"id", "sql", "tables":[{name, cols, rows, sort?:[{"i","asc","nf"}]}],
//!              "cfg": {"name", "partitions", "batch_rows", "settings":[[k,v]..]}}
//! Output line: {"id","cfg","status","nodes":[...],"result":[rows],"rust_bad":{"C28":[..],..},...}
use crate::facts::{self, NodeData};
use crate::observer::{Recorder, instrument};
use arrow::array::Array;
use arrow::compute::{LexicographicalComparator, SortColumn, SortOptions, concat_batches};
use datafusion::datasource::MemTable;
use datafusion::logical_expr::SortExpr;
use datafusion::physical_plan::{ExecutionPlan, collect_partitioned, displayable};
use datafusion::prelude::*;
use serde_json::{Value, json};
use std::sync::Arc;
use vcommon::sqlexec::{ExecOpts, batches_to_rows, session, table_partitions};
use vcommon::util;

pub fn opts_of(cfg: &Value) -> ExecOpts {
    let mut o = ExecOpts::default();
    o.partitions = cfg["partitions"].as_u64().unwrap_or(1) as usize;
    o.batch_rows = cfg["batch_rows"].as_u64().unwrap_or(0) as usize;
    o.utf8view = cfg["utf8view"].as_bool().unwrap_or(false);
    if let Some(s) = cfg["settings"].as_array() {
        for kv in s {
            o.settings.push((kv[0].as_str().unwrap().to_string(), kv[1].as_str().unwrap().to_string()));
        }
    }
    o
}

/// MemTables; a table with a `sort` entry is declared sorted (`with_sort_order`) after the harness has
/// verified with arrow's comparator that every partition really is sorted that way.
pub async fn register(ctx: &SessionContext, case: &Value, opts: &ExecOpts) -> Result<(), String> {
    let source = case["cfg"]["source"].as_str().unwrap_or("mem").to_string();
    for t in case["tables"].as_array().unwrap() {
        let (schema, parts) = table_partitions(t, opts);
        let (schema, parts) = if case["cfg"]["wide"].as_bool().unwrap_or(false) { widen(schema, parts)? } else { (schema, parts) };
        let sort = t.get("sort").and_then(|s| s.as_array()).cloned().unwrap_or_default();
        if source.starts_with("parquet") {
            // one Parquet file per table partition under <dir>/<run>/<table>/, registered as a listing table
            use datafusion::parquet::arrow::ArrowWriter;
            use datafusion::parquet::file::properties::{EnabledStatistics, WriterProperties};
            let base = util::arg("--dir").ok_or("parquet source needs --dir")?;
            let run: String = case["id"].as_str().unwrap().chars().map(|c| if c.is_ascii_alphanumeric() { c } else { '_' }).collect();
            let dir = format!("{base}/{run}/{}", t["name"].as_str().unwrap());
            std::fs::create_dir_all(&dir).map_err(|e| e.to_string())?;
            let stats = match source.as_str() {
                "parquet_nostats" => EnabledStatistics::None,
                "parquet_page" => EnabledStatistics::Page,
                _ => EnabledStatistics::Chunk,
            };
            let rg = case["cfg"]["row_group"].as_u64().unwrap_or(1024) as usize;
            for (i, p) in parts.iter().enumerate() {
                let f = std::fs::File::create(format!("{dir}/part-{i}.parquet")).map_err(|e| e.to_string())?;
                let props = WriterProperties::builder().set_statistics_enabled(stats).set_max_row_group_size(rg).build();
                let mut w = ArrowWriter::try_new(f, Arc::clone(&schema), Some(props)).map_err(|e| e.to_string())?;
                for b in p {
                    w.write(b).map_err(|e| e.to_string())?;
                }
                w.close().map_err(|e| e.to_string())?;
            }
            let mut o = ParquetReadOptions::default();
            if !sort.is_empty() {
                let order: Vec<SortExpr> = sort
                    .iter()
                    .map(|k| col(schema.field(k["i"].as_u64().unwrap() as usize - 1).name().clone()).sort(k["asc"].as_bool().unwrap(), k["nf"].as_bool().unwrap()))
                    .collect();
                o = o.file_sort_order(vec![order]);
            }
            ctx.register_parquet(t["name"].as_str().unwrap(), &dir, o).await.map_err(|e| e.to_string())?;
            continue;
        }
        let sort_exprs = |schema: &arrow::datatypes::SchemaRef| -> Vec<SortExpr> {
            sort.iter()
                .map(|k| col(schema.field(k["i"].as_u64().unwrap() as usize - 1).name().clone()).sort(k["asc"].as_bool().unwrap(), k["nf"].as_bool().unwrap()))
                .collect()
        };
        if source == "csv" || source == "json" || source == "arrow" {
            // one file per table partition, registered as a listing table with the explicit schema
            let base = util::arg("--dir").ok_or("file source needs --dir")?;
            let run: String = case["id"].as_str().unwrap().chars().map(|c| if c.is_ascii_alphanumeric() { c } else { '_' }).collect();
            let dir = format!("{base}/{run}/{}", t["name"].as_str().unwrap());
            std::fs::create_dir_all(&dir).map_err(|e| e.to_string())?;
            for (i, p) in parts.iter().enumerate() {
                let f = std::fs::File::create(format!("{dir}/part-{i}.{source}")).map_err(|e| e.to_string())?;
                match source.as_str() {
                    "csv" => {
                        let mut w = arrow::csv::WriterBuilder::new().with_header(true).build(f);
                        for b in p {
                            w.write(b).map_err(|e| e.to_string())?;
                        }
                    }
                    "json" => {
                        let mut w = arrow::json::LineDelimitedWriter::new(f);
                        for b in p {
                            w.write(b).map_err(|e| e.to_string())?;
                        }
                        w.finish().map_err(|e| e.to_string())?;
                    }
                    _ => {
                        let mut w = arrow::ipc::writer::FileWriter::try_new(f, &schema).map_err(|e| e.to_string())?;
                        for b in p {
                            w.write(b).map_err(|e| e.to_string())?;
                        }
                        w.finish().map_err(|e| e.to_string())?;
                    }
                }
            }
            let name = t["name"].as_str().unwrap();
            let order = if sort.is_empty() { vec![] } else { vec![sort_exprs(&schema)] };
            match source.as_str() {
                "csv" => {
                    let o = CsvReadOptions::new().schema(&schema).has_header(true).file_extension(".csv").file_sort_order(order);
                    ctx.register_csv(name, &dir, o).await.map_err(|e| e.to_string())?;
                }
                "json" => {
                    let o = JsonReadOptions::default().schema(&schema).file_extension(".json").file_sort_order(order);
                    ctx.register_json(name, &dir, o).await.map_err(|e| e.to_string())?;
                }
                _ => {
                    let o = datafusion::datasource::file_format::options::ArrowReadOptions::default().schema(&schema);
                    ctx.register_arrow(name, &dir, o).await.map_err(|e| e.to_string())?;
                }
            }
            continue;
        }
        if source == "streaming" {
            // a StreamingTable DECLARED infinite (so the planner takes its streaming paths: PartialSortExec,
            // SymmetricHashJoinExec, BoundedWindowAggExec input-order modes ...) over partition streams that do end
            use datafusion::catalog::streaming::StreamingTable;
            use datafusion::physical_plan::streaming::PartitionStream;
            let ps: Vec<Arc<dyn PartitionStream>> = parts
                .iter()
                .map(|p| Arc::new(FinitePartition { schema: Arc::clone(&schema), batches: p.clone() }) as Arc<dyn PartitionStream>)
                .collect();
            let mut st = StreamingTable::try_new(Arc::clone(&schema), ps).map_err(|e| e.to_string())?.with_infinite_table(true);
            if !sort.is_empty() {
                st = st.with_sort_order(sort_exprs(&schema));
            }
            ctx.register_table(t["name"].as_str().unwrap(), Arc::new(st)).map_err(|e| e.to_string())?;
            continue;
        }
        // (VCONTRACT_LIE: development-only switch used to demonstrate that a false declaration is detected)
        if !sort.is_empty() && std::env::var("VCONTRACT_LIE").is_err() {
            for p in &parts {
                let b = concat_batches(&schema, p.iter()).map_err(|e| e.to_string())?;
                let cols: Vec<SortColumn> = sort
                    .iter()
                    .map(|k| SortColumn {
                        values: Arc::clone(b.column(k["i"].as_u64().unwrap() as usize - 1)),
                        options: Some(SortOptions { descending: !k["asc"].as_bool().unwrap(), nulls_first: k["nf"].as_bool().unwrap() }),
                    })
                    .collect();
                let cmp = LexicographicalComparator::try_new(&cols).map_err(|e| e.to_string())?;
                for i in 1..b.num_rows() {
                    if cmp.compare(i - 1, i) == std::cmp::Ordering::Greater {
                        return Err(format!("HARNESS: table {} is not sorted as declared", t["name"]));
                    }
                }
            }
        }
        let mut mt = MemTable::try_new(Arc::clone(&schema), parts).map_err(|e| e.to_string())?;
        if !sort.is_empty() {
            let order: Vec<SortExpr> = sort
                .iter()
                .map(|k| {
                    let name = schema.field(k["i"].as_u64().unwrap() as usize - 1).name().clone();
                    col(name).sort(k["asc"].as_bool().unwrap(), k["nf"].as_bool().unwrap())
                })
                .collect();
            mt = mt.with_sort_order(vec![order]);
        }
        ctx.register_table(t["name"].as_str().unwrap(), Arc::new(mt)).map_err(|e| e.to_string())?;
    }
    Ok(())
}

/// Session; with `memory_limit` (bytes) a bounded memory pool so that sorts / aggregations spill.
fn session_rt(opts: &ExecOpts, cfg: &Value) -> Result<SessionContext, String> {
    let Some(limit) = cfg["memory_limit"].as_u64() else { return session(opts) };
    let mut sc = SessionConfig::new();
    for (k, v) in &opts.settings {
        sc.options_mut().set(k, v).map_err(|e| format!("config {k}={v}: {e}"))?;
    }
    let rt = datafusion::execution::runtime_env::RuntimeEnvBuilder::new()
        .with_memory_limit(limit as usize, 1.0)
        .build_arc()
        .map_err(|e| e.to_string())?;
    Ok(SessionContext::new_with_config_rt(sc, rt))
}

/// EXPLAIN ANALYZE rendering: a third physical plan of the query is instrumented, wrapped in the real AnalyzeExec
/// and run; per node the rendered `output_rows=` is returned together with what the observer above it counted.
async fn analyze_run(lp: &datafusion::logical_expr::LogicalPlan, state: &datafusion::execution::SessionState, task: Arc<datafusion::execution::TaskContext>) -> Result<Vec<Value>, String> {
    use datafusion::physical_plan::analyze::AnalyzeExec;
    let plan = state.query_planner().create_physical_plan(lp, state).await.map_err(|e| e.to_string())?;
    let rec = Arc::new(Recorder::default());
    let (root, nodes) = instrument(&plan, &rec).map_err(|e| e.to_string())?;
    let schema = Arc::new(arrow::datatypes::Schema::new(vec![
        arrow::datatypes::Field::new("plan_type", arrow::datatypes::DataType::Utf8, false),
        arrow::datatypes::Field::new("plan", arrow::datatypes::DataType::Utf8, false),
    ]));
    let an: Arc<dyn ExecutionPlan> = Arc::new(AnalyzeExec::builder(false, false, root, schema).build());
    let out = datafusion::physical_plan::collect(an, task).await.map_err(|e| e.to_string())?;
    let mut text = String::new();
    for b in &out {
        let c = b.column(1).as_any().downcast_ref::<arrow::array::StringArray>().ok_or("analyze output column")?;
        for i in 0..c.len() {
            text.push_str(c.value(i));
            text.push('\n');
        }
    }
    let logs = rec.streams.lock().clone();
    let mut res = vec![];
    let mut pending: Option<usize> = None;
    for line in text.lines() {
        let t = line.trim_start();
        if let Some(rest) = t.strip_prefix("ObserverExec: id=") {
            let id: usize = rest.split(|c: char| !c.is_ascii_digit()).next().unwrap_or("").parse().map_err(|_| format!("bad observer line {t}"))?;
            pending = Some(id);
        } else if let Some(id) = pending.take() {
            let rendered = t.split("output_rows=").nth(1).map(|r| r.split(|c| c == ',' || c == ']').next().unwrap_or("").trim().to_string());
            let np = nodes[id].original.properties().partitioning.partition_count();
            let mine: Vec<&crate::observer::StreamLog> = logs.iter().filter(|l| l.node == id).collect();
            let parts: std::collections::HashSet<usize> = mine.iter().map(|l| l.part).collect();
            let full = (0..np).all(|p| parts.contains(&p)) && mine.iter().all(|l| l.ended && l.error.is_none());
            let emitted: usize = mine.iter().flat_map(|l| l.batches.iter()).map(|b| b.num_rows()).sum();
            // counts below 1000 are rendered as plain digits; larger ones are rounded ("1.23 K") and not comparable
            let exact: i64 = rendered.as_ref().and_then(|r| if r.chars().all(|c| c.is_ascii_digit()) { r.parse().ok() } else { None }).unwrap_or(-1);
            res.push(json!({"id": id, "name": nodes[id].original.name(), "has": exact >= 0, "rv": exact, "rendered": rendered.unwrap_or_default(),
                            "emitted": emitted, "full": full}));
        }
    }
    if res.len() != nodes.len() {
        return Err(format!("EXPLAIN ANALYZE rendering has {} instrumented nodes, plan has {}", res.len(), nodes.len()));
    }
    Ok(res)
}

/// Extra columns derived from the first (BIGINT) column in other physical types, so that file statistics, schema
/// conformance and type-specialised operator paths see Int32 / Float64 / Date32 / Timestamp / Decimal128 / LargeUtf8 / Binary.
fn widen(
    schema: arrow::datatypes::SchemaRef,
    parts: Vec<Vec<arrow::record_batch::RecordBatch>>,
) -> Result<(arrow::datatypes::SchemaRef, Vec<Vec<arrow::record_batch::RecordBatch>>), String> {
    use arrow::datatypes::{DataType, Field, TimeUnit};
    let targets = [
        ("w_i32", DataType::Int32),
        ("w_f64", DataType::Float64),
        ("w_date", DataType::Date32),
        ("w_ts", DataType::Timestamp(TimeUnit::Microsecond, None)),
        ("w_dec", DataType::Decimal128(10, 2)),
        ("w_lstr", DataType::LargeUtf8),
        ("w_bin", DataType::Binary),
    ];
    let mut fields: Vec<Field> = schema.fields().iter().map(|f| f.as_ref().clone()).collect();
    for (n, t) in &targets {
        fields.push(Field::new(*n, t.clone(), true));
    }
    let wide = Arc::new(arrow::datatypes::Schema::new(fields));
    let mut out = vec![];
    for p in parts {
        let mut bs = vec![];
        for b in p {
            let mut cols = b.columns().to_vec();
            let base = Arc::clone(b.column(0));
            for (_, t) in &targets {
                let c = match t {
                    DataType::LargeUtf8 | DataType::Binary => {
                        let s = arrow::compute::cast(&base, &DataType::Utf8).map_err(|e| e.to_string())?;
                        arrow::compute::cast(&s, t).map_err(|e| e.to_string())?
                    }
                    DataType::Date32 => {
                        let i = arrow::compute::cast(&base, &DataType::Int32).map_err(|e| e.to_string())?;
                        arrow::compute::cast(&i, t).map_err(|e| e.to_string())?
                    }
                    _ => arrow::compute::cast(&base, t).map_err(|e| e.to_string())?,
                };
                cols.push(c);
            }
            bs.push(arrow::record_batch::RecordBatch::try_new(Arc::clone(&wide), cols).map_err(|e| e.to_string())?);
        }
        out.push(bs);
    }
    Ok((wide, out))
}

#[derive(Debug)]
struct FinitePartition {
    schema: arrow::datatypes::SchemaRef,
    batches: Vec<arrow::record_batch::RecordBatch>,
}

impl datafusion::physical_plan::streaming::PartitionStream for FinitePartition {
    fn schema(&self) -> &arrow::datatypes::SchemaRef {
        &self.schema
    }
    fn execute(&self, _ctx: Arc<datafusion::execution::TaskContext>) -> datafusion::execution::SendableRecordBatchStream {
        Box::pin(datafusion::physical_plan::memory::MemoryStream::try_new(self.batches.clone(), Arc::clone(&self.schema), None).unwrap())
    }
}

fn is_oom(e: &str) -> bool {
    e.contains("Resources exhausted") || e.contains("Not enough memory")
}

fn sorted_strings(rows: &[Value]) -> Vec<String> {
    let mut v: Vec<String> = rows.iter().map(|r| r.to_string()).collect();
    v.sort();
    v
}

fn type_token(t: &arrow::datatypes::DataType) -> String {
    use arrow::datatypes::DataType::*;
    match t {
        Dictionary(_, v) => type_token(v),
        Utf8View | LargeUtf8 => "Utf8".into(),
        BinaryView | LargeBinary => "Binary".into(),
        other => format!("{other}"),
    }
}

async fn run_case(case: Value) -> Value {
    let v = run_case_inner(&case).await;
    if matches!(case["cfg"]["source"].as_str().unwrap_or("mem"), "parquet" | "parquet_page" | "parquet_nostats" | "csv" | "json" | "arrow") {
        if let Some(base) = util::arg("--dir") {
            let run: String = case["id"].as_str().unwrap().chars().map(|c| if c.is_ascii_alphanumeric() { c } else { '_' }).collect();
            let _ = std::fs::remove_dir_all(format!("{base}/{run}"));
        }
    }
    v
}

async fn run_case_inner(case: &Value) -> Value {
    let id = case["id"].clone();
    let cfgname = case["cfg"]["name"].clone();
    let fail = |status: &str, e: String| json!({"id": id, "cfg": cfgname, "status": status, "err": e});
    let opts = opts_of(&case["cfg"]);
    let ctx = match session_rt(&opts, &case["cfg"]) {
        Ok(c) => c,
        Err(e) => return fail("tool_err", e),
    };
    if let Err(e) = register(&ctx, case, &opts).await {
        return fail("tool_err", e);
    }
    let sql = case["sql"].as_str().unwrap();
    let df = match ctx.sql(sql).await {
        Ok(d) => d,
        Err(e) => return fail("plan_err", e.to_string()),
    };
    let logical: Vec<(String, bool)> = df.schema().fields().iter().map(|f| (type_token(f.data_type()), f.is_nullable())).collect();
    // two independent physical plans of the same query: A runs un-instrumented, B under observers
    let state = ctx.state();
    let lp = match state.optimize(df.logical_plan()) {
        Ok(p) => p,
        Err(e) => return fail("plan_err", e.to_string()),
    };
    let plan_a = match state.query_planner().create_physical_plan(&lp, &state).await {
        Ok(p) => p,
        Err(e) => return fail("plan_err", e.to_string()),
    };
    let plan_b = match state.query_planner().create_physical_plan(&lp, &state).await {
        Ok(p) => p,
        Err(e) => return fail("plan_err", e.to_string()),
    };
    let plan_text = format!("{}", displayable(plan_b.as_ref()).indent(false));
    let base = collect_partitioned(Arc::clone(&plan_a), ctx.task_ctx()).await;
    let rec = Arc::new(Recorder::default());
    let (root, nodes) = match instrument(&plan_b, &rec) {
        Ok(x) => x,
        Err(e) => return fail("tool_err", format!("instrument: {e}")),
    };
    // declared facts are read BEFORE execution, from the nodes the optimiser produced
    let declared: Vec<facts::Declared> = nodes.iter().map(facts::declare).collect();
    let details: Vec<String> = nodes.iter().map(|n| format!("{}", displayable(n.original.as_ref()).one_line()).trim().chars().take(4000).collect()).collect();
    let inst = collect_partitioned(Arc::clone(&root), ctx.task_ctx()).await;
    let (base, inst) = match (base, inst) {
        (Ok(b), Ok(i)) => (b, i),
        (Err(e), Err(_)) => return fail("exec_err", e.to_string()),
        // under a bounded memory pool resource exhaustion depends on scheduling: not an inertness failure
        (Ok(_), Err(e)) | (Err(e), Ok(_)) if case["cfg"]["memory_limit"].is_u64() && is_oom(&e.to_string()) => {
            return fail("exec_err", format!("resource exhaustion in one of the two runs: {e}"));
        }
        (Ok(_), Err(e)) => return fail("inert_err", format!("only the instrumented plan failed: {e}")),
        (Err(e), Ok(_)) => return fail("inert_err", format!("only the un-instrumented plan failed: {e}")),
    };
    let analyze = if case["cfg"]["analyze"].as_bool().unwrap_or(false) {
        match analyze_run(&lp, &state, ctx.task_ctx()).await {
            Ok(v) => json!(v),
            Err(e) if case["cfg"]["memory_limit"].is_u64() && is_oom(&e) => json!([]),
            Err(e) => return fail("tool_err", format!("analyze: {e}")),
        }
    } else {
        json!([])
    };
    let flat = |v: &Vec<Vec<arrow::record_batch::RecordBatch>>| -> Vec<Value> { v.iter().flat_map(|p| batches_to_rows(p)).collect() };
    let (base_rows, inst_rows) = (flat(&base), flat(&inst));
    let inert = sorted_strings(&base_rows) == sorted_strings(&inst_rows);
    let logs = rec.streams.lock().clone();
    let kids: Vec<Vec<usize>> = nodes.iter().map(|n| nodes.iter().filter(|c| c.parent == Some(n.id)).map(|c| c.id).collect()).collect();
    let nds: Vec<NodeData> = nodes.iter().zip(declared).map(|(n, d)| facts::collect_node(n, d, &logs, &kids[n.id])).collect();
    let any_fetch = nds.iter().any(|n| n.fetch || n.name.contains("Limit"));
    let mut rb = json!({"C28": [], "C29": [], "C30": [], "C53": []});
    for nd in &nds {
        rb["C28"].as_array_mut().unwrap().extend(facts::direct_c28(nd));
        rb["C29"].as_array_mut().unwrap().extend(facts::direct_c29(nd));
        rb["C30"].as_array_mut().unwrap().extend(facts::direct_c30(nd));
        rb["C30"].as_array_mut().unwrap().extend(facts::direct_c30_fns(nd));
        rb["C53"].as_array_mut().unwrap().extend(facts::direct_c53(nd));
    }
    // logical (DataFrame) schema vs physical root schema, modulo encodings
    let root_schema: Vec<(String, bool)> = plan_b.schema().fields().iter().map(|f| (type_token(f.data_type()), f.is_nullable())).collect();
    if logical.len() != root_schema.len() {
        rb["C30"].as_array_mut().unwrap().push(facts::bad(0, -1, "logical", 0));
    } else {
        for c in 0..logical.len() {
            if logical[c].0 != root_schema[c].0 {
                rb["C30"].as_array_mut().unwrap().push(facts::bad(0, -1, "logical", c + 1));
            }
        }
    }
    let mut njs: Vec<Value> = nds.iter().map(facts::node_json).collect();
    if case["cfg"]["norows"].as_bool().unwrap_or(false) {
        // large-input runs (spilling): keep the batch shapes and counts, drop the row values from the log
        for j in njs.iter_mut() {
            if let Some(ss) = j["streams"].as_array_mut() {
                for s in ss {
                    if let Some(bs) = s["batches"].as_array_mut() {
                        for b in bs {
                            b["rows"] = json!([]);
                        }
                    }
                }
            }
        }
    }
    for (j, d) in njs.iter_mut().zip(details) {
        j["detail"] = json!(d);
    }
    json!({"id": id, "cfg": cfgname, "status": "ok", "inert": inert, "has_fetch": any_fetch, "plan": plan_text,
           "logical": logical.iter().map(|(t, n)| json!({"t": t, "n": n})).collect::<Vec<_>>(),
           "root": root_schema.iter().map(|(t, n)| json!({"t": t, "n": n})).collect::<Vec<_>>(),
           "nodes": njs, "result": if case["cfg"]["norows"].as_bool().unwrap_or(false) { vec![] } else { base_rows }, "rust_bad": rb, "analyze": analyze})
}

pub fn main() {
    let inp = util::arg("--in").expect("--in");
    let out = util::arg("--out").expect("--out");
    let cases = util::read_ndjson(&inp);
    let rt = tokio::runtime::Builder::new_multi_thread().worker_threads(4).enable_all().build().unwrap();
    let mut results: Vec<Value> = vec![];
    let mut counts = std::collections::BTreeMap::<String, usize>::new();
    use futures::StreamExt;
    let outs: Vec<Value> = rt.block_on(async {
        futures::stream::iter(cases.iter().cloned())
            .map(|c| async move {
                let (id, cfg) = (c["id"].clone(), c["cfg"]["name"].clone());
                match tokio::spawn(run_case(c)).await {
                    Ok(v) => v,
                    Err(e) => json!({"id": id, "cfg": cfg, "status": "panic", "err": format!("{e}")}),
                }
            })
            .buffered(8)
            .collect()
            .await
    });
    for v in outs {
        *counts.entry(v["status"].as_str().unwrap_or("?").to_string()).or_insert(0) += 1;
        results.push(v);
    }
    util::write_ndjson(&out, &results);
    util::summary(json!({"cases": cases.len(), "status": counts}));
}
