//! C53, spill metrics: histories of the public spill API (SpillManager::create_in_progress_file / append_batch /
//! finish / spill_record_batch_and_finish) on the real code; every finished file is read back and its rows
//! counted; the SpillMetrics counters are read after every history.
//! Output line: {"id", "files":[{"appended":[rows..], "some": bool, "read_back": rows}], "spilled_rows", "spill_count"}
use arrow::array::{Int64Array, StringArray, StringViewArray};
use arrow::datatypes::{DataType, Field, Schema};
use arrow::record_batch::RecordBatch;
use datafusion::execution::runtime_env::RuntimeEnvBuilder;
use datafusion::physical_plan::metrics::{ExecutionPlanMetricsSet, SpillMetrics};
use datafusion::physical_plan::spill::SpillManager;
use futures::StreamExt;
use rand::rngs::StdRng;
use rand::{Rng, SeedableRng};
use serde_json::{Value, json};
use std::sync::Arc;
use vcommon::util;

pub fn main() {
    let out = util::arg("--out").expect("--out");
    let n: usize = util::arg("--n").and_then(|s| s.parse().ok()).unwrap_or(100);
    let mut rng = StdRng::seed_from_u64(util::seed() * 31 + 7);
    let rt = tokio::runtime::Builder::new_multi_thread().worker_threads(2).enable_all().build().unwrap();
    let schema = Arc::new(Schema::new(vec![
        Field::new("a", DataType::Int64, true),
        Field::new("s", DataType::Utf8, true),
        Field::new("v", DataType::Utf8View, true),
    ]));
    let mut res: Vec<Value> = vec![];
    for h in 0..n {
        let env = RuntimeEnvBuilder::new().build_arc().unwrap();
        let ms = ExecutionPlanMetricsSet::new();
        let metrics = SpillMetrics::new(&ms, 0);
        // spill file variants: compression codec and read-buffer capacity
        let comp = ["uncompressed", "lz4_frame", "zstd"][h % 3];
        let mgr = SpillManager::new(env, metrics.clone(), Arc::clone(&schema))
            .with_compression_type(comp.parse().unwrap())
            .with_batch_read_buffer_capacity(1 + h % 3);
        let nfiles = rng.random_range(1..=3);
        let mut files = vec![];
        let mut err: Option<String> = None;
        for _ in 0..nfiles {
            let nb = rng.random_range(0..=4);
            let sizes: Vec<usize> = (0..nb).map(|_| if rng.random_range(0..5) == 0 { 0 } else { rng.random_range(1..=7) }).collect();
            let batches: Vec<RecordBatch> = sizes
                .iter()
                .map(|k| {
                    let a: Vec<Option<i64>> = (0..*k).map(|i| if i % 3 == 2 { None } else { Some(i as i64) }).collect();
                    let s: Vec<Option<&str>> = (0..*k).map(|i| if i % 2 == 0 { Some("ab") } else { None }).collect();
                    // string views: short (inline) and long (buffer-backed) values, so view buffers are compacted on write
                    let v: Vec<Option<String>> = (0..*k).map(|i| match i % 3 { 0 => Some("x".to_string()), 1 => Some("a-long-string-value-over-twelve-bytes".repeat(1 + i % 2)), _ => None }).collect();
                    let full = RecordBatch::try_new(
                        Arc::clone(&schema),
                        vec![Arc::new(Int64Array::from(a)), Arc::new(StringArray::from(s)), Arc::new(StringViewArray::from(v))],
                    )
                    .unwrap();
                    // sometimes a slice of a larger batch (offsets / shared buffers)
                    if *k >= 3 && h % 2 == 1 { full.slice(1, *k - 1) } else { full }
                })
                .collect();
            let sizes: Vec<usize> = batches.iter().map(|b| b.num_rows()).collect();
            let atomic = rng.random_range(0..2) == 0;
            let file = if atomic {
                mgr.spill_record_batch_and_finish(&batches, "verif")
            } else {
                (|| {
                    let mut f = mgr.create_in_progress_file("verif")?;
                    for b in &batches {
                        f.append_batch(b)?;
                    }
                    f.finish()
                })()
            };
            match file {
                Ok(Some(f)) => {
                    let back: Result<usize, String> = rt.block_on(async {
                        let mut st = mgr.read_spill_as_stream(f, None).map_err(|e| e.to_string())?;
                        let mut rows = 0;
                        while let Some(b) = st.next().await {
                            rows += b.map_err(|e| e.to_string())?.num_rows();
                        }
                        Ok(rows)
                    });
                    match back {
                        Ok(r) => files.push(json!({"appended": sizes, "some": true, "read_back": r, "atomic": atomic})),
                        Err(e) => err = Some(e),
                    }
                }
                Ok(None) => files.push(json!({"appended": sizes, "some": false, "read_back": 0, "atomic": atomic})),
                Err(e) => err = Some(e.to_string()),
            }
        }
        res.push(json!({"id": format!("spill-{h}"), "files": files, "err": err.is_some(), "msg": err.unwrap_or_default(),
                        "compression": comp,
                        "spilled_rows": metrics.spilled_rows.value(), "spill_count": metrics.spill_file_count.value()}));
    }
    util::write_ndjson(&out, &res);
    util::summary(json!({"histories": res.len()}));
}
