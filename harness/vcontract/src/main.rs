fn main() { println!("stub"); }
