//! Operator-contract drivers (DESIGN.md §7.4 C28/C29/C30, §7.2 C53/C50).
//! `vcontract record --in cases.ndjson --out runs.ndjson` plans every case, wraps every node of the
//! optimised physical plan in a transparent observer, executes, and writes one event log per run.
mod c50;
mod facts;
mod observer;
mod record;
mod spill;

fn main() {
    let a: Vec<String> = std::env::args().collect();
    match a.get(1).map(|s| s.as_str()).unwrap_or("") {
        "record" => record::main(),
        "spill" => spill::main(),
        "c50" => c50::main(),
        _ => {
            eprintln!("usage: vcontract record --in cases.ndjson --out runs.ndjson");
            std::process::exit(2);
        }
    }
}
