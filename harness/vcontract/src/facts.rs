//! Declared facts of a plan node + observed data -> event-log JSON (for OperatorContract/ContractTrace)
//! and the direct re-check of every contract clause in Rust (on ScalarValues, independent of the JSON
//! encoding), used to confirm a TLC rejection before a VIOLATION is raised.
use crate::observer::{NodeRef, StreamLog};
use arrow::array::{Array, ArrayRef};
use arrow::datatypes::DataType;
use arrow::record_batch::RecordBatch;
use datafusion::common::stats::Precision;
use datafusion::common::{ScalarValue, Statistics};
use datafusion::physical_expr::expressions::Column;
use datafusion::physical_expr::{AcrossPartitions, Partitioning, PhysicalExpr};
use datafusion::physical_plan::statistics::{StatisticsArgs, StatisticsContext};
use datafusion::physical_plan::{ExecutionPlan, ExecutionPlanProperties};
use serde_json::{Value, json};
use std::cmp::Ordering;
use std::collections::{BTreeMap, HashMap, HashSet};
use std::sync::Arc;
use vcommon::sqlexec::STR_POOL;

pub struct Ord1 {
    pub i: usize, // 1-based row position
    pub desc: bool,
    pub nf: bool,
}

pub struct Const1 {
    pub i: usize,
    pub uniform: bool,
    pub val: Option<ScalarValue>,
}

#[derive(Clone)]
pub struct Stat1 {
    pub part: i64, // -1 = whole node
    pub rows: Option<usize>,
    /// per column: exact nulls, min, max, sum, ndv
    pub cols: Vec<(Option<usize>, Option<ScalarValue>, Option<ScalarValue>, Option<ScalarValue>, Option<usize>)>,
    pub via: &'static str,
}

pub struct BatchData {
    pub n: usize,
    pub types: Vec<String>,
    pub nulls: Vec<bool>,
    pub field_nullable: Vec<bool>,
    pub shape_ok: bool,
    pub grid: Vec<Vec<ScalarValue>>, // rows x positions
}

pub struct StreamData {
    pub part: usize,
    pub ended: bool,
    pub err: bool,
    pub batches: Vec<BatchData>,
}

impl StreamData {
    pub fn rows(&self) -> Vec<&Vec<ScalarValue>> {
        self.batches.iter().flat_map(|b| b.grid.iter()).collect()
    }
    pub fn nrows(&self) -> usize {
        self.batches.iter().map(|b| b.n).sum()
    }
    pub fn shape_ok(&self) -> bool {
        self.batches.iter().all(|b| b.shape_ok)
    }
}

pub struct NodeData {
    pub id: usize,
    pub parent: i64,
    pub name: String,
    pub np: usize,
    pub schema: Vec<(String, bool)>,
    pub w: usize,
    pub expr_text: Vec<String>,
    pub pos_types: Vec<Option<DataType>>,
    pub ords: Vec<Vec<Ord1>>,
    pub outord: Vec<Ord1>,
    pub classes: Vec<Vec<usize>>,
    pub consts: Vec<Const1>,
    pub hash: Vec<usize>,
    pub part_text: String,
    pub stats: Vec<Stat1>,
    pub streams: Vec<StreamData>,
    pub full: bool,
    pub metric_rows: Option<usize>,
    pub metric_part_rows: BTreeMap<usize, usize>,
    pub spilled_rows: Option<usize>,
    pub spill_count: Option<usize>,
    pub uneval: Vec<String>,
    pub fetch: bool,
    /// ordering the operator itself establishes (SortExec / SortPreservingMergeExec `expr()`), if any
    pub own_ord: Vec<Ord1>,
    /// scalar-function invocations re-enacted on the recorded input batches (single-input nodes)
    pub fns: Vec<FnObs>,
}

pub struct FnObs {
    pub name: String,
    pub declared: String,
    /// per input batch: rows, type of the result, number of values in the result
    pub calls: Vec<(usize, String, usize)>,
    pub errors: usize,
}

/// Every ScalarFunctionExpr below the expressions a single-input node evaluates, invoked by the engine's own
/// evaluator on every batch the node's input emitted.
fn observe_functions(plan: &Arc<dyn ExecutionPlan>, child_batches: &[&RecordBatch]) -> Vec<FnObs> {
    use datafusion::common::tree_node::{TreeNode, TreeNodeRecursion};
    use datafusion::physical_expr::ScalarFunctionExpr;
    let mut found: Vec<Arc<dyn PhysicalExpr>> = vec![];
    let _ = plan.apply_expressions(&mut |root| {
        let _ = root.apply(|e| {
            if e.downcast_ref::<ScalarFunctionExpr>().is_some() && !found.iter().any(|x| x == e) {
                found.push(Arc::clone(e));
            }
            Ok(TreeNodeRecursion::Continue)
        });
        Ok(TreeNodeRecursion::Continue)
    });
    let mut out = vec![];
    for e in found {
        let f = e.downcast_ref::<ScalarFunctionExpr>().unwrap();
        let mut o = FnObs { name: f.name().to_string(), declared: format!("{}", f.return_type()), calls: vec![], errors: 0 };
        for b in child_batches {
            match e.evaluate(b) {
                Ok(datafusion::logical_expr::ColumnarValue::Array(a)) => o.calls.push((b.num_rows(), format!("{}", a.data_type()), a.len())),
                // a scalar stands for one value per input row
                Ok(datafusion::logical_expr::ColumnarValue::Scalar(v)) => o.calls.push((b.num_rows(), format!("{}", v.data_type()), b.num_rows())),
                Err(_) => o.errors += 1,
            }
        }
        out.push(o);
    }
    out
}

fn exact<T: Clone + std::fmt::Debug + PartialEq + Eq + PartialOrd>(p: &Precision<T>) -> Option<T> {
    match p {
        Precision::Exact(v) => Some(v.clone()),
        _ => None,
    }
}

fn stat1(s: &Statistics, part: i64, via: &'static str) -> Stat1 {
    Stat1 {
        part,
        rows: exact(&s.num_rows),
        cols: s
            .column_statistics
            .iter()
            .map(|c| (exact(&c.null_count), exact(&c.min_value), exact(&c.max_value), exact(&c.sum_value), exact(&c.distinct_count)))
            .collect(),
        via,
    }
}

/// Registry of the expressions a node's declarations mention: schema columns are positions 1..w,
/// every other declared expression gets a position > w and is evaluated on each emitted batch.
struct Registry {
    w: usize,
    extras: Vec<Arc<dyn PhysicalExpr>>,
}

impl Registry {
    fn pos(&mut self, e: &Arc<dyn PhysicalExpr>) -> usize {
        if let Some(c) = e.downcast_ref::<Column>() {
            if c.index() < self.w {
                return c.index() + 1;
            }
        }
        if let Some(ix) = self.extras.iter().position(|x| x == e) {
            return self.w + ix + 1;
        }
        self.extras.push(Arc::clone(e));
        self.w + self.extras.len()
    }
}

/// Facts a node declares; read BEFORE the plan is executed.
pub struct Declared {
    reg: Registry,
    ords: Vec<Vec<Ord1>>,
    outord: Vec<Ord1>,
    classes: Vec<Vec<usize>>,
    consts: Vec<Const1>,
    hash: Vec<usize>,
    np: usize,
    part_text: String,
    stats: Vec<Stat1>,
    own_ord: Vec<Ord1>,
}

#[allow(deprecated)]
pub fn declare(node: &NodeRef) -> Declared {
    let plan = &node.original;
    let schema = plan.schema();
    let w = schema.fields().len();
    let mut reg = Registry { w, extras: vec![] };
    let eq = plan.equivalence_properties();
    let lex = |reg: &mut Registry, o: &[datafusion::physical_expr::PhysicalSortExpr]| -> Vec<Ord1> {
        o.iter().map(|s| Ord1 { i: reg.pos(&s.expr), desc: s.options.descending, nf: s.options.nulls_first }).collect()
    };
    let ords: Vec<Vec<Ord1>> = eq.oeq_class().iter().map(|o| lex(&mut reg, o)).collect();
    let outord: Vec<Ord1> = match plan.output_ordering() {
        Some(o) => lex(&mut reg, o),
        None => vec![],
    };
    let classes: Vec<Vec<usize>> = eq.eq_group().iter().map(|c| c.iter().map(|e| reg.pos(e)).collect()).collect();
    let consts: Vec<Const1> = eq
        .constants()
        .iter()
        .map(|c| {
            let (uniform, val) = match &c.across_partitions {
                AcrossPartitions::Heterogeneous => (false, None),
                AcrossPartitions::Uniform(v) => (true, v.clone()),
            };
            Const1 { i: reg.pos(&c.expr), uniform, val }
        })
        .collect();
    let own_ord: Vec<Ord1> = if let Some(x) = plan.downcast_ref::<datafusion::physical_plan::sorts::sort_preserving_merge::SortPreservingMergeExec>() {
        lex(&mut reg, x.expr())
    } else if let Some(x) = plan.downcast_ref::<datafusion::physical_plan::sorts::sort::SortExec>() {
        lex(&mut reg, x.expr())
    } else {
        vec![]
    };
    let part = plan.output_partitioning();
    let hash: Vec<usize> = match part {
        Partitioning::Hash(es, _) => es.iter().map(|e| reg.pos(e)).collect(),
        _ => vec![],
    };
    let np = part.partition_count();

    // statistics: the new StatisticsContext walk and the deprecated per-node entry point
    let mut stats = vec![];
    let sc = StatisticsContext::new();
    let mut parts: Vec<Option<usize>> = vec![None];
    parts.extend((0..np).map(Some));
    for p in &parts {
        let pi = p.map(|x| x as i64).unwrap_or(-1);
        if let Ok(s) = sc.compute(plan.as_ref(), &StatisticsArgs::new().with_partition(*p)) {
            stats.push(stat1(&s, pi, "context"));
        }
        if let Ok(s) = plan.partition_statistics(*p) {
            stats.push(stat1(&s, pi, "partition_statistics"));
        }
    }
    // the pluggable statistics registry with the built-in operator providers (operator_statistics/mod.rs)
    let registry = datafusion::physical_plan::operator_statistics::StatisticsRegistry::default_with_builtin_providers();
    if let Ok(s) = registry.compute_base(plan.as_ref()) {
        stats.push(stat1(&s, -2, "registry")); // -2 = whole node, computed by the statistics registry
    }
    Declared { reg, ords, outord, classes, consts, hash, np, part_text: format!("{part}"), stats, own_ord }
}

/// Observed data (after execution) joined with the declared facts.
pub fn collect_node(node: &NodeRef, d: Declared, logs: &[StreamLog], child_ids: &[usize]) -> NodeData {
    let plan = &node.original;
    let schema = plan.schema();
    let w = schema.fields().len();
    let Declared { reg, ords, outord, classes, consts, hash, np, part_text, stats, own_ord } = d;
    // observed data
    let mut uneval = vec![];
    let mut bad_extra: HashSet<usize> = HashSet::new();
    let mut streams = vec![];
    let mut pos_types: Vec<Option<DataType>> = vec![None; w + reg.extras.len()];
    for (c, f) in schema.fields().iter().enumerate() {
        pos_types[c] = Some(f.data_type().clone());
    }
    for l in logs.iter().filter(|l| l.node == node.id) {
        let mut batches = vec![];
        for b in &l.batches {
            batches.push(batch_data(b, w, &reg.extras, &mut bad_extra, &mut uneval, &mut pos_types));
        }
        streams.push(StreamData { part: l.part, ended: l.ended, err: l.error.is_some(), batches });
    }
    // drop facts that mention an expression the batch could not evaluate
    let badpos: HashSet<usize> = bad_extra.iter().map(|x| w + x + 1).collect();
    let ok = |i: &usize| !badpos.contains(i);
    let ords: Vec<Vec<Ord1>> = ords.into_iter().filter(|o| o.iter().all(|k| ok(&k.i))).collect();
    let outord = if outord.iter().all(|k| ok(&k.i)) { outord } else { vec![] };
    let classes: Vec<Vec<usize>> = classes.into_iter().map(|c| c.into_iter().filter(ok).collect()).collect();
    let consts: Vec<Const1> = consts.into_iter().filter(|c| ok(&c.i)).collect();
    let hash = if hash.iter().all(ok) { hash } else { vec![] };
    let own_ord = if own_ord.iter().all(|k| ok(&k.i)) { own_ord } else { vec![] };

    let executed_parts: HashSet<usize> = streams.iter().map(|s| s.part).collect();
    let full = (0..np).all(|p| executed_parts.contains(&p)) && streams.iter().all(|s| s.ended && !s.err);

    let mut metric_rows = None;
    let mut metric_part_rows = BTreeMap::new();
    let (mut spilled_rows, mut spill_count) = (None, None);
    if let Some(ms) = node.executed.metrics() {
        metric_rows = ms.output_rows();
        spilled_rows = ms.spilled_rows();
        spill_count = ms.spill_count();
        for m in ms.iter() {
            if let (datafusion::physical_plan::metrics::MetricValue::OutputRows(c), Some(p)) = (m.value(), m.partition()) {
                *metric_part_rows.entry(p).or_insert(0) += c.value();
            }
        }
    }
    let fns = if child_ids.len() == 1 && !plan.name().contains("Join") {
        let cb: Vec<&RecordBatch> = logs.iter().filter(|l| l.node == child_ids[0]).flat_map(|l| l.batches.iter()).collect();
        observe_functions(plan, &cb)
    } else {
        vec![]
    };
    let mut expr_text: Vec<String> = schema.fields().iter().enumerate().map(|(i, f)| format!("{}@{}", f.name(), i)).collect();
    expr_text.extend(reg.extras.iter().map(|e| format!("{e}")));
    NodeData {
        id: node.id,
        parent: node.parent.map(|p| p as i64).unwrap_or(-1),
        name: plan.name().to_string(),
        np,
        schema: schema.fields().iter().map(|f| (format!("{}", f.data_type()), f.is_nullable())).collect(),
        w,
        expr_text,
        pos_types,
        ords,
        outord,
        classes,
        consts,
        hash,
        part_text,
        stats,
        streams,
        full,
        metric_rows,
        metric_part_rows,
        spilled_rows,
        spill_count,
        uneval,
        fetch: plan.fetch().is_some(),
        own_ord,
        fns,
    }
}

fn batch_data(
    b: &RecordBatch,
    w: usize,
    extras: &[Arc<dyn PhysicalExpr>],
    bad_extra: &mut HashSet<usize>,
    uneval: &mut Vec<String>,
    pos_types: &mut [Option<DataType>],
) -> BatchData {
    let n = b.num_rows();
    let types: Vec<String> = b.columns().iter().map(|c| format!("{}", c.data_type())).collect();
    let nulls: Vec<bool> = b.columns().iter().map(|c| c.logical_null_count() > 0).collect();
    let field_nullable: Vec<bool> = b.schema().fields().iter().map(|f| f.is_nullable()).collect();
    let shape_ok = b.num_columns() == w;
    let mut grid = vec![];
    if shape_ok {
        let mut arrays: Vec<Option<ArrayRef>> = b.columns().iter().map(|c| Some(Arc::clone(c))).collect();
        for (x, e) in extras.iter().enumerate() {
            let r = e.evaluate(b).and_then(|v| v.into_array(n));
            match r {
                Ok(a) if a.len() == n => {
                    pos_types[w + x] = Some(a.data_type().clone());
                    arrays.push(Some(a));
                }
                other => {
                    if bad_extra.insert(x) {
                        uneval.push(format!("{e}: {}", match other { Err(er) => er.to_string(), _ => "wrong length".into() }));
                    }
                    arrays.push(None);
                }
            }
        }
        for r in 0..n {
            grid.push(
                arrays
                    .iter()
                    .map(|a| match a {
                        Some(a) => ScalarValue::try_from_array(a.as_ref(), r).unwrap_or(ScalarValue::Null),
                        None => ScalarValue::Null,
                    })
                    .collect(),
            );
        }
    }
    BatchData { n, types, nulls, field_nullable, shape_ok, grid }
}

// ------------------------------------------------------------------------------------------------
// JSON encoding of values: direct where the value fits the specification's value universe, joint
// ranking per DataType otherwise (the natural order of the type is the only thing the harness
// contributes; NULL placement, direction and lexicographic composition are the specification's).

fn direct(v: &ScalarValue) -> Option<Value> {
    if v.is_null() {
        return Some(json!({"k":"n","v":0}));
    }
    const LIM: i128 = 1 << 30;
    let int = |x: i128| if x.abs() <= LIM { Some(json!({"k":"i","v": x as i64})) } else { None };
    match v {
        ScalarValue::Int8(Some(x)) => int(*x as i128),
        ScalarValue::Int16(Some(x)) => int(*x as i128),
        ScalarValue::Int32(Some(x)) => int(*x as i128),
        ScalarValue::Int64(Some(x)) => int(*x as i128),
        ScalarValue::UInt8(Some(x)) => int(*x as i128),
        ScalarValue::UInt16(Some(x)) => int(*x as i128),
        ScalarValue::UInt32(Some(x)) => int(*x as i128),
        ScalarValue::UInt64(Some(x)) => int(*x as i128),
        ScalarValue::Float64(Some(f)) if f.fract() == 0.0 && f.abs() < 1e9 => int(*f as i128),
        ScalarValue::Float32(Some(f)) if f.fract() == 0.0 && f.abs() < 1e9 => int(*f as i128),
        ScalarValue::Boolean(Some(b)) => Some(json!({"k":"b","v": *b as i64})),
        ScalarValue::Utf8(Some(s)) | ScalarValue::LargeUtf8(Some(s)) | ScalarValue::Utf8View(Some(s)) => {
            STR_POOL.iter().position(|p| p == s).filter(|ix| *ix > 0).map(|ix| json!({"k":"s","v":ix}))
        }
        _ => None,
    }
}

pub struct Encoder {
    ranks: HashMap<DataType, HashMap<ScalarValue, usize>>,
}

impl Encoder {
    pub fn new(nd: &NodeData) -> Encoder {
        let mut all: HashMap<DataType, HashSet<ScalarValue>> = HashMap::new();
        let mut need: HashSet<DataType> = HashSet::new();
        let mut see = |v: &ScalarValue| {
            if v.is_null() {
                return;
            }
            let t = v.data_type();
            if direct(v).is_none() {
                need.insert(t.clone());
            }
            all.entry(t).or_default().insert(v.clone());
        };
        for s in &nd.streams {
            for b in &s.batches {
                for r in &b.grid {
                    r.iter().for_each(&mut see);
                }
            }
        }
        for c in &nd.consts {
            if let Some(v) = c.val.as_ref().and_then(|v| to_pos_type(nd, c.i, v)) {
                see(&v);
            }
        }
        for st in &nd.stats {
            for (ci, c) in st.cols.iter().enumerate() {
                for v in [&c.1, &c.2].into_iter().flatten() {
                    if let Some(v) = to_pos_type(nd, ci + 1, v) {
                        see(&v);
                    }
                }
            }
        }
        let mut ranks = HashMap::new();
        for t in need {
            let mut vs: Vec<ScalarValue> = all.remove(&t).unwrap_or_default().into_iter().collect();
            vs.sort_by(|a, b| a.partial_cmp(b).unwrap_or(Ordering::Equal));
            ranks.insert(t, vs.into_iter().enumerate().map(|(i, v)| (v, i + 1)).collect());
        }
        Encoder { ranks }
    }
    pub fn ranked(&self, t: &DataType) -> bool {
        self.ranks.contains_key(t)
    }
    pub fn enc(&self, v: &ScalarValue) -> Value {
        if v.is_null() {
            return json!({"k":"n","v":0});
        }
        match self.ranks.get(&v.data_type()) {
            Some(m) => json!({"k":"r","v": m.get(v).copied().unwrap_or(0)}),
            None => direct(v).unwrap_or(json!({"k":"r","v":0})),
        }
    }
}

fn ords_json(o: &[Ord1]) -> Value {
    Value::Array(o.iter().map(|k| json!({"i": k.i, "asc": !k.desc, "nf": k.nf})).collect())
}

/// Scalar declared for position `i` (constant value, min, max): brought to the position's type.
fn to_pos_type(nd: &NodeData, i: usize, v: &ScalarValue) -> Option<ScalarValue> {
    let t = nd.pos_types.get(i - 1)?.clone()?;
    if v.data_type() == t { Some(v.clone()) } else { v.cast_to(&t).ok() }
}

pub fn node_json(nd: &NodeData) -> Value {
    let enc = Encoder::new(nd);
    let absent = json!({"x":0,"v":{"k":"n","v":0}});
    let cnt = |o: &Option<usize>| match o {
        Some(v) if *v < (1 << 30) => json!({"x":1,"v":{"k":"i","v":v}}),
        _ => absent.clone(),
    };
    let stats: Vec<Value> = nd
        .stats
        .iter()
        .filter(|s| s.rows.is_some() || s.cols.iter().any(|c| c.0.is_some() || c.1.is_some() || c.2.is_some() || c.3.is_some() || c.4.is_some()))
        .map(|s| {
            let cols: Vec<Value> = s
                .cols
                .iter()
                .enumerate()
                .map(|(c, (nulls, min, max, sum, ndv))| {
                    let sv = |o: &Option<ScalarValue>| match o.as_ref().and_then(|v| to_pos_type(nd, c + 1, v)) {
                        Some(v) if !v.is_null() => json!({"x":1,"v": enc.enc(&v)}),
                        _ => absent.clone(),
                    };
                    // a sum can only be re-computed by the specification over directly encoded integers
                    let sumv = match sum {
                        Some(v) if !v.is_null() => match (direct(v), nd.pos_types.get(c).and_then(|t| t.as_ref())) {
                            (Some(d), Some(t)) if !enc.ranked(t) && d["k"] == "i" => json!({"x":1,"v":d}),
                            _ => absent.clone(),
                        },
                        Some(_) => json!({"x":1,"v":{"k":"n","v":0}}),
                        None => absent.clone(),
                    };
                    json!({"nulls": cnt(nulls), "min": sv(min), "max": sv(max), "sum": sumv, "ndv": cnt(ndv)})
                })
                .collect();
            json!({"p": s.part, "via": s.via, "rows": cnt(&s.rows), "cols": cols})
        })
        .collect();
    let streams: Vec<Value> = nd
        .streams
        .iter()
        .map(|s| {
            let batches: Vec<Value> = s
                .batches
                .iter()
                .map(|b| {
                    json!({"n": b.n, "ok": b.shape_ok, "types": b.types, "nulls": b.nulls.iter().map(|x| *x as i64).collect::<Vec<_>>(),
                           "rows": b.grid.iter().map(|r| Value::Array(r.iter().map(|v| enc.enc(v)).collect())).collect::<Vec<_>>()})
                })
                .collect();
            json!({"p": s.part, "ended": s.ended, "err": s.err, "batches": batches})
        })
        .collect();
    // an equivalence class whose members have different types of which one is rank-encoded cannot be compared
    let classes: Vec<Value> = nd
        .classes
        .iter()
        .map(|c| {
            let ts: HashSet<Option<DataType>> = c.iter().map(|i| nd.pos_types.get(i - 1).cloned().flatten()).collect();
            let mixed_ranked = ts.len() > 1 && ts.iter().any(|t| t.as_ref().map(|t| enc.ranked(t)).unwrap_or(true));
            if mixed_ranked { json!([]) } else { json!(c) }
        })
        .collect();
    let consts: Vec<Value> = nd
        .consts
        .iter()
        .map(|c| {
            let v = c.val.as_ref().and_then(|v| to_pos_type(nd, c.i, v));
            json!({"i": c.i, "uni": c.uniform, "hasv": v.is_some(), "v": v.map(|v| enc.enc(&v)).unwrap_or(json!({"k":"n","v":0}))})
        })
        .collect();
    json!({
        "id": nd.id, "parent": nd.parent, "name": nd.name, "np": nd.np, "w": nd.w,
        "schema": nd.schema.iter().map(|(t, n)| json!({"t": t, "n": n})).collect::<Vec<_>>(),
        "exprs": nd.expr_text,
        "ords": nd.ords.iter().map(|o| ords_json(o)).collect::<Vec<_>>(),
        "outord": ords_json(&nd.outord),
        "classes": classes, "consts": consts, "hash": nd.hash, "part": nd.part_text,
        "stats": stats, "streams": streams, "full": nd.full,
        "metrics": {"has": nd.metric_rows.is_some(), "rows": nd.metric_rows.unwrap_or(0),
                    "per": nd.metric_part_rows.iter().map(|(p, n)| json!({"p": p, "n": n})).collect::<Vec<_>>(),
                    "spilled": nd.spilled_rows.map(|x| x as i64).unwrap_or(-1), "spills": nd.spill_count.map(|x| x as i64).unwrap_or(-1)},
        "uneval": nd.uneval, "fetch": nd.fetch,
        "fns": nd.fns.iter().map(|f| json!({"f": f.name, "t": f.declared, "errs": f.errors,
            "calls": f.calls.iter().map(|(n, t, l)| json!({"n": n, "t": t, "len": l})).collect::<Vec<_>>()})).collect::<Vec<_>>(),
        "own_ord": ords_json(&nd.own_ord),
        "own_sorted": nd.streams.iter().filter(|s| s.shape_ok()).all(|s| sorted_by(&s.rows(), &nd.own_ord)),
    })
}

// ------------------------------------------------------------------------------------------------
// Direct re-check in Rust.  Emits the same <node, partition, fact, index> tuples as the TLA+ contract.

fn null_eq(a: &ScalarValue, b: &ScalarValue) -> bool {
    (a.is_null() && b.is_null()) || (!a.is_null() && !b.is_null() && a == b)
}

fn cmp_key(a: &ScalarValue, b: &ScalarValue, k: &Ord1) -> Ordering {
    match (a.is_null(), b.is_null()) {
        (true, true) => Ordering::Equal,
        (true, false) => if k.nf { Ordering::Less } else { Ordering::Greater },
        (false, true) => if k.nf { Ordering::Greater } else { Ordering::Less },
        _ => {
            let c = a.partial_cmp(b).unwrap_or(Ordering::Equal);
            if k.desc { c.reverse() } else { c }
        }
    }
}

fn sorted_by(rows: &[&Vec<ScalarValue>], o: &[Ord1]) -> bool {
    rows.windows(2).all(|w| {
        for k in o {
            match cmp_key(&w[0][k.i - 1], &w[1][k.i - 1], k) {
                Ordering::Less => return true,
                Ordering::Greater => return false,
                Ordering::Equal => {}
            }
        }
        true
    })
}

pub fn bad(n: usize, p: i64, f: &str, k: usize) -> Value {
    json!({"n": n, "p": p, "f": f, "k": k})
}

pub fn direct_c28(nd: &NodeData) -> Vec<Value> {
    let mut out = vec![];
    for s in nd.streams.iter().filter(|s| s.shape_ok()) {
        let rows = s.rows();
        for (k, o) in nd.ords.iter().enumerate() {
            if !sorted_by(&rows, o) {
                out.push(bad(nd.id, s.part as i64, "ordering", k + 1));
            }
        }
        if !nd.outord.is_empty() && !sorted_by(&rows, &nd.outord) {
            out.push(bad(nd.id, s.part as i64, "outord", 0));
        }
        for (k, c) in nd.classes.iter().enumerate() {
            if rows.iter().any(|r| c.iter().any(|a| !null_eq(&r[c[0] - 1], &r[*a - 1]))) {
                out.push(bad(nd.id, s.part as i64, "equiv", k + 1));
            }
        }
        for (k, c) in nd.consts.iter().enumerate() {
            if rows.iter().any(|r| !null_eq(&r[c.i - 1], &rows[0][c.i - 1])) {
                out.push(bad(nd.id, s.part as i64, "const", k + 1));
            }
        }
    }
    let ok: Vec<&StreamData> = nd.streams.iter().filter(|s| s.shape_ok()).collect();
    for (k, c) in nd.consts.iter().enumerate() {
        if !c.uniform {
            continue;
        }
        let all: Vec<&Vec<ScalarValue>> = ok.iter().flat_map(|s| s.rows()).collect();
        let want = c.val.as_ref().and_then(|v| to_pos_type(nd, c.i, v));
        let viol = match (&want, all.first()) {
            (Some(v), _) => all.iter().any(|r| !null_eq(&r[c.i - 1], v)),
            (None, Some(f)) => all.iter().any(|r| !null_eq(&r[c.i - 1], &f[c.i - 1])),
            _ => false,
        };
        if viol {
            out.push(bad(nd.id, -1, "const", k + 1));
        }
    }
    if !nd.hash.is_empty() {
        let mut seen: HashMap<Vec<ScalarValue>, usize> = HashMap::new();
        let mut viol = false;
        for s in &ok {
            for r in s.rows() {
                let key: Vec<ScalarValue> = nd.hash.iter().map(|i| { let v = &r[*i - 1]; if v.is_null() { ScalarValue::Null } else { v.clone() } }).collect();
                if *seen.entry(key).or_insert(s.part) != s.part {
                    viol = true;
                }
            }
        }
        if viol {
            out.push(bad(nd.id, -1, "hash", 0));
        }
    }
    out
}

pub fn direct_c30(nd: &NodeData) -> Vec<Value> {
    let mut out = vec![];
    let mut seen = HashSet::new();
    for s in &nd.streams {
        for b in &s.batches {
            let mut push = |f: &str, k: usize| {
                if seen.insert((s.part, f.to_string(), k)) {
                    out.push(bad(nd.id, s.part as i64, f, k));
                }
            };
            if !b.shape_ok {
                push("ncols", 0);
                continue;
            }
            for c in 0..nd.w {
                if b.types[c] != nd.schema[c].0 {
                    push("type", c + 1);
                }
                if !nd.schema[c].1 && b.nulls[c] {
                    push("nonnull", c + 1);
                }
            }
        }
    }
    out
}

pub fn direct_c30_fns(nd: &NodeData) -> Vec<Value> {
    let mut out = vec![];
    for (j, f) in nd.fns.iter().enumerate() {
        if f.calls.iter().any(|(_, t, _)| *t != f.declared) {
            out.push(bad(nd.id, -1, "fntype", j + 1));
        }
        if f.calls.iter().any(|(n, _, l)| n != l) {
            out.push(bad(nd.id, -1, "fnlen", j + 1));
        }
    }
    out
}

/// Statistic value equality: floats numerically (-0.0 = 0.0: Parquet writes a zero minimum as -0.0), everything else exactly.
fn same_stat_value(a: &ScalarValue, b: &ScalarValue) -> bool {
    match (a, b) {
        (ScalarValue::Float64(Some(x)), ScalarValue::Float64(Some(y))) => x == y,
        (ScalarValue::Float32(Some(x)), ScalarValue::Float32(Some(y))) => x == y,
        _ => a == b,
    }
}

pub fn direct_c29(nd: &NodeData) -> Vec<Value> {
    let mut out = vec![];
    if !nd.full || nd.streams.iter().any(|s| !s.shape_ok()) {
        return out;
    }
    let mut seen = HashSet::new();
    for st in &nd.stats {
        let rows: Vec<&Vec<ScalarValue>> =
            nd.streams.iter().filter(|s| st.part < 0 || s.part as i64 == st.part).flat_map(|s| s.rows()).collect();
        // a partition executed more than once would be counted twice: only single executions are judged
        let execs = nd.streams.iter().filter(|s| st.part < 0 || s.part as i64 == st.part).count();
        if (st.part < 0 && execs != nd.np) || (st.part >= 0 && execs != 1) {
            continue;
        }
        let mut push = |f: &str, k: usize| {
            if seen.insert((st.part, f.to_string(), k)) {
                out.push(bad(nd.id, st.part, f, k));
            }
        };
        if let Some(r) = st.rows {
            if r != rows.len() {
                push("rows", 0);
            }
        }
        for (c, (nulls, min, max, sum, ndv)) in st.cols.iter().enumerate() {
            if c >= nd.w {
                push("statcols", 0);
                break;
            }
            let vals: Vec<&ScalarValue> = rows.iter().map(|r| &r[c]).collect();
            let nn: Vec<&ScalarValue> = vals.iter().copied().filter(|v| !v.is_null()).collect();
            if let Some(n) = nulls {
                if *n != vals.len() - nn.len() {
                    push("nulls", c + 1);
                }
            }
            let ext = |want_max: bool| -> Option<ScalarValue> {
                let mut it = nn.iter();
                let mut m = (*it.next()?).clone();
                for v in it {
                    let c = (*v).partial_cmp(&m).unwrap_or(Ordering::Equal);
                    if (want_max && c == Ordering::Greater) || (!want_max && c == Ordering::Less) {
                        m = (*v).clone();
                    }
                }
                Some(m)
            };
            for (decl, is_max, f) in [(min, false, "min"), (max, true, "max")] {
                if let (Some(d), Some(actual)) = (decl.as_ref().and_then(|v| to_pos_type(nd, c + 1, v)), ext(is_max)) {
                    // Exact(NULL) is the engine's convention for "no value known" (its own consumers skip it)
                    if !d.is_null() && !same_stat_value(&d, &actual) {
                        push(f, c + 1);
                    }
                }
            }
            if let Some(d) = sum {
                if let (Some(dv), true) = (direct(d), nn.iter().all(|v| matches!(direct(v), Some(x) if x["k"] == "i"))) {
                    if dv["k"] == "i" && !nn.is_empty() {
                        let total: i64 = nn.iter().map(|v| direct(v).unwrap()["v"].as_i64().unwrap()).sum();
                        if dv["v"].as_i64() != Some(total) {
                            push("sum", c + 1);
                        }
                    }
                }
            }
            if let Some(d) = ndv {
                let distinct: HashSet<&ScalarValue> = nn.iter().copied().collect();
                let hasnull = nn.len() != vals.len();
                if !nn.is_empty() && *d != distinct.len() && !(hasnull && *d == distinct.len() + 1) {
                    push("ndv", c + 1);
                }
            }
        }
    }
    out
}

pub fn direct_c53(nd: &NodeData) -> Vec<Value> {
    let mut out = vec![];
    if !nd.full {
        return out;
    }
    if let Some(m) = nd.metric_rows {
        let emitted: usize = nd.streams.iter().map(|s| s.nrows()).sum();
        if m != emitted {
            out.push(bad(nd.id, -1, "output_rows", 0));
        }
        // output_rows of each partition separately (when every output_rows metric carries a partition label)
        if nd.metric_part_rows.values().sum::<usize>() == m {
            let mut parts: std::collections::BTreeSet<usize> = nd.metric_part_rows.keys().copied().collect();
            parts.extend(nd.streams.iter().map(|s| s.part));
            for p in parts {
                let e: usize = nd.streams.iter().filter(|s| s.part == p).map(|s| s.nrows()).sum();
                if nd.metric_part_rows.get(&p).copied().unwrap_or(0) != e {
                    out.push(bad(nd.id, p as i64, "part_rows", 0));
                }
            }
        }
    }
    out
}
