"""C46 — benchmark result validation accepts exactly the persisted results; placeholder precedence.

1. spec/text/BenchVerify.tla: persisted form / read-back / rendered form of a result cell and the
   documented comparison rule Verify(P, R).  TLC checks on the whole scope that the rule implies the
   property (AcceptsOwn, RejectsDifferent modulo the NULL/empty class) and prints every
   <<P, mutation R of P, Verify(P,R)>>; each is replayed through the real
   SqlBenchmark::{new, initialize, persist} and, with a fresh object, {run(save), verify} on generated
   .benchmark files (B3).  The persisted '|' file itself is handed back to TLC (DelimitedTrace, fmt psv)
   which must decode it to P (B2).
2. spec/text/BenchResolve.tla: Resolve(template, explicit, env) with explicit > environment > default,
   boolean branches and nested defaults; every generated template x maps is resolved by the real
   SqlBenchmark::new_with_replacements under real environment variables.
"""
import json, os
from common import *
import c51

NULLCLASS = {"", "NULL", "(empty)"}


def real(t):
    return "é" if t == "U+00E9" else t


def cell_json(c):
    if c["k"] == "n":
        return None
    if c["k"] == "f":
        return float(c["t"])
    return int(c["t"]) if c["k"] == "i" else real(c["t"])


def render(c):
    return "NULL" if c["k"] == "n" else c["t"]


def stored(c):
    return "" if c["k"] == "n" else c["t"]


def may_equiv(p, r):
    return render(p) == render(r) or ({render(p), stored(p), render(r), stored(r)} <= NULLCLASS)


def same_shape(P, R):
    return len(P) == len(R) and all(len(a) == len(b) for a, b in zip(P, R))


def kinds_of(kinds, rows):
    n = len(rows[0]) if rows else len(kinds)
    ks = (kinds + ["s"])[:n] if n > len(kinds) else kinds[:n]
    for j in range(len(ks)):                      # a retyped column: the kind follows the cells
        cellk = {r[j]["k"] for r in rows if r[j]["k"] != "n"}
        if len(cellk) == 1 and ks[j] in ("i", "f") and next(iter(cellk)) in ("i", "f"):
            ks[j] = next(iter(cellk))
    return ks


def gen_verify(ctx):
    consts = dict(SampleN=10 if ctx.quick else 60)
    cfg = ctx.path("bv.cfg")
    open(cfg, "w").write(f"CONSTANTS SampleN = {consts['SampleN']}\nSPECIFICATION Spec\n"
                         "INVARIANTS AcceptsOwn RejectsDifferent Emit\nCHECK_DEADLOCK FALSE\n")
    r = tlc_must_pass(ctx, "text/BenchVerify", cfg=cfg, workers=4, deadlock=False, mode_args=["-seed", str(ctx.seed)],
                      timeout=3000, tag="benchverify")
    return r, consts, tlc_cases(r.out)


def check_verify(ctx, cases, tag="verify"):
    # group by persisted grid
    groups = {}
    for c in cases:
        groups.setdefault(json.dumps([c["kinds"], c["P"]]), []).append(c)
    hin, order = [], []
    for i, (k, cs) in enumerate(groups.items()):
        c0 = cs[0]
        hin.append({"id": i, "op": "verify", "kinds": c0["kinds"], "persist_rows": [[cell_json(x) for x in row] for row in c0["P"]],
                    "verifies": [{"kinds": kinds_of(c["kinds"], c["R"]), "rows": [[cell_json(x) for x in row] for row in c["R"]]} for c in cs]})
        order.append(cs)
    inp, outp = ctx.path(f"{tag}.in.ndjson"), ctx.path(f"{tag}.out.ndjson")
    write_ndjson(inp, hin)
    run_harness(ctx, "vaux", ["c46", "--in", inp, "--out", outp, "--dir", ctx.path("bench")], timeout=3000)
    outs = read_ndjson(outp)
    viol, samples, drift, trace, tool = [], [], [], [], []
    n = 0
    for cs, o in zip(order, outs):
        if o.get("stage") != "done":
            tool.append(o)
            continue
        c0 = cs[0]
        names = [list(f"c{j+1}") for j in range(len(c0["kinds"]))]
        trace.append({"fmt": "psv", "header": True, "names": names,
                      "rows": [[{"k": x["k"], "c": c51.chars_of(real(x["t"]))} for x in row] for row in c0["P"]],
                      "text": c51.chars_of(o["persisted"])})
        for c, v in zip(cs, o["verdicts"]):
            n += 1
            if v.get("stage") != "done":
                tool.append(v)
                continue
            got = v["verdict"] == "accept"
            exp = c["accept"]
            obs = {"persisted_file": o["persisted"], "verdict": v["verdict"], "message": v.get("msg")}
            if got == exp:
                if len(samples) < 3 and c["mut"] == "cell" and (len(samples) == 0) == exp:
                    samples.append({"case": c, "observed": obs})
                continue
            real_diff = (not same_shape(c["P"], c["R"])) or any(not may_equiv(p, r) for pr, rr in zip(c["P"], c["R"]) for p, r in zip(pr, rr))
            if c["mut"] == "same" and not got:
                viol.append({"kind": "verify", "case": c, "observed": obs, "oracle": "BenchVerify!AcceptsOwn: verify must accept the results it persisted"})
            elif got and real_diff:
                viol.append({"kind": "verify", "case": c, "observed": obs,
                             "oracle": "BenchVerify!RejectsDifferent: accepted a result that differs in shape or in a cell outside the NULL/empty class"})
            else:
                drift.append({"case": c, "observed": obs})
    if tool:
        raise ToolError("c46 harness could not run cases: " + json.dumps(tool[:2])[:600])
    # B2: the persisted files decode (TLC) to the persisted grids
    tp = ctx.path(f"{tag}.trace.ndjson")
    write_ndjson(tp, trace)
    res = tlc_trace_validate(ctx, "text/DelimitedTrace", "text/DelimitedTrace.cfg", tp, timeout=1200, tag=tag + "-trace")
    if not res.ok or res.distinct != len(trace):
        sys.stderr.write(res.out[-3000:])
        raise ToolError("DelimitedTrace (psv) run failed")
    for i in sorted({int(x) for x in re.findall(r'^<<"REJECT", (\d+)>>', res.out, re.M)}):
        t = trace[i - 1]
        viol.append({"kind": "persisted-file", "case": order[i - 1][0], "observed": {"persisted_file": hin[i - 1], "text": "".join(map(c51.sym_char, t["text"]))},
                     "oracle": "Delimited!Accept(psv): the persisted '|' file does not decode to the persisted grid"})
    return n, viol, samples, drift, len(trace), res


def render_branch(b, rng):
    return "".join(render_item(it, rng) for it in b)


def key_case(k, rng):
    return rng.choice([k, k.lower(), k.capitalize()])


def render_item(it, rng):
    if it["kind"] == "lit":
        return it["text"]
    d = "" if it["dflt"] == "<none>" else ":-" + it["dflt"]
    if it["kind"] == "var":
        return "${" + key_case(it["key"], rng) + d + "}"
    return "${" + key_case(it["key"], rng) + d + "|" + render_branch(it["tb"], rng) + "|" + render_branch(it["fb"], rng) + "}"


def gen_resolve(ctx):
    consts = dict(TemplN=60 if ctx.quick else 600)
    cfg = ctx.path("br.cfg")
    open(cfg, "w").write(f"CONSTANTS TemplN = {consts['TemplN']}\nSPECIFICATION SpecP\nINVARIANTS Precedence EmitP\nCHECK_DEADLOCK FALSE\n")
    r = tlc_must_pass(ctx, "text/BenchResolve", cfg=cfg, workers=4, deadlock=False, mode_args=["-seed", str(ctx.seed)],
                      timeout=3000, tag="benchresolve")
    return r, consts, tlc_cases(r.out)


def check_resolve(ctx, cases, tag="resolve"):
    hin = []
    for i, c in enumerate(cases):
        if "template" not in c:
            c["template"] = render_branch(c["tpl"], ctx.rng)
        hin.append({"id": i, "op": "resolve", "template": c["template"],
                    "explicit": {k.lower(): v for k, v in c["explicit"].items() if v != "<none>"},
                    "env": {k: v for k, v in c["env"].items() if v != "<none>"}, "env_keys": list(c["env"].keys())})
    inp, outp = ctx.path(f"{tag}.in.ndjson"), ctx.path(f"{tag}.out.ndjson")
    write_ndjson(inp, hin)
    env = {k: None for k in ("VFA", "VFB")}
    run_harness(ctx, "vaux", ["c46", "--in", inp, "--out", outp, "--dir", ctx.path("bench")], timeout=3000)
    outs = read_ndjson(outp)
    viol, samples = [], []
    for c, h, o in zip(cases, hin, outs):
        exp = c["expect"]
        if exp == "<ERR>":
            ok = not o["ok"] and "Missing value" in o.get("err", "")
        else:
            ok = o["ok"] and o["name"] == exp and o["query"] == f"SELECT 'X{exp}Y' AS v"
        if not ok:
            viol.append({"kind": "resolve", "case": c, "input": h, "expected": exp, "observed": o,
                         "oracle": "BenchResolve!Resolve: explicit value > environment value > default; boolean form picks the branch, then resolves it"})
        elif len(samples) < 2 and "|" in c["template"] and h["explicit"] and h["env"] and (len(samples) == 0 or exp == "<ERR>"):
            samples.append({"template": c["template"], "explicit": h["explicit"], "env": h["env"], "expected": exp, "observed": o})
    return len(cases), viol, samples


def run(ctx):
    build("vaux")
    for k in ("VFA", "VFB"):
        os.environ.pop(k, None)
    if ctx.replay:
        rp = json.load(open(ctx.replay))
        if rp["kind"] == "resolve":
            n, viol, samples = check_resolve(ctx, [rp["case"]], tag="replay")
        else:
            n, viol, samples, _, _, _ = check_verify(ctx, [rp["case"]], tag="replay")
        for v in viol:
            report_violation(ctx, v)
        write_evidence(ctx, "exploration", {"evaluations": n, "distinct_nontrivial": 2, "rule": "replay of one recorded case", "samples": samples or [rp]})
        return
    r1, k1, vcases = gen_verify(ctx)
    muts = {}
    for c in vcases:
        muts[c["mut"]] = muts.get(c["mut"], 0) + 1
    for m in ("same", "cell", "droprow", "duprow", "swap", "dropcol", "addcol", "retype"):
        if not muts.get(m):
            raise ToolError(f"vacuity: no case with mutation {m}")
    n1, v1, s1, drift, nfiles, rt = check_verify(ctx, vcases)
    r2, k2, rcases = gen_resolve(ctx)
    n2, v2, s2 = check_resolve(ctx, rcases)
    for v in v1 + v2:
        report_violation(ctx, v)
    nontriv = sum(1 for c in vcases if c["mut"] != "same") + sum(1 for c in rcases if any(v != "<none>" for v in c["explicit"].values()) and any(v != "<none>" for v in c["env"].values()))
    write_evidence(ctx, "exploration", {
        "evaluations": n1 + n2,
        "distinct_nontrivial": nontriv,
        "rule": "verify: every grid <= 2x2 over the cell pools with <= SampleN per shape, paired with itself and with its single-cell / row / column mutations (SampleN cell mutations per grid); non-trivial = mutated pair. resolve: TemplN random templates (var, var with default, boolean form with branches holding nested defaults) x 6 explicit x 6 environment maps; non-trivial = both an explicit and an environment value present",
        "samples": s1[:2] + s2[:2],
        "states": r1.distinct + r2.distinct + rt.distinct, "transitions": r1.generated + r2.generated + rt.generated,
        "verify": {"constants": k1, "pairs": n1, "by_mutation": muts, "spec_accepts": sum(1 for c in vcases if c["accept"]),
                   "spec_accepts_a_different_grid": sum(1 for c in vcases if c["accept"] and c["mut"] != "same"),
                   "persisted_files_decoded_by_TLC": nfiles, "violations": len(v1),
                   "documented_rule_drift": len(drift), "drift_samples": drift[:2]},
        "resolve": {"constants": k2, "cases": n2, "expected_errors": sum(1 for c in rcases if c["expect"] == "<ERR>"), "violations": len(v2)},
    }, assumptions=[
        "VIOLATION = own persisted result rejected, or a result differing in shape / in a cell outside the class {NULL,'','NULL','(empty)'} accepted, or the persisted file not decoding to the grid, or a placeholder resolved against the precedence; a disagreement with Verify() confined to the NULL/empty class is reported as documented_rule_drift (exit 0)",
        "cells contain no newline (the .benchmark format is line based); result grids are produced by a `load` table and a `run` SELECT ... ORDER BY ord, verification uses a fresh SqlBenchmark and SessionContext as `--result-mode validate` does",
        "the --result-mode / BENCH_VALIDATE resolution lives in the benchmark_runner binary and is not reached",
    ])
