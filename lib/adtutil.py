"""Helpers shared by the ADT checks (C13, C14, C40, C42)."""
import re


def action_counts(out):
    """Per-action (distinct, total) from TLC -coverage output (also the form with a trailing location tuple)."""
    res = {}
    for m in re.finditer(r"<(\w+) line \d+, col \d+ to line \d+, col \d+ of module (\w+)(?: \([\d ]+\))?>: (\d+):(\d+)", out):
        d, t = int(m.group(3)), int(m.group(4))
        a = res.get(m.group(1), (0, 0))
        res[m.group(1)] = (max(a[0], d), max(a[1], t))
    return res


def cfg_text(consts, invs, spec="Spec", extra=""):
    s = "CONSTANTS " + "  ".join(f"{k} = {v}" for k, v in consts.items()) + "\n"
    s += f"SPECIFICATION {spec}\nINVARIANTS " + " ".join(invs) + "\nCHECK_DEADLOCK FALSE\n" + extra
    return s
