"""C48 — DataFrame operations compute the same results as the equivalent SQL.

TLC (spec/sem/SemGen.tla over spec/lib/Rel.tla) generates query plans with several databases and the reference result
on each.  The Rust driver (vsem c48) renders the SAME plan AST twice: to a chain of DataFrame calls (filter, select,
with_column, with_column_renamed, select_columns, join with keys (+filter) / join_on, aggregate, sort, limit, distinct,
union / union_distinct / intersect / intersect_distinct / except / except_distinct, in_subquery / exists /
scalar_subquery with out_ref_col) and to SQL text, and executes both on every database.
Verdict: the DataFrame result must be allowed by the reference result (bag / ordered / top-k / subset mode); a
disagreement is raised only when it is confirmed in the engine — the SQL rendering of the same plan on the same
database agrees with the reference while the DataFrame chain does not (or the DataFrame chain fails where SQL succeeds
with an error that is not a documented restriction)."""
import json, collections
from common import *
import sqlcases, semcases
from c03 import classify, offset_limit_key

DF_RESTRICTIONS = ["This feature is not implemented", "not supported", "Unsupported", "unsupported:"]


def finding_key(case, r, d, sql_side=False):
    """Narrow keys of genuine engine defects (known_findings.json, property C48)."""
    err = (r["df"][d] or {}).get("err") or ""
    ops = r.get("ops", {})
    if "Schema error: No field named" in err and ops.get("with_column_renamed") and \
            (ops.get("union_by_name") or ops.get("union_by_name_distinct")):
        return "union_by_name-over-renamed-qualified-columns-then-pushdown"
    if not sql_side and offset_limit_key(r.get("df_plan")):
        return offset_limit_key(r.get("df_plan"))
    if "Ordering direction required for DISTINCT with limit" in err:
        return "distinct-with-limit-over-window-ordering-internal-error"
    if sql_side and _has_op(case["plan"], "pack") and _has_op(case["plan"], "scalarsub"):
        return "push_down_leaf_projections-below-null-supplying-join-side"
    if "Optimizer rule 'unions_to_filter' failed" in err and "No field named" in err:
        return "unions_to_filter-filter-above-aliasing-projection"
    if not sql_side and (r["df"][d] or {}).get("rows") is not None and _window_agg_ordered(case["plan"]):
        return "window-builder-default-frame-rows-instead-of-range"
    # SQL side wrong, DataFrame side right: sum / count(DISTINCT) of a column-free argument (SQL projects it first)
    if sql_side and _literal_agg(case["plan"]):
        return "sql-aggregate-of-projected-literal-answered-from-statistics"
    return None


def _has_op(x, op):
    if isinstance(x, dict):
        return x.get("op") == op or any(_has_op(v, op) for v in x.values())
    if isinstance(x, list):
        return any(_has_op(v, op) for v in x)
    return False


def _window_agg_ordered(x):
    if isinstance(x, dict):
        if x.get("op") == "window" and x["f"] in ("sum", "count", "min", "max", "countstar") and x["order"]:
            return True
        return any(_window_agg_ordered(v) for v in x.values())
    if isinstance(x, list):
        return any(_window_agg_ordered(v) for v in x)
    return False


def _cols(e):
    if isinstance(e, dict):
        if e.get("op") in ("col", "outer"):
            return 1
        return sum(_cols(v) for v in e.values())
    if isinstance(e, list):
        return sum(_cols(v) for v in e)
    return 0


def _literal_agg(x):
    if isinstance(x, dict):
        if x.get("op") == "agg" and any((a["f"] == "sum" or (a["f"] == "count" and a["distinct"])) and _cols(a["e"]) == 0 for a in x["aggs"]):
            return True
        return any(_literal_agg(v) for v in x.values())
    if isinstance(x, list):
        return any(_literal_agg(v) for v in x)
    return False


def judge(ctx, case, r, st, samples, nontrivial, report=None):
    report = report or report_violation
    if "panic" in r:
        report_violation(ctx, {"kind": "panic", "case": case, "oracle": "engine panicked: " + str(r["panic"])[:500]})
        return
    if "setup_err" in r:
        raise ToolError("c48 setup: " + r["setup_err"])
    views = semcases.views(case)
    for d, view in enumerate(views):
        sd, md = classify(r["df"][d], view)
        ss, ms = classify(r["sql"][d], view)
        st[f"df:{sd}/sql:{ss}"] += 1
        if sd == "ok" and not view["expect"]["err"] and view["expect"]["rows"]:
            nontrivial.add(case["sql"])
            if len(samples) < 2:
                samples.append({"sql": case["sql"], "dataframe_plan": r["df_plan"], "db": view["db"], "expect": view["expect"],
                                "dataframe_rows": r["df"][d]["rows"]})
        bad = None
        sql_side = False
        if sd == "diff" and ss == "ok":
            bad = f"DataFrame result differs from the reference ({md}) while the SQL rendering of the same plan agrees with it"
        elif sd == "diff" and ss == "diff" and case["mode"] in ("bag", "ordered") and \
                sqlcases.bag(r["df"][d]["rows"]) != sqlcases.bag(r["sql"][d]["rows"]):
            bad = "DataFrame and SQL results differ from each other (and both from the reference)"
        elif sd == "error" and ss in ("ok", "diff") and not any(m in md for m in DF_RESTRICTIONS):
            bad = f"DataFrame chain fails ({md[:300]}) while the SQL rendering executes"
        elif sd == "ok" and ss == "diff":
            bad = f"SQL result differs from the reference ({ms}) while the DataFrame chain agrees with it"
            sql_side = True
        if bad:
            report(ctx, {"case": dict(case, layout=r.get("layout")), "db_index": d, "oracle": bad, "dataframe_plan": r["df_plan"],
                                   "dataframe": r["df"][d], "sql_engine": r["sql"][d], "reference": view["expect"]},
                             key=finding_key(case, r, d, sql_side) or semcases.known_key(bad))
            return
    want_types = [{"i": "Int64", "s": "Utf8", "b": "Boolean"}[k] for k in case["schema"]]
    if r["df_types"] and r["df_types"] != want_types:
        st["df_output_types_unexpected"] += 1


def selftest(ctx, cases, res, limit=25):
    """Binding demonstration on every run: drop one row of accepted DataFrame results; the oracle must reject each."""
    import copy
    tried = detected = 0

    class Dry:
        pid, seed, tier = ctx.pid, ctx.seed, ctx.tier
        violations, known = [], []
    for c in cases:
        r = res[c["id"]]
        if c["mode"] not in ("bag", "ordered") or c["expect"]["err"] or not (r["df"][0] or {}).get("rows"):
            continue
        if classify(r["sql"][0], semcases.views(c)[0])[0] != "ok" or classify(r["df"][0], semcases.views(c)[0])[0] != "ok":
            continue
        r2 = copy.deepcopy(r)
        r2["df"][0]["rows"] = r2["df"][0]["rows"][1:]
        hits = []
        judge(ctx, c, r2, collections.Counter(), [], set(), report=lambda *a, **k: hits.append(a))
        tried += 1
        detected += 1 if hits else 0
        if tried >= limit:
            break
    if tried == 0 or detected != tried:
        raise ToolError(f"C48 selftest: {detected} of {tried} corrupted DataFrame results were rejected by the oracle")
    return {"corrupted_observations": tried, "rejected_by_oracle": detected}


def run_cases(ctx, cases, tag, threads):
    inp, out = ctx.path(f"{tag}.in.ndjson"), ctx.path(f"{tag}.out.ndjson")
    write_ndjson(inp, [dict(semcases.harness_case(c), **({"layout": c["layout"]} if c.get("layout") else {})) for c in cases])
    summary, _ = run_harness(ctx, "vsem", ["c48", "--in", inp, "--out", out, "--threads", threads], timeout=6000)
    return {r["id"]: r for r in read_ndjson(out)}, summary


def run(ctx):
    build("vsem")
    st, samples, nontrivial = collections.Counter(), [], set()
    if ctx.replay:
        rp = json.load(open(ctx.replay))
        cases = [rp["case"]]
        res, summary = run_cases(ctx, cases, "replay", 1)
    else:
        gens = [(2, 2, 2, 220, ctx.seed), (3, 1, 1, 120, ctx.seed + 1000)] if ctx.quick else \
               [(2, 2, 3, 1500, ctx.seed), (3, 2, 2, 1000, ctx.seed + 1000), (1, 3, 3, 600, ctx.seed + 2000), (4, 1, 1, 400, ctx.seed + 3000)]
        cases = semcases.generate_many(ctx, gens)
        res, summary = run_cases(ctx, cases, "c48", 6 if ctx.quick else 8)
    ops = collections.Counter()
    for c in cases:
        judge(ctx, c, res[c["id"]], st, samples, nontrivial)
        for k, v in res[c["id"]].get("ops", {}).items():
            ops[k] += v
    feats = collections.Counter()
    for c in cases:
        for f in sqlcases.features_of(c["plan"]):
            feats[f] += 1
    st_res = selftest(ctx, cases, res) if not ctx.replay else None
    if not ctx.replay:
        need = ["filter", "select", "with_column", "with_column_renamed", "select_columns", "drop_columns", "join", "join_on", "aggregate",
                "aggregate_grouping_sets", "window", "distinct", "distinct_on", "sort", "sort_by", "limit", "union", "union_distinct",
                "union_by_name", "union_by_name_distinct", "intersect", "intersect_distinct", "except", "except_distinct",
                "in_subquery", "exists", "scalar_subquery", "out_ref_col"]
        missing = [k for k in need if ops[k] == 0]
        if missing:
            raise ToolError(f"C48: DataFrame calls never exercised in this run: {missing}")
    write_evidence(ctx, "exploration", {"selftest": st_res,
        "evaluations": summary["executions"], "distinct_nontrivial": max(len(nontrivial), 0),
        "rule": "case = <plan AST, database> from SemGen.tla (seeded TLC run) with the reference result of Rel.EvalPlan; the AST is rendered to a "
                "DataFrame call chain and to SQL, both executed; non-trivial = distinct plan whose DataFrame result is non-empty and equals the "
                "non-error reference result on some database",
        "samples": samples, "cases": len(cases), "status_counts": dict(sorted(st.items())),
        "dataframe_api_calls": dict(sorted(ops.items())), "operator_coverage": dict(sorted(feats.items())),
    }, assumptions=["the two renderers (lib/sqlcases.py to SQL, harness/vsem/src/c48.rs to DataFrame calls) are trusted",
                    "DataFrame methods not generated: unnest_columns, fill_null, alias; LATERAL joins and quantified subquery comparisons have no DataFrame call (SQL side only, counted as df:error with an unsupported: message)",
                    "where the reference evaluation is an error the database is skipped; division-by-zero errors are not verdicts"])
