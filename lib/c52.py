"""C52 — qualified names round-trip through their quoted text form.

1. TLC checks spec/text/QuoteIdent.tla: Parse(Render(ref)) = ref for every table reference (1-3 parts),
   column (1-4 parts) and schema reference (1-2 parts) over all identifiers of the small alphabet
   {a, A, 1, _, ., ", space, e-acute} up to the tier's length bound (the empty identifier included), plus
   SQL keywords as identifiers; lemmas (Quote parses back to one part, bare form is lossless, Quote injective).
2. B3: every enumerated case is replayed into the real code (TableReference::{bare,partial,full} ->
   to_quoted_string -> parse_str / From<&str|&String|String> / parse_str_normalized, Column::quoted_flat_name
   -> from_qualified_name / From / FromStr / col(), quote_identifier, Display forms of all-bare references,
   and the SQL front end reading the rendered text: DROP TABLE / DROP SCHEMA / a column expression).  Oracle = the theorem instance:
   the parsed reference equals the reference that was rendered.  The text rendered by the engine is also
   compared with the TLA+ Render (a difference that still round-trips is conformance drift, not a violation).
3. The harness enumerates a larger scope natively with the same rule (all identifiers <= L chars), and all
   sqlparser keywords in lower and upper case.
"""
import json, os
from common import *

CH = {"dq": '"', "sp": " ", "eacute": "é", "eszett": "ß", "ntilde": "ñ", "Eacute": "É", "sub2": "₂", "sup2": "²", "arabic1": "١", "circled1": "①"}
UNI_IDS = "co₂,x²,a١,a①,_₂a,a1²,ß,aß,ña,añ,É,aÉ,₂,t,T x"
ALPHABET = 'aA1_." é'
KNOWN_EMPTY = "empty-identifier-part"


def s(tokens):
    return "".join(CH.get(t, t) for t in tokens)


INV_ALL = "RoundTrip FlatRoundTrip RoundTripIC FlatRoundTripIC ResolveRoundTrip Emit"
INV_BIG = "RoundTrip FlatRoundTrip RoundTripIC FlatRoundTripIC Emit"


def cfg_text(b, emit, inv=INV_ALL):
    return ("CONSTANTS\n  Alpha = {\"a\", \"A\", \"1\", \"_\", \".\", \"dq\", \"sp\", \"eacute\"}\n"
            + "  " + "  ".join(f"{k} = {v}" for k, v in b.items()) + "\n"
            + f"  EMIT = {'TRUE' if emit else 'FALSE'}\n"
            + f"SPECIFICATION Spec\nINVARIANTS {inv}\nCHECK_DEADLOCK FALSE\n")


# identifiers' max length per kind/arity (99 = none)
EMIT_BOUNDS_T = dict(T1=3, T2=2, T3=1, C1=3, C2=2, C3=1, C4=1, S1=3, S2=1, XT=2, XC=2)
EMIT_BOUNDS_Q = dict(T1=3, T2=2, T3=1, C1=3, C2=1, C3=1, C4=99, S1=2, S2=1, XT=2, XC=2)
BIG_BOUNDS_Q = dict(T1=99, T2=3, T3=99, C1=99, C2=99, C3=99, C4=99, S1=99, S2=99, XT=0, XC=0)
BIG_BOUNDS_T = dict(T1=4, T2=3, T3=2, C1=4, C2=3, C3=2, C4=1, S1=3, S2=2, XT=3, XC=3)


def classify(v):
    """known finding: a multi-part reference with an empty identifier part"""
    parts = v["parts"]
    if "" in parts:
        return KNOWN_EMPTY
    return None


def run(ctx):
    build("vtext")
    if ctx.replay:
        rp = json.load(open(ctx.replay))
        case = rp["case"]
        write_ndjson(ctx.path("cases.ndjson"), [{"k": case["kind"], "p": case["parts"]}])
        summary, _ = run_harness(ctx, "vtext", ["c52", "--in", ctx.path("cases.ndjson"), "--out", ctx.path("out.ndjson")])
        for f in summary["failures"]:
            report_violation(ctx, {"case": {"kind": f["kind"], "parts": f["parts"]}, "observed": f,
                                   "oracle": "Parse(Render(ref)) = ref (QuoteIdent.tla RoundTrip)"})
        for f in summary["failures_empty_identifier"][:1]:
            report_violation(ctx, {"case": {"kind": f["kind"], "parts": f["parts"]}, "observed": f,
                                   "oracle": "Parse(Render(ref)) = ref (QuoteIdent.tla RoundTrip)"}, key=KNOWN_EMPTY)
        for r_ in summary["sql_rejected_unexplained"][:5]:
            report_violation(ctx, {"case": case, "observed": r_, "oracle": "the SQL front end must read a rendered name back"})
        write_evidence(ctx, "model_checking", {"states": 1, "transitions": 1, "traces_validated_against_impl": summary["evaluations"],
                                               "samples": [rp["case"]]})
        return
    # 1. TLC: theorem over the emitted scope (cases printed) and over the larger check-only scope
    cfg = ctx.path("emit.cfg")
    EMIT_BOUNDS = EMIT_BOUNDS_Q if ctx.quick else EMIT_BOUNDS_T
    open(cfg, "w").write(cfg_text(EMIT_BOUNDS, True))
    r = tlc_must_pass(ctx, "text/QuoteIdent", cfg=cfg, workers=4, timeout=900, tag="emit")
    cases = tlc_cases(r.out)
    if len(cases) < 1000:
        raise ToolError(f"TLC printed only {len(cases)} cases")
    states, transitions = r.distinct, r.generated
    mc = [{"bounds": EMIT_BOUNDS, "distinct_states": r.distinct, "generated": r.generated, "wall_s": round(r.wall, 1), "cases": len(cases)}]
    big = BIG_BOUNDS_Q if ctx.quick else BIG_BOUNDS_T
    cfg2 = ctx.path("big.cfg")
    open(cfg2, "w").write(cfg_text(big, False, "RoundTrip FlatRoundTrip Emit" if ctx.quick else INV_BIG))
    r2 = tlc_must_pass(ctx, "text/QuoteIdent", cfg=cfg2, workers=4 if ctx.quick else 8, timeout=3000, tag="big", coverage=False)
    states += r2.distinct
    transitions += r2.generated
    mc.append({"bounds": big, "distinct_states": r2.distinct, "generated": r2.generated, "wall_s": round(r2.wall, 1), "cases": "check-only"})
    # vacuity of the emitted cases
    shape_tot = {}
    for c in cases:
        for k, v in c["shape"].items():
            shape_tot[k] = shape_tot.get(k, 0) + (1 if v else 0)
    for k in ("bare", "escaped", "dotted", "upper", "empty", "word"):
        if not shape_tot.get(k):
            raise ToolError(f"vacuity: no emitted case with a part of shape '{k}'")
    if not any(c["src"] == "extra" for c in cases):
        raise ToolError("vacuity: no keyword case emitted")
    # 2. replay
    inp = [{"k": c["k"], "p": [s(x) for x in c["p"]]} for c in cases]
    write_ndjson(ctx.path("cases.ndjson"), inp)
    native = "T:2:3,T:3:1,C:2:2,C:4:1,S:2:2" if ctx.quick else "T:1:5,T:2:3,T:3:2,C:2:3,C:3:2,S:2:3"
    summary, _ = run_harness(ctx, "vtext", ["c52", "--in", ctx.path("cases.ndjson"), "--out", ctx.path("out.ndjson"),
                                            "--native", native, "--alphabet", ALPHABET, "--with-empty",
                                            "--sql-every", 53 if ctx.quick else 7, "--keywords", "--native-ids", UNI_IDS,
                                            "--random", 12000 if ctx.quick else 400000], timeout=3000)
    REQUIRED = ["TableReference::parse_str(to_quoted_string)", "TableReference::parse_str_normalized(ignore_case)",
                "TableReference::parse_str_normalized(Display, ignore_case) [all parts words]", "TableReference::parse_str(Display) [all parts bare]",
                "TableReference::resolve", "TableReference::from(ResolvedTableReference)", "resolved_eq", "table()/schema()/catalog()",
                "Column::from_qualified_name(quoted_flat_name)", "Column::from_qualified_name_ignore_case(quoted_flat_name)",
                "Column::from_qualified_name_ignore_case(flat_name) [all parts words]", "Column::from_qualified_name(flat_name) [all parts bare]",
                "Column::new_unqualified(name).with_relation(rel)", "datafusion_expr::col(quoted_flat_name)",
                "SQL DROP TABLE <text> -> DropTable.name", "SQL DROP SCHEMA <text> -> SchemaReference", "SQL expression <quoted_flat_name> -> Expr::Column",
                "SQL (ident normalization off) DROP TABLE <Display> -> DropTable.name", "SQL (ident normalization off) expression <flat_name> -> Expr::Column"]
    never = [p_ for p_ in REQUIRED if not summary["path_checks"].get(p_)]
    if never:
        raise ToolError(f"vacuity: paths never exercised: {never}")
    if not (summary.get("native_ids") or {}).get("references"):
        raise ToolError("vacuity: the non-ASCII digit/letter identifiers were not enumerated")
    if not any(c["src"] == "extra" and any("sub2" in x or "eszett" in x for x in c["p"]) and len(c["p"]) >= 2 for c in cases):
        raise ToolError("vacuity: TLC emitted no multi-part reference with a non-ASCII digit/letter part")
    if not (summary.get("random") or {}).get("identifiers_of_256_or_more_chars"):
        raise ToolError("vacuity: no very long identifier was generated")
    out = read_ndjson(ctx.path("out.ndjson"))
    if len(out) != len(cases):
        raise ToolError("harness answered a different number of cases")
    # rendered text: engine vs TLA+ Render
    drift = 0
    drift_known = 0
    drift_samples = []
    for c, i, o in zip(cases, inp, out):
        want = s(c["t"])
        if o["text"] != want:
            if "" in i["p"]:
                drift_known += 1
            else:
                drift += 1
            if len(drift_samples) < 5:
                drift_samples.append({"case": i, "tla_render": want, "engine_render": o["text"], "round_trip_failed_paths": o["fails"]})
    # verdicts: a parsed reference different from the rendered one
    for f in summary["failures_empty_identifier"][:1]:
        report_violation(ctx, {"case": {"kind": f["kind"], "parts": f["parts"]}, "observed": f,
                               "oracle": "Parse(Render(ref)) = ref (QuoteIdent.tla RoundTrip)"}, key=KNOWN_EMPTY)
    for f in summary["failures"][:10]:
        report_violation(ctx, {"case": {"kind": f["kind"], "parts": f["parts"]}, "observed": f,
                               "oracle": "Parse(Render(ref)) = ref (QuoteIdent.tla RoundTrip): the text the engine rendered was parsed by the engine to a different reference"})
    # SQL front end rejecting a rendered name: tolerated only for reserved words (they are not promised to be usable unquoted in statements/expressions)
    for r_ in summary["sql_rejected_unexplained"][:5]:
        report_violation(ctx, {"case": {"kind": "T", "parts": r_["parts"]}, "observed": r_,
                               "oracle": "the SQL front end must read a rendered name back (it raised an error / resolved to something that is not this object)"})
    samples = []
    for c, i, o in list(zip(cases, inp, out))[:: max(1, len(cases) // 4)][:4]:
        samples.append({"case": i, "tla_render": s(c["t"]), "engine_render": o["text"], "failed_paths": o["fails"]})
    write_evidence(ctx, "model_checking", {
        "states": states, "transitions": transitions,
        "traces_validated_against_impl": summary["evaluations"],
        "samples": samples,
        "exhaustive": True,
        "model_checking_runs": mc,
        "tlc_cases_replayed": len(cases),
        "emitted_case_shapes": shape_tot,
        "native_scope": summary["native"],
        "keyword_sweep": summary.get("keywords"),
        "non_ascii_digit_and_letter_identifiers": summary.get("native_ids"),
        "random_wide_alphabet": summary.get("random"),
        "path_checks": summary["path_checks"],
        "round_trip_failures": summary["n_failures"],
        "round_trip_failures_with_empty_identifier_part": summary["n_failures_empty_identifier"],
        "sql_rejected": summary["sql_rejected"],
        "sql_rejected_samples": summary["sql_rejected_samples"][:4],
        "render_drift": {"differs_from_tla_render": drift, "differs_because_of_known_empty_identifier": drift_known, "samples": drift_samples},
        "rule": "a case is one reference (kind, parts); every reference over identifiers <= L chars of the 8-char alphabet (empty identifier included) is enumerated; distinct = distinct references",
    }, assumptions=[
        "domain: every identifier including the empty one (stated in QuoteIdent.tla); the empty-identifier defect (findings/C52-empty-identifier.md) is repaired in the tree and is checked strictly",
        "the harness is built with datafusion-common's `sql` feature (the sqlparser-based parse_identifiers); the feature-less fallback parser is not compiled into this build",
        "a rendered text that differs from the TLA+ Render but still parses back to the same reference is reported as render_drift, not as a violation",
        "SQL statements using reserved keywords as bare names may be rejected by the SQL parser; only a *different* resolved object is a violation there",
    ])
