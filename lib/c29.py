"""C29 — statistics reported as exact are exact.

Same recorder as C28 (observer above every node of every optimised physical plan, real execution).  Before execution
the statistics of EVERY node are read through StatisticsContext::compute and through partition_statistics, for the whole
node and for each partition; TLC validates each event log against OperatorContract.C29Viol: every component flagged
Precision::Exact (num_rows; per column null_count, min, max, sum, distinct_count) equals the value the specification
computes from the observed output of that node / partition (only where the output was observed completely).  Sources:
MemTables, Parquet files written to work/ (chunk / page statistics, no statistics, declared file sort order, filter
pushdown) registered as listing tables.  Plus the aggregate_statistics rewrite: SELECT count(*), count(c), min(c),
max(c) FROM t [WHERE ..] must return what Rel.tla's AggValue computes from the rows of t."""
import json, collections
from common import *
import contract

QUICK_CFG = ["A1", "B4", "Q1", "Q4", "N2", "F4"]
ALL_CFG = ["A1", "B4", "P4", "M4", "S3", "R2", "Q1", "Q4", "N2", "F4"]

STATQ = [
    "SELECT c1, c2 FROM t1 LIMIT 3",
    "SELECT c1, c2 FROM t2 LIMIT 2 OFFSET 1",
    "SELECT c1, c2 FROM t2 WHERE c1 > 0",
    "SELECT c1, c2 FROM t2 WHERE c1 = 1",
    "SELECT c1, c3 FROM t1 WHERE c3 = 'a' LIMIT 4",
    "SELECT c1, c2 FROM t2 WHERE c1 IS NOT NULL AND c2 >= 0",
    "SELECT c1 + 1 AS a, c2 AS b, 5 AS k FROM t2",
    "SELECT * FROM t1 a CROSS JOIN t2 b",
    "SELECT a.c1, b.c2 FROM t2 a JOIN t2 b ON a.c1 = b.c1",
    "SELECT c1, c2 FROM t2 UNION ALL SELECT c1, c2 FROM t1",
    "SELECT c1, c2 FROM t2 ORDER BY c1 ASC NULLS LAST",
    "SELECT c1, c2 FROM t2 ORDER BY c2 DESC NULLS FIRST LIMIT 3",
    "SELECT count(*) AS n FROM t1",
    "SELECT c1, count(*) AS n FROM t2 GROUP BY c1",
    "SELECT DISTINCT c1 FROM t1",
    "SELECT * FROM (SELECT c1, c2 FROM t1 LIMIT 5) s WHERE c1 > 0",
    "SELECT c2, c1 FROM t2",
    "SELECT c3 FROM t1",
    "SELECT c1, c2, c3 FROM t3 WHERE c3",
]

AGG_TARGETS = [("t1", 1), ("t1", 2), ("t1", 3), ("t2", 1), ("t2", 2), ("t3", 1), ("t3", 2)]
PREDS = {"none": "", "gt0": " WHERE c{k} > 0", "isnull": " WHERE c{k} IS NULL", "notnull": " WHERE c{k} IS NOT NULL"}


def agg_lines(dbs, cfgs):
    lines, meta = [], {}
    for di, db in enumerate(dbs):
        tabs = {t["name"]: t for t in db}
        for (tn, k) in AGG_TARGETS:
            kind = tabs[tn]["cols"][k - 1]["kind"]
            for pred, where in PREDS.items():
                if pred == "gt0" and kind != "i":
                    continue
                sql = f"SELECT count(*) AS a, count(c{k}) AS b, min(c{k}) AS c, max(c{k}) AS d FROM {tn}" + where.format(k=k)
                for cf in cfgs:
                    cfg = dict(contract.CONFIGS[cf], name=cf)
                    tt = contract.sort_tables(db, cfg["sorted"]) if cfg.get("sorted") else db
                    rid = f"agg{di}-{tn}-c{k}-{pred}/{cf}"
                    lines.append({"id": rid, "sql": sql, "tables": tt, "cfg": cfg})
                    meta[rid] = {"case": None, "cfg": cf, "sql": sql, "src": "aggregate", "tables": tt,
                                 "agg": {"rows": tabs[tn]["rows"], "col": k, "pred": pred}}
    return lines, meta


def agg_expected(ev):
    """Direct re-computation (independent of the TLA+ definition)."""
    sel = {"none": lambda v: True, "gt0": lambda v: v["k"] != "n" and v["v"] > 0,
           "isnull": lambda v: v["k"] == "n", "notnull": lambda v: v["k"] != "n"}[ev["pred"]]
    vals = [r[ev["col"] - 1] for r in ev["rows"] if sel(r[ev["col"] - 1])]
    nn = [v for v in vals if v["k"] != "n"]
    null = {"k": "n", "v": 0}
    I = lambda n: {"k": "i", "v": n}
    mn = min(nn, key=lambda v: v["v"]) if nn else null
    mx = max(nn, key=lambda v: v["v"]) if nn else null
    return [I(len(vals)), I(len(nn)), {"k": mn["k"], "v": mn["v"]}, {"k": mx["k"], "v": mx["v"]}]


def stealing(run):
    return not any(k == "datafusion.execution.enable_file_stream_work_stealing" and v == "false"
                   for k, v in contract.CONFIGS[run["cfg"]].get("settings", []))


JOIN_OPS = ("HashJoinExec", "NestedLoopJoinExec", "SortMergeJoinExec")


def known_key(run, node, k):
    """Narrow keys of genuine engine defects (known_findings.json); anything else raises."""
    _, p, f, idx = k
    allk = ("rows", "nulls", "min", "max", "sum", "ndv")
    o, whole = contract.origin_at(run, node, "C29", allk, p)
    d = o.get("detail", "")
    if p == -2:
        # the statistics-registry path; judged like the whole node.  Its own defect: operators with a fetch are passed through
        ctx_bad = any(b["n"] == o["id"] and b["p"] == -1 for b in run["rust_bad"]["C29"])
        if not ctx_bad and re.search(r"\bfetch=\d", d) and o["name"] in ("CoalescePartitionsExec", "SortPreservingMergeExec", "SortExec", "SortExec(TopK)", "RepartitionExec"):
            return "statistics-registry-passthrough-ignores-fetch"
        # otherwise the registry repeats what the built-in path reports at the origin: same defect, same key
        twins = [b for b in run["rust_bad"]["C29"] if b["n"] == o["id"] and b["p"] == -1 and b["f"] == f]
        if twins:
            return known_key(run, o, contract.bkey(twins[0]))
        return None
    # the violated entry comes from the per-partition path (partition_statistics(Some(p))) and the whole-node path holds
    part = not any(b["n"] == o["id"] and b["p"] < 0 for b in run["rust_bad"]["C29"])
    if o["name"] == "DataSourceExec" and "partition_sizes=" in d and "fetch=" in d:
        return "memory-source-statistics-ignore-fetch"
    if o["name"] == "DataSourceExec" and "file_groups=" in d and re.search(r"\blimit=\d", d):
        return "file-scan-statistics-ignore-limit"
    if o["name"] == "DataSourceExec" and "file_groups=" in d and part and "predicate=" in d:
        return "file-scan-partition-statistics-ignore-filter"
    if (o["name"] == "DataSourceExec" and "file_groups=" in d and part and o["np"] > 1 and stealing(run)):
        # the scan's whole-node statistics hold; only the attribution of files to partitions is dynamic
        return "file-scan-partition-statistics-under-work-stealing"
    if o["name"].startswith("SortExec") and "preserve_partitioning=[true]" in d and o["fetch"] and o["np"] > 1 and whole and f == "rows":
        return "sort-fetch-statistics-ignore-preserved-partitioning"
    if ((o["name"].startswith("SortExec") and "TopK" in d and "preserve_partitioning=[true]" in d and o["np"] > 1 and p >= 0 and o["id"] == node["id"] or
            o["name"].startswith("SortExec") and "TopK" in d and "preserve_partitioning=[true]" in d and o["np"] > 1 and part)
            and "datafusion.optimizer.enable_topk_dynamic_filter_pushdown" not in str(contract.CONFIGS[run["cfg"]])):
        return "topk-partition-statistics-under-shared-dynamic-filter"
    if o["name"] == "UnionExec" and f in ("min", "max"):
        # an input that emitted no row declares an Exact min/max (FilterExec on `col = literal`) which the union merges
        for c in contract.children(run, o):
            empty = sum(b["n"] for s in c["streams"] for b in s["batches"]) == 0
            if empty and any(st["cols"] and st["cols"][idx - 1][f]["x"] == 1 for st in c["stats"] if idx - 1 < len(st["cols"])):
                return "union-merges-exact-minmax-of-an-empty-input"
    if f in ("nulls", "min", "max", "sum", "ndv"):
        o, _ = contract.origin_at(run, node, "C29", ("nulls", "min", "max", "sum", "ndv"), p)
        m = re.search(r"join_type=(\w+)", o.get("detail", ""))
        if o["name"] in JOIN_OPS and m and m.group(1) in ("Inner", "Left", "Right", "Full"):
            return "join-copies-exact-column-statistics-of-its-inputs"
    return None


def run(ctx):
    build("vcontract")
    if ctx.replay:
        rp = json.load(open(ctx.replay))
        line = rp["line"]
        runs, _ = contract.record(ctx, [line])
        meta = {line["id"]: {"sql": line["sql"], "tables": line["tables"], "cfg": line["cfg"]["name"], "case": None, "agg": rp.get("agg")}}
        attach_agg(runs, meta)
        res = contract.judge(ctx, "C29", runs, meta, known_key=known_key)
        write_evidence(ctx, "exploration", {"evaluations": 1, "distinct_nontrivial": 2, "rule": "replay of one recorded run",
                                            "samples": [{"sql": line["sql"]}], **res})
        return
    cfgs = QUICK_CFG if ctx.quick else ALL_CFG
    lines, meta, tlcruns = contract.build_runs(ctx, n_tlc=40 if ctx.quick else 300, n_big=1 if ctx.quick else 5, configs=cfgs,
                                               corpus=1 if ctx.quick else 3, extra_corpus=STATQ, corpus_tlc_db=not ctx.quick, corpus_cfgs=3 if ctx.quick else None,
                                               gens=None if ctx.quick else [(2, 2, ctx.seed), (3, 2, ctx.seed + 1000), (4, 1, ctx.seed + 2000)])
    # databases for the aggregate-from-statistics cases: the larger random ones and a TLC-generated one
    dbs = []
    for rid, m in meta.items():
        if m["src"] == "corpus" and not any(m["tables"][0]["rows"] == d[0]["rows"] for d in dbs) and not m["tables"][0].get("sort"):
            dbs.append([{k: v for k, v in t.items() if k != "sort"} for t in m["tables"]])
    contract.matrix_runs(ctx, lines, meta, thorough=not ctx.quick)
    al, am = agg_lines(dbs[:2 if ctx.quick else 4], cfgs)
    lines += al
    meta.update(am)
    runs, summary = contract.record(ctx, lines)
    attach_agg(runs, meta)
    res = contract.judge(ctx, "C29", runs, meta, known_key=known_key)
    ok = [r for r in runs if r["status"] == "ok"]
    judged_ops = contract.require_operators(ok, contract.REQUIRED_OPERATORS)
    exact = collections.Counter()
    judged = collections.Counter()
    for r in ok:
        for n in r["nodes"]:
            for s in n["stats"]:
                comp = {"rows": s["rows"]["x"]}
                for f in ("nulls", "min", "max", "sum", "ndv"):
                    comp[f] = sum(c[f]["x"] for c in s["cols"])
                for f, v in comp.items():
                    if v:
                        exact[contract.op_label(n).split(":")[0] + "." + f] += v
                        if n["full"]:
                            judged[f] += v
    rewritten = sum(1 for r in ok if r.get("agg") and any(n["name"] == "PlaceholderRowExec" for n in r["nodes"]))
    aggn = sum(1 for r in ok if r.get("agg"))
    nontrivial = {r["plan"] + meta[r["id"]]["cfg"] for r in ok
                  if any(n["full"] and n["stats"] and any(b["n"] > 0 for s in n["streams"] for b in s["batches"]) for n in r["nodes"])}
    sample = next((r for r in ok if r.get("agg") and any(n["name"] == "PlaceholderRowExec" for n in r["nodes"])), ok[0])
    sn = next((n for n in sample["nodes"] if n["stats"]), sample["nodes"][0])
    write_evidence(ctx, "exploration", {
        "evaluations": len(ok), "distinct_nontrivial": len(nontrivial),
        "rule": "case = one query over one database in one storage form (MemTable / Parquet listing table with chunk or page statistics / without statistics) under one "
                "session configuration, executed by the real engine with an observer above every node; non-trivial = distinct <physical plan, configuration> where some node "
                "reports an Exact statistic, was consumed in full and emitted at least one row",
        "samples": [{"sql": meta[sample["id"]]["sql"], "cfg": meta[sample["id"]]["cfg"], "plan": sample["plan"], "result": sample["result"][:3],
                     "node": sn["detail"], "exact_statistics": sn["stats"][:1]}],
        "configurations": cfgs + sorted({c for f in contract.FAMILIES.values() for c in f[1]}), "operator_coverage": contract.coverage(ok),
        "operators_judged_output_consumed_in_full": judged_ops, "operator_types_not_reached": contract.NOT_REACHED,
        "exact_components_by_operator": dict(sorted(exact.items())), "exact_components_judged": dict(judged),
        "aggregate_queries": aggn, "aggregate_queries_answered_from_statistics": rewritten,
        "sources": dict(collections.Counter(meta[r["id"]]["src"] for r in ok)),
        "storage": dict(collections.Counter(contract.CONFIGS[meta[r["id"]]["cfg"]].get("source", "mem") for r in ok)),
        "tlc_generated_cases": sum(t.distinct for t in tlcruns), **res,
    }, assumptions=[
        "observers are shown inert on every run (same result bag as the un-instrumented plan; LIMIT/OFFSET without a total order exempt)",
        "a statistic is judged only where the whole output was observed: node consumed in full (End recorded for every partition) and each judged partition executed exactly once",
        "min / max / sum / distinct_count are not judged when the observed column has no non-NULL value (the statistic of an empty set is not defined by the property); "
        "distinct_count may or may not count NULL; an Exact(NULL) min / max / sum is the engine's convention for 'unknown' and is not judged; total_byte_size and Inexact / Absent components are not judged",
        "self-test on every run: recorded logs are corrupted (exact row count, null count, max off by one) and TLC must reject each",
    ])


def attach_agg(runs, meta):
    """Aggregate-from-statistics events: the rows of the table and the row the engine returned; plus the direct re-check."""
    for r in runs:
        a = (meta.get(r["id"]) or {}).get("agg")
        if r["status"] != "ok" or not a:
            continue
        if len(r["result"]) != 1 or len(r["result"][0]) != 4:
            r["rust_bad"]["C29"].append({"n": 0, "p": -1, "f": "aggregate", "k": 0})
            continue
        res = [{"k": v["k"], "v": v["v"]} for v in r["result"][0]]
        r["agg"] = [{"rows": a["rows"], "col": a["col"], "pred": a["pred"], "result": res}]
        exp = agg_expected(r["agg"][0])
        for k in range(4):
            if res[k] != exp[k]:
                r["rust_bad"]["C29"].append({"n": 0, "p": -1, "f": "aggregate", "k": k + 1})
