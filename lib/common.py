"""Shared machinery for /verif/bin/check.

Contract of a check (see MANIFEST.json): exit 0 = property held on everything explored,
exit 1 + line "VIOLATION property=<id> replay=<path>" = violation on the real code,
exit 2 = the machinery itself failed (build error, TLC crash, timeout).  Every run rewrites
/verif/evidence/<id>.json with counts measured on that run.
"""
import json, os, re, subprocess, sys, time, shutil, hashlib, random

VERIF = os.path.dirname(os.path.dirname(os.path.abspath(__file__)))
SPEC = os.path.join(VERIF, "spec")
HARNESS = os.path.join(VERIF, "harness")
WORK = os.path.join(VERIF, "work")
EVID = os.path.join(VERIF, "evidence")
REPLAYS = os.path.join(VERIF, "replays")
TLA_CP = "/opt/veriftools/tla/tla2tools.jar:/opt/veriftools/tla/CommunityModules-deps.jar"


class ToolError(Exception):
    """Machinery failure (not a verdict about the property)."""


def log(*a):
    print("[check]", *a, file=sys.stderr, flush=True)


class Ctx:
    def __init__(self, pid, tier, seed, replay=None):
        self.pid = pid
        self.tier = tier
        self.seed = seed
        self.replay = replay
        self.t0 = time.time()
        self.work = os.path.join(WORK, pid)
        shutil.rmtree(self.work, ignore_errors=True)
        os.makedirs(self.work, exist_ok=True)
        self.violations = []          # list of replay paths
        self.known = []
        self.cov = {}
        self.assumptions = []
        self.rng = random.Random(seed)

    @property
    def quick(self):
        return self.tier == "quick"

    def path(self, name):
        return os.path.join(self.work, name)


# ----------------------------------------------------------------------------- build

_built = set()


def build(crate):
    """cargo build the harness crate from /repo's current working tree (hooks on)."""
    if crate in _built:
        return os.path.join(HARNESS, "target", "debug", crate)
    t = time.time()
    env = dict(os.environ, CARGO_NET_OFFLINE="true")
    p = subprocess.run(["cargo", "build", "--offline", "-q", "-p", crate], cwd=HARNESS,
                       stdout=subprocess.PIPE, stderr=subprocess.STDOUT, text=True, env=env)
    if p.returncode != 0:
        sys.stderr.write(p.stdout[-6000:])
        raise ToolError(f"cargo build -p {crate} failed")
    log(f"build {crate}: {time.time()-t:.1f}s")
    _built.add(crate)
    return os.path.join(HARNESS, "target", "debug", crate)


def run_harness(ctx, crate, args, timeout=1800, stdin=None, env=None, check=True):
    """Run a harness binary.  Its stdout's last line that parses as JSON is the summary."""
    exe = build(crate)
    e = dict(os.environ, VERIF_SEED=str(ctx.seed), VERIF_TIER=ctx.tier, RUST_BACKTRACE="0")
    if env:
        e.update(env)
    t = time.time()
    try:
        p = subprocess.run([exe] + [str(a) for a in args], cwd=ctx.work, stdout=subprocess.PIPE,
                           stderr=subprocess.PIPE, text=True, timeout=timeout, input=stdin, env=e)
    except subprocess.TimeoutExpired:
        raise ToolError(f"harness {crate} {args} timed out after {timeout}s")
    log(f"harness {crate} {' '.join(map(str, args))[:120]}: {time.time()-t:.1f}s rc={p.returncode}")
    if p.returncode != 0 and check:
        sys.stderr.write(p.stderr[-8000:])
        sys.stderr.write(p.stdout[-2000:])
        raise ToolError(f"harness {crate} exited {p.returncode}")
    summary = None
    for line in reversed(p.stdout.strip().splitlines()):
        line = line.strip()
        if line.startswith("{"):
            try:
                summary = json.loads(line)
                break
            except Exception:
                continue
    return summary, p


# ----------------------------------------------------------------------------- TLC

STATS_RE = re.compile(r"(\d+) states generated, (\d+) distinct states found")
SIM_RE = re.compile(r"(\d+) states checked")


class TlcResult:
    def __init__(self, out, rc, wall):
        self.out = out
        self.rc = rc
        self.wall = wall
        m = STATS_RE.findall(out)
        self.generated, self.distinct = (int(m[-1][0]), int(m[-1][1])) if m else (0, 0)
        self.ok = ("Model checking completed. No error has been found" in out) or \
                  (rc == 0 and "Error:" not in out)
        self.invariant_violated = re.findall(r"Invariant (\S+) is violated", out)
        self.deadlock = "Deadlock reached" in out
        self.temporal_violated = "Temporal properties were violated" in out
        self.coverage = {}

    def action_counts(self):
        """Per-action (distinct, total) counts from -coverage output."""
        res = {}
        for m in re.finditer(r"<(\w+) line \d+, col \d+ to line \d+, col \d+ of module (\w+)>: (\d+):(\d+)", self.out):
            res[m.group(1)] = (int(m.group(3)), int(m.group(4)))
        return res


def tlc(ctx, module, cfg=None, workers=8, mode_args=(), timeout=1200, env=None, xmx="8g",
        coverage=False, deadlock=True, tag=None, spec_dirs=None, xss=None):
    """Run TLC on spec/<...>/<module>.tla.  `module` may be a path relative to spec/."""
    path = module if os.path.isabs(module) else os.path.join(SPEC, module)
    if not path.endswith(".tla"):
        path += ".tla"
    d = os.path.dirname(path)
    cfg = cfg or (os.path.splitext(path)[0] + ".cfg")
    if not os.path.isabs(cfg):
        cfg = os.path.join(SPEC, cfg)
    meta = ctx.path("tlc-" + (tag or os.path.basename(path)[:-4]))
    shutil.rmtree(meta, ignore_errors=True)
    os.makedirs(meta, exist_ok=True)
    dirs = [d] + [os.path.join(SPEC, s) for s in (spec_dirs or [])]
    # every spec directory is on the library path so modules can EXTEND the shared library
    for sub in sorted(os.listdir(SPEC)):
        p = os.path.join(SPEC, sub)
        if os.path.isdir(p) and p not in dirs:
            dirs.append(p)
    java = ["java", "-XX:+UseParallelGC", f"-Xmx{xmx}"]
    if xss:
        java.append(f"-Xss{xss}")
    java += ["-DTLA-Library=" + os.pathsep.join(dirs), "-cp", TLA_CP, "tlc2.TLC"]
    cmd = java + ["-workers", str(workers), "-metadir", meta, "-noGenerateSpecTE",
                  "-config", cfg]
    if coverage:
        cmd += ["-coverage", "1"]
    if not deadlock:
        cmd += ["-deadlock"]
    cmd += list(mode_args) + [path]
    e = dict(os.environ)
    if env:
        e.update({k: str(v) for k, v in env.items()})
    t = time.time()
    try:
        p = subprocess.run(cmd, cwd=d, stdout=subprocess.PIPE, stderr=subprocess.STDOUT, text=True,
                           timeout=timeout, env=e)
    except subprocess.TimeoutExpired:
        raise ToolError(f"TLC {module} timed out after {timeout}s")
    finally:
        shutil.rmtree(meta, ignore_errors=True)
    r = TlcResult(p.stdout, p.returncode, time.time() - t)
    log(f"tlc {os.path.basename(path)} cfg={os.path.basename(cfg)}: {r.wall:.1f}s rc={p.returncode} "
        f"generated={r.generated} distinct={r.distinct}")
    return r


def tlc_must_pass(ctx, module, **kw):
    """Model-check; a failure here is a failure of the *specification* (machinery), exit 2."""
    r = tlc(ctx, module, **kw)
    if not r.ok or r.invariant_violated or r.temporal_violated or (r.deadlock):
        sys.stderr.write(r.out[-6000:])
        raise ToolError(f"TLC reported an error on {module} (specification-level; see output)")
    return r


PRINT_RE = re.compile(r'^<<"(REPLAY|CASE)", (.*)>>\s*$')


def tlc_cases(out):
    """Extract JSON payloads printed by TLC as  <<"CASE", "json">>  (string is TLA-escaped)."""
    res = []
    for line in out.splitlines():
        m = PRINT_RE.match(line)
        if not m:
            continue
        s = m.group(2)
        if s.startswith('"') and s.endswith('"'):
            s = s[1:-1].replace('\\"', '"').replace('\\\\', '\\')
        try:
            res.append(json.loads(s))
        except Exception as ex:  # pragma: no cover
            raise ToolError(f"cannot parse TLC case line: {line[:200]} ({ex})")
    return res


def tlc_trace_validate(ctx, module, cfg, trace_path, timeout=600, tag=None, extra_env=None):
    """Validate an NDJSON trace against a trace spec (single worker, DFS queue)."""
    env = {"TRACE": trace_path,
           "JAVA_TOOL_OPTIONS": "-Xss1g -Dtlc2.tool.queue.IStateQueue=StateDeque"}
    if extra_env:
        env.update(extra_env)
    return tlc(ctx, module, cfg=cfg, workers=1, env=env, timeout=timeout, xmx="4g",
               deadlock=True, tag=tag)


# ----------------------------------------------------------------------------- verdicts

def load_known():
    p = os.path.join(VERIF, "known_findings.json")
    if os.path.exists(p):
        return json.load(open(p))
    return {"known": [], "fixed": []}


def report_violation(ctx, replay_obj, key=None):
    """Record a violation of the property observed on the real code.

    `key` identifies the specific failing site/input/history; if known_findings.json lists it
    as `known` for this property, a KNOWN-FINDING line is printed instead."""
    if key is None:
        m = re.match(r"KNOWN\[([^\]]+)\]", str(replay_obj.get("oracle", "")))
        if m:
            key = m.group(1)
    for k in load_known().get("known", []):
        if (k.get("property") == ctx.pid or ctx.pid in k.get("properties", [])) and key is not None and k.get("key") == key:
            if key not in ctx.known:
                ctx.known.append(key)
                print(f"KNOWN-FINDING: property={ctx.pid} {k.get('what', key)}", flush=True)
            return None
    os.makedirs(REPLAYS, exist_ok=True)
    n = len(ctx.violations)
    path = os.path.join(REPLAYS, f"{ctx.pid}-{ctx.seed}-{n}.json")
    replay_obj = dict(replay_obj, property=ctx.pid, tier=ctx.tier, seed=ctx.seed)
    with open(path, "w") as f:
        json.dump(replay_obj, f, indent=1, default=str)
    ctx.violations.append(path)
    print(f"VIOLATION property={ctx.pid} replay={path}", flush=True)
    return path


def write_evidence(ctx, level, coverage, assumptions=None):
    os.makedirs(EVID, exist_ok=True)
    cov = dict(coverage)
    ev = {
        "property_id": ctx.pid,
        "tier": ctx.tier,
        "seed": ctx.seed,
        "level": level,
        "coverage": cov,
        "assumptions": (assumptions or []) + ctx.assumptions,
        "wall_s": round(time.time() - ctx.t0, 2),
        "violations": len(ctx.violations),
    }
    if ctx.known:
        ev["known_findings_hit"] = ctx.known
    with open(os.path.join(EVID, ctx.pid + ".json"), "w") as f:
        json.dump(ev, f, indent=1, default=str)


def write_ndjson(path, items):
    with open(path, "w") as f:
        for it in items:
            f.write(json.dumps(it, separators=(",", ":")) + "\n")


def read_ndjson(path):
    res = []
    with open(path) as f:
        for line in f:
            line = line.strip()
            if line:
                res.append(json.loads(line))
    return res


def distinct_count(items):
    return len({hashlib.sha1(json.dumps(i, sort_keys=True).encode()).hexdigest() for i in items})
