"""C21 — spill files round-trip exactly; disk usage accounting stays exact.

1. TLC model-checks spec/proto/DiskMgr.tla (FileSpillWriter::write cut at its four shared-memory
   accesses, 2 threads, OS write faults, limit changes, Arc- and struct-level clones) exhaustively:
   used = sum of live file usage (+ in-flight), zero after release also after failed/rejected
   writes, active = |live|, admitted writes within the limit.  The same module with FIXED = FALSE
   (the pinned code: no rollback after a failed OS write) must violate UsedEqSum (sensitivity).
2. B3: every sequential behaviour of DiskMgr (T = 1) up to MAXOPS operations + seeded random longer
   ones are replayed on the real DiskManager / RefCountedTempFile / FileSpillWriter with real files
   and real (ENOSPC) write failures; after every operation used_disk_space(), spilling_progress(),
   every handle's size(), the file length on disk and the operation's result are compared with the
   values the specification expects, and with the property itself (independent oracle).
3. B3: every history of spec/proto/SpillFile.tla (append kinds / flush / finish) is replayed on
   InProgressSpillFile / SpillManager::spill_record_batch_and_finish over 26 column kinds x 3 codecs
   x read-buffer capacities x runtime flavours, read back twice and compared for logical equality
   in order; each is re-run with a write fault at OS write call k and with disk limits just below
   every cumulative size (error must surface, usage within limit, zero after release).
"""
import json, os
from common import *

KEY = "os-write-failure-leaks-global-usage"
INVS = "TypeOK UsedEqSum UsedEqSumQuiescent ZeroAfterRelease ActiveEq LimitRespected SeqWithinLimit"


def dm_cfg(nf, t, maxops, fixed=True, sizes="{0, 1, 2}", limits="{2, 3, 1000000}", lim0=3, maxh=2, view=True, invs=INVS, mut=False):
    s = (f"CONSTANTS NF = {nf}  T = {t}  SIZES = {sizes}  LIMITS = {limits}  LIM0 = {lim0}  MAXH = {maxh}  "
         f"MAXOPS = {maxops}  FAULTS = TRUE  FIXED = {'TRUE' if fixed else 'FALSE'}  MUT = {'TRUE' if mut else 'FALSE'}\nSPECIFICATION Spec\n")
    if view:
        s += "VIEW view\n"
    s += f"INVARIANTS {invs}\nCHECK_DEADLOCK FALSE\n"
    return s


def harness(ctx, mode, cases, tag, timeout=3000):
    inp = ctx.path(f"{tag}.ndjson")
    write_ndjson(inp, cases)
    out = ctx.path(f"{tag}.json")
    run_harness(ctx, "vpool", ["c21", "--mode", mode, "--in", inp, "--out", out], timeout=timeout)
    res = json.load(open(out))
    if res.get("tool_errors"):
        raise ToolError("harness machinery errors: " + "; ".join(res["tool_errors"][:3]))
    return res


def run(ctx):
    build("vpool")
    if ctx.replay:
        out = ctx.path("res.json")
        run_harness(ctx, "vpool", ["c21", "--replay", os.path.abspath(ctx.replay), "--out", out])
        res = json.load(open(out))
        for v in res["violations"]:
            report_violation(ctx, v)
        write_evidence(ctx, "model_checking", {"states": 1, "transitions": 1, "traces_validated_against_impl": res["evaluations"],
                                               "samples": res["samples"][:1] or [{"replayed": ctx.replay}]})
        return
    workers = 4 if ctx.quick else 8
    # ---- 1. exhaustive model checking of the accounting design (2 threads)
    mc = []
    states = transitions = 0
    taken = {}
    exh = [dict(nf=2, t=2, maxops=5)] if ctx.quick else [dict(nf=2, t=2, maxops=7), dict(nf=3, t=2, maxops=6, maxh=2), dict(nf=2, t=3, maxops=5)]
    for i, c in enumerate(exh):
        cfg = ctx.path(f"mc{i}.cfg")
        open(cfg, "w").write(dm_cfg(**c))
        r = tlc_must_pass(ctx, "proto/DiskMgr", cfg=cfg, workers=workers, coverage=True, tag=f"mc{i}", timeout=3000)
        states += r.distinct
        transitions += r.generated
        mc.append({"constants": c, "distinct_states": r.distinct, "generated": r.generated, "wall_s": round(r.wall, 1)})
        for a, (d, t) in r.action_counts().items():
            taken[a] = taken.get(a, 0) + t
    never = [a for a in ("Create", "CloneArc", "CloneStruct", "DropH", "Reopen", "SetLimit", "W_add", "W_check", "W_os", "W_file") if taken.get(a, 0) == 0]
    if never:
        raise ToolError(f"vacuity: specification actions never taken: {never}")
    # sensitivity: the pinned behaviour (no rollback after a failed OS write) must break the invariant
    cfg = ctx.path("pinned.cfg")
    open(cfg, "w").write(dm_cfg(nf=1, t=1, maxops=4, fixed=False))
    rp = tlc(ctx, "proto/DiskMgr", cfg=cfg, workers=2, tag="pinned")
    if not ({"UsedEqSum", "UsedEqSumQuiescent", "ZeroAfterRelease"} & set(rp.invariant_violated)):
        sys.stderr.write(rp.out[-3000:])
        raise ToolError("DiskMgr with FIXED=FALSE no longer violates the accounting invariants (specification lost its teeth)")
    # negative control: check-then-add (load; compare; write; add) lets two writers released together both pass the check
    cfg = ctx.path("mut.cfg")
    open(cfg, "w").write(dm_cfg(nf=2, t=2, maxops=4, mut=True, invs="LimitRespected"))
    rm = tlc(ctx, "proto/DiskMgr", cfg=cfg, workers=2, tag="mut")
    if "LimitRespected" not in rm.invariant_violated:
        sys.stderr.write(rm.out[-3000:])
        raise ToolError("negative control: DiskMgr with MUT=TRUE (check-then-add) no longer violates LimitRespected")
    # ---- 2. sequential histories -> real DiskManager
    gens = [dict(nf=2, t=1, maxops=5, maxh=3)] if ctx.quick else [dict(nf=3, t=1, maxops=5, maxh=3), dict(nf=2, t=1, maxops=6, maxh=3),
                                                                  dict(nf=2, t=1, maxops=5, maxh=3, lim0=2, sizes="{1, 3}", limits="{1, 3, 4}")]
    histories = []
    for i, c in enumerate(gens):
        cfg = ctx.path(f"gen{i}.cfg")
        open(cfg, "w").write(dm_cfg(view=False, invs="Emit " + INVS, **c))
        r = tlc_must_pass(ctx, "proto/DiskMgrGen", cfg=cfg, workers=workers, tag=f"gen{i}", timeout=3000)
        cs = tlc_cases(r.out)
        del r
        if not cs:
            raise ToolError("TLC produced no histories")
        if len(cs) > 60000:       # thorough: the 6-operation set is sampled (seeded); the <=5-operation sets are complete
            cs = ctx.rng.sample(cs, 60000)
        histories += cs
    exhaustive_n = len(histories)
    if ctx.quick:
        # quick tier: every history of <= 4 operations (prefix-closed: take the distinct 4-prefixes) and a seeded
        # sample of the 5-operation ones
        pref = {json.dumps(h["ops"][:4]): dict(h, ops=h["ops"][:4]) for h in histories}
        histories = list(pref.values()) + ctx.rng.sample(histories, min(5000, len(histories)))
    # seeded random longer histories
    simc = dict(nf=3, t=1, maxops=10 if ctx.quick else 14, maxh=3, sizes="{0, 1, 2, 3}", limits="{2, 3, 5, 1000000}", lim0=5)
    cfg = ctx.path("sim.cfg")
    open(cfg, "w").write(dm_cfg(view=False, invs="Emit " + INVS, **simc))
    nsim = 600 if ctx.quick else 30000
    r = tlc(ctx, "proto/DiskMgrGen", cfg=cfg, workers=1, deadlock=False, tag="sim",
            mode_args=["-simulate", f"num={nsim}", "-depth", "80", "-seed", str(ctx.seed)], timeout=1500)
    sims = tlc_cases(r.out)
    if ("Error:" in r.out and not sims) or not sims:
        sys.stderr.write(r.out[-3000:])
        raise ToolError("TLC simulation of DiskMgrGen failed")
    histories += sims
    acct = harness(ctx, "acct", histories, "acct")
    for v in acct["violations"]:
        report_violation(ctx, v)
    if acct["known"]:
        report_violation(ctx, {"kind": "acct", "known": acct["known"][0]}, key=KEY)
    # ---- 3. spill file round trips
    cfg = ctx.path("sf.cfg")
    open(cfg, "w").write('CONSTANTS KINDS = {"full", "empty", "sliced", "nulls"}  MAXOPS = %d\nSPECIFICATION Spec\n'
                         'INVARIANTS FinishedNonEmpty ContentIsAppends Emit\nCHECK_DEADLOCK FALSE\n' % (4 if ctx.quick else 5))
    r = tlc_must_pass(ctx, "proto/SpillFile", cfg=cfg, workers=2, tag="sf")
    sf_states, sf_trans = r.distinct, r.generated
    rtcases = tlc_cases(r.out)
    ctx.rng.shuffle(rtcases)          # the harness cycles column kinds / codecs by index
    rt = harness(ctx, "rt", rtcases, "rt")
    for v in rt["violations"]:
        report_violation(ctx, v)
    if rt["known"]:
        report_violation(ctx, {"kind": "rt", "known": rt["known"][0]}, key=KEY)
    if rt["column_kinds_as_first_column"] < 26 or rt["batches_read"] == 0:
        raise ToolError("round trip coverage collapsed")
    # ---- 4. real threads (oracles restricted to what DiskMgr.tla proves for every interleaving; see c21t.rs)
    tout = ctx.path("threads.json")
    run_harness(ctx, "vpool", ["c21", "--mode", "threads", "--out", tout], timeout=3000)
    thr = json.load(open(tout))
    for v in thr["violations"]:
        report_violation(ctx, v)
    write_evidence(ctx, "model_checking", {
        "real_threads": {k: thr[k] for k in thr if k not in ("violations", "samples", "tool_errors", "known")},
        "real_threads_note": "workers within byte budgets, hogs issuing only over-limit writes, observer + barriers; asserted: used <= live budgets + in-flight bound in every sample, rejected writes change nothing, exact equality and committed <= limit at quiescent points, zero after release. A fitting write refused while a hog's bytes are in flight is the documented add-check-rollback design and is only counted. A breach is a violation; absence proves nothing beyond the schedules that occurred",
        "states": states + sf_states, "transitions": transitions + sf_trans,
        "traces_validated_against_impl": acct["evaluations"] + rt["evaluations"],
        "samples": (acct["samples"][:1] + rt["samples"][:1]) or [histories[0]],
        "exhaustive": True,
        "model_checking_runs": mc,
        "pinned_model_violates": rp.invariant_violated,
        "mut_check_then_add_refuted_by_tlc": rm.invariant_violated,
        "accounting_histories": {"exhaustive_from_tlc": exhaustive_n, "replayed_total": len(histories), "random_from_tlc_simulate": len(sims),
                                 "replayed_ok": acct["evaluations"], "ops": acct["ops"], "writes_ok": acct["writes_ok"],
                                 "writes_rejected_by_limit": acct["writes_rejected"], "writes_failed_os": acct["writes_oserr"],
                                 "releases": acct["releases"], "known_leak_events": acct["known_leak_events"],
                                 "histories_with_known_leak": acct["histories_with_known_leak"],
                                 "ops_checked_by_property_oracle_only_after_a_leak": acct["post_leak_ops"]},
        "round_trip": {k: rt[k] for k in ("evaluations", "fault_runs", "limit_runs", "known_leak_runs", "gc_candidate_cases", "rows_read",
                                          "batches_read", "column_kinds_as_first_column", "distinct_nontrivial")},
        "hook_sites_hit": {"acct": acct["sites"], "rt": rt["sites"]},
        "rule": "accounting case = one complete sequential behaviour of DiskMgr.tla (all of them up to the bound + seeded simulation), distinct by construction; "
                "round-trip case = SpillFile.tla history x (first column kind, codec, buffer capacity, runtime flavour, API), distinct = distinct such tuples",
    }, assumptions=[
        "OS write failures are real ENOSPC errors from the cfg switch in FileSpillWriter::write (file handle swapped for /dev/full); the writer stays broken afterwards, as modelled",
        "struct-level RefCountedTempFile clones are reached through the cfg-only accessor verif_clone_of (not reachable through the public API)",
        "the limit changes only between writes (with a write in flight TLC exhibits the benign stale-check race, see DiskMgr.tla SetLimit)",
        "the interleavings of write are explored exhaustively in the model only; on the real code they are sampled by uncontrolled OS-thread runs, not enumerated",
        "value equality of batches is Arrow logical equality (ArrayData ==) plus equality of the rendered text; byte-level IPC fidelity is not modelled",
        "after the first occurrence of the known leak in a history the remaining operations are checked by the property-level oracle (used - leak = sum of live sizes, limit, zero after release) because the model's expected values assume the rollback",
    ])
