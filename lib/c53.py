"""C53 — reported row-count metrics equal the rows actually produced.

Same recorder as C28 (observer above every node of every optimised physical plan, real execution).  After execution
`metrics()` of every executed node is read; TLC validates each event log against OperatorContract.C53Viol: a node that
was consumed in full (decided from the recorded End events of all its partitions) reports output_rows = the rows its
observer counted.  EXPLAIN ANALYZE: the real AnalyzeExec is run over a separately planned instrumented copy and the
output_rows it RENDERS for every node must equal the observer's count (AnalyzeViol).  Spill metrics: histories of the
public spill API (SpillManager / InProgressSpillFile) on the real code, every file read back: spilled_rows = rows in the
files, spill_count = files (SpillViol); plus queries under a bounded memory pool so that sorts and aggregations spill."""
import json, collections
from common import *
import contract

QUICK_CFG = ["A1", "B4", "P4", "M4", "L2"]
ALL_CFG = ["A1", "B4", "P4", "M4", "S3", "R2", "V4", "Q4", "L2"]

# bounded memory pool: sorts / aggregations over the larger tables spill
contract.CONFIGS["L1"] = dict(partitions=1, batch_rows=512, memory_limit=100000, settings=[[contract.TP, "1"]])
contract.CONFIGS["L2"] = dict(partitions=2, batch_rows=8, memory_limit=60000,
                              settings=[[contract.TP, "2"], [contract.BS, "8"],
                                        ["datafusion.execution.sort_spill_reservation_bytes", "1024"],
                                        ["datafusion.execution.sort_in_place_threshold_bytes", "0"]])

SPILLQ = [
    "SELECT c1, c2, c3 FROM t1 ORDER BY c3 ASC NULLS LAST, c2 DESC NULLS FIRST, c1 ASC NULLS LAST",
    "SELECT c1, c2 FROM t2 ORDER BY c2 ASC NULLS FIRST, c1 DESC NULLS LAST",
    "SELECT c1, c2, c3, count(*) AS n FROM t1 GROUP BY c1, c2, c3",
    "SELECT a.c1, a.c2, b.c2 AS d FROM t1 a JOIN t2 b ON a.c1 = b.c1 ORDER BY d ASC NULLS LAST, a.c2 ASC NULLS LAST",
]


def known_key(run, node, k):
    _, p, f, idx = k
    m = re.search(r"join_type=(\w+)", node.get("detail", ""))
    if (node["name"] == "PiecewiseMergeJoinExec" and f in ("output_rows", "part_rows", "analyze_rows") and m
            and m.group(1) in ("Inner", "Left", "Right", "Full") and node["metrics"]["rows"] == 0):
        return "piecewise-merge-join-classic-stream-never-records-output-rows"
    return None


def attach(runs, spill):
    """Run-level events for the specification + their direct re-check."""
    for r in runs:
        if r["status"] != "ok":
            continue
        r["spill"] = []
        for n in r["nodes"]:
            m = n["metrics"]
            if m["spills"] >= 0 and m["spilled"] >= 0 and ((m["spills"] > 0) != (m["spilled"] > 0)):
                r["rust_bad"]["C53"].append({"n": n["id"], "p": -1, "f": "spill_consistency", "k": 0})
        for a in r.get("analyze", []):
            if a["full"] and a["has"] and a["rv"] != a["emitted"]:
                r["rust_bad"]["C53"].append({"n": a["id"], "p": -1, "f": "analyze_rows", "k": 0})
    out = []
    for h in spill:
        bad = []
        for i, f in enumerate(h["files"]):
            if f["some"] and f["read_back"] != sum(f["appended"]):
                bad.append({"n": 0, "p": i + 1, "f": "spill_file_rows", "k": 0})
        if h["spilled_rows"] != sum(f["read_back"] for f in h["files"] if f["some"]):
            bad.append({"n": 0, "p": -1, "f": "spilled_rows", "k": 0})
        if h["spill_count"] != sum(1 for f in h["files"] if f["some"]):
            bad.append({"n": 0, "p": -1, "f": "spill_count", "k": 0})
        node = {"id": 0, "parent": -1, "name": "SpillManager", "detail": "SpillManager history", "np": 1, "full": False,
                "metrics": {"has": False, "rows": 0, "per": [], "spilled": -1, "spills": -1},
                "streams": [], "ords": [], "outord": [], "classes": [], "consts": [], "part": "", "exprs": [], "schema": [], "stats": [],
                "hash": [], "uneval": [], "fns": []}
        out.append({"id": h["id"], "cfg": "spill-api", "status": "ok", "inert": True, "has_fetch": False, "plan": "SpillManager history",
                    "nodes": [node], "result": [], "analyze": [],
                    "spill": [{"files": [{"appended": f["appended"], "some": f["some"], "read_back": f["read_back"]} for f in h["files"]],
                               "spilled_rows": h["spilled_rows"], "spill_count": h["spill_count"]}],
                    "rust_bad": {"C53": bad}})
    return out


def run(ctx):
    build("vcontract")
    if ctx.replay:
        rp = json.load(open(ctx.replay))
        line = rp["line"]
        runs, _ = contract.record(ctx, [line])
        meta = {line["id"]: {"sql": line["sql"], "tables": line["tables"], "cfg": line["cfg"]["name"], "case": None}}
        attach(runs, [])
        res = contract.judge(ctx, "C53", runs, meta, known_key=known_key)
        write_evidence(ctx, "exploration", {"evaluations": 1, "distinct_nontrivial": 2, "rule": "replay of one recorded run",
                                            "samples": [{"sql": line["sql"]}], **res})
        return
    cfgs = QUICK_CFG if ctx.quick else ALL_CFG
    lines, meta, tlcruns = contract.build_runs(ctx, n_tlc=50 if ctx.quick else 400, n_big=1 if ctx.quick else 6, configs=cfgs,
                                               corpus=1 if ctx.quick else 3, extra_corpus=SPILLQ, corpus_tlc_db=not ctx.quick, corpus_cfgs=3 if ctx.quick else None,
                                               gens=None if ctx.quick else [(2, 2, ctx.seed), (3, 2, ctx.seed + 1000), (4, 1, ctx.seed + 2000)])
    # high-cardinality tables under a bounded memory pool, so that sort / aggregate / sort-merge join / repartition really spill
    rng = __import__("random").Random(ctx.seed + 99)
    N = 6000
    ids = list(range(N))
    rng.shuffle(ids)
    II = lambda v: {"k": "i", "v": v}
    spilldb = [
        {"name": "t1", "cols": [{"name": "c1", "kind": "i"}, {"name": "c2", "kind": "i"}, {"name": "c3", "kind": "s"}],
         "rows": [[II(i), II(i % 50), {"k": "s", "v": 1 + i % 3}] for i in ids]},
        {"name": "t2", "cols": [{"name": "c1", "kind": "i"}, {"name": "c2", "kind": "i"}], "rows": [[II(i % (N // 4)), II(i)] for i in ids]},
        {"name": "t3", "cols": [{"name": "c1", "kind": "i"}, {"name": "c2", "kind": "s"}, {"name": "c3", "kind": "b"}],
         "rows": [[II(i), {"k": "s", "v": 1}, {"k": "b", "v": 1}] for i in range(200)]}]
    SPILL = {"sort": ("SELECT c1, c2, c3 FROM t1 ORDER BY c3 ASC NULLS LAST, c1 DESC NULLS FIRST", [(40000, 1), (80000, 1), (150000, 1)], "true"),
             "agg": ("SELECT c1, count(*) AS n, sum(c2) AS s FROM t1 GROUP BY c1", [(300000, 1), (300000, 2), (400000, 2)], "true"),
             "smj": ("SELECT a.c1, a.c2, b.c2 AS d FROM t2 a JOIN t2 b ON a.c1 = b.c1", [(300000, 2), (350000, 2), (400000, 2)], "false"),
             "sortlimit": ("SELECT c1, c2 FROM t1 ORDER BY c2 ASC NULLS LAST, c1 ASC NULLS LAST LIMIT 5000", [(60000, 1)], "true")}
    for q, (sql, variants, phj) in SPILL.items():
        for (lim, tp) in variants:
            rid = f"spill-{q}/L1-{lim}-{tp}"
            cfg = dict(name="L1", partitions=tp, batch_rows=512, memory_limit=lim, norows=True,
                       settings=[[contract.TP, str(tp)], [contract.BS, "512"], ["datafusion.execution.sort_spill_reservation_bytes", "16384"],
                                 ["datafusion.execution.sort_in_place_threshold_bytes", "0"], [contract.OPT + "prefer_hash_join", phj]])
            lines.append({"id": rid, "sql": sql, "tables": spilldb, "cfg": cfg})
            meta[rid] = {"case": None, "cfg": "L1", "sql": sql, "src": "spill-queries", "tables": spilldb}
    contract.matrix_runs(ctx, lines, meta, thorough=not ctx.quick)
    for l in lines:
        l["cfg"] = dict(l["cfg"], analyze="EXPLAIN" not in l["sql"] and not l["sql"].startswith("INSERT"))
    runs, summary = contract.record(ctx, lines)
    sp_out = ctx.path("spill.ndjson")
    run_harness(ctx, "vcontract", ["spill", "--out", sp_out, "--n", 150 if ctx.quick else 2000])
    spill = read_ndjson(sp_out)
    if any(h["err"] for h in spill):
        raise ToolError("spill API history failed: " + next(h["msg"] for h in spill if h["err"]))
    pseudo = attach(runs, spill)
    for p in pseudo:
        meta[p["id"]] = {"sql": "(spill API history)", "tables": [], "cfg": "A1", "case": None, "src": "spill-api"}
    res = contract.judge(ctx, "C53", runs + pseudo, meta, known_key=known_key)
    ok = [r for r in runs if r["status"] == "ok"]
    judged_ops = contract.require_operators(ok, contract.REQUIRED_OPERATORS)
    per_op = collections.Counter()
    nometric = collections.Counter()
    notfull = 0
    for r in ok:
        for n in r["nodes"]:
            if not n["full"]:
                notfull += 1
            elif n["metrics"]["has"]:
                per_op[contract.op_label(n).split(":")[0]] += 1
            else:
                nometric[n["name"]] += 1
    spilled = [(r["id"], n["name"], n["metrics"]["spilled"], n["metrics"]["spills"]) for r in ok for n in r["nodes"] if n["metrics"]["spills"] > 0]
    spilled_ops = collections.Counter(x[1] for x in spilled)
    missing_spill = [o for o in ("SortExec", "AggregateExec") if not spilled_ops.get(o)]
    if missing_spill and not ctx.replay:
        raise ToolError(f"vacuity: operators that never spilled under the bounded memory pool: {missing_spill}")
    an_nodes = sum(1 for r in ok for a in r["analyze"] if a["full"] and a["has"])
    nontrivial = {r["plan"] + meta[r["id"]]["cfg"] for r in ok if any(n["full"] and n["metrics"]["has"] and n["metrics"]["rows"] > 0 for n in r["nodes"])}
    sample = next((r for r in ok if any(n["metrics"]["spills"] > 0 for n in r["nodes"])), ok[0])
    write_evidence(ctx, "exploration", {
        "evaluations": len(ok) + len(pseudo), "distinct_nontrivial": len(nontrivial),
        "rule": "case = one query under one session configuration executed by the real engine with an observer above every node (+ the same query under the real "
                "AnalyzeExec), or one history of the spill API; non-trivial = distinct <physical plan, configuration> with a node consumed in full that reports output_rows > 0",
        "samples": [{"sql": meta[sample["id"]]["sql"], "cfg": meta[sample["id"]]["cfg"], "plan": sample["plan"][:1500],
                     "nodes": [{"op": n["detail"][:100], "output_rows": n["metrics"]["rows"], "emitted": sum(b["n"] for s in n["streams"] for b in s["batches"]),
                                "consumed_in_full": n["full"], "spilled_rows": n["metrics"]["spilled"]} for n in sample["nodes"]][:8]}],
        "configurations": cfgs + sorted({c for f in contract.FAMILIES.values() for c in f[1]}), "operator_coverage": contract.coverage(ok),
        "operators_judged_output_consumed_in_full": judged_ops, "operator_types_not_reached": contract.NOT_REACHED,
        "nodes_judged_by_operator": dict(sorted(per_op.items())), "nodes_not_consumed_in_full": notfull,
        "nodes_without_output_rows_metric": dict(nometric),
        "explain_analyze_nodes_judged": an_nodes,
        "spill_api_histories": len(spill), "spill_api_files": sum(len(h["files"]) for h in spill),
        "query_nodes_that_spilled": len(spilled), "operators_that_spilled": dict(spilled_ops), "query_spill_samples": spilled[:5],
        "spill_paths_not_observed": {"NestedLoopJoinExec memory-limited fallback": "the planner puts the small input on the buffered side; no spill metric was ever registered by NLJ in 24 bounded-memory trials"},
        "sources": dict(collections.Counter(meta[r["id"]]["src"] for r in ok)),
        "tlc_generated_cases": sum(t.distinct for t in tlcruns), **res,
    }, assumptions=[
        "observers are shown inert on every run (same result bag as the un-instrumented plan; LIMIT/OFFSET / order-dependent queries exempt)",
        "'consumed in full' is computed from the recorded End events: every partition executed and every stream polled to exhaustion without error",
        "metrics are read from the re-parented copies the run executed; nodes that register no output_rows metric are counted, not judged",
        "EXPLAIN ANALYZE counts >= 1000 are rendered rounded and are not compared",
        "spilled_rows is judged exactly on the spill API (files read back); for whole queries under a bounded pool only the presence of spills is reported",
        "self-test on every run: recorded logs are corrupted (metric off by one / doubled, rendering off by one, spill metric off by one) and TLC must reject each",
    ])
