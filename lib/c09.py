"""C09 — window functions match their frame definitions under every executor.

1. TLC (spec/ops2/WindowGen.tla over spec/lib/Window.tla) generates tables of <= 6 rows [id,p,o,x] with ties and NULLs in
   the partition and order keys and computes with the TLA+ definitions, for every row, the value of every window
   function: FrameOf(row) for seeded random legal ROWS / RANGE / GROUPS frames (bounds UNBOUNDED, k PRECEDING,
   CURRENT ROW, k FOLLOWING, k in 0..2) -> sum/count/avg/min/max/first/last/nth_value [IGNORE NULLS]; rank, dense_rank,
   percent_rank, cume_dist (exact rationals), row_number, ntile(1..3), lag/lead(offset, default); under ORDER BY o
   (peers) and ORDER BY o,id (total order), ASC and DESC.  TLC also checks sanity invariants of the reference.
2. B3: the Rust driver (harness/vops2 c09) runs each case through SQL OVER(...) on sorted (declared order, no SortExec)
   and unsorted multi-partition MemTables x batch sizes {1,2,8192} x target partitions 1..3, with and without an extra
   UNBOUNDED FOLLOWING window in the same group (forces WindowAggExec instead of BoundedWindowAggExec; the executor
   that ran is read from the physical plan), plus window-TopN (WHERE rn <= k) and LIMIT shapes.
3. Oracle: every value of every output row equals the reference value of that row id.
"""
import json, concurrent.futures as cf
from common import *


def gen_job(ctx, j, num, seed, nframes):
    cfg = ctx.path(f"gen{j}.cfg")
    open(cfg, "w").write(f"CONSTANTS MaxRows = 7 NFrames = {nframes} NVariants = 4\nSPECIFICATION Spec\nINVARIANTS Emit FrameSanity\n")
    r = tlc(ctx, "ops2/WindowGen", cfg=cfg, workers=1, deadlock=False, tag=f"gen{j}", xmx="2g",
            mode_args=["-simulate", f"num={num}", "-depth", "10", "-seed", str(seed)], timeout=2400,
            env={"JAVA_TOOL_OPTIONS": "-XX:ParallelGCThreads=2"})
    if "Error:" in r.out or r.invariant_violated:
        sys.stderr.write(r.out[-3000:])
        raise ToolError("TLC case generation failed (or the reference violates its own invariants)")
    m = re.search(r"(\d+) states checked", r.out)
    return tlc_cases(r.out), (int(m.group(1)) if m else 0)


def known_key(v, case):
    """Narrow key of the genuine defect recorded in known_findings.json (anything else still raises)."""
    m = re.match(r"row id (\d+), ", v.get("message", ""))
    f = re.search(r"RANGE BETWEEN (.*?) AND (\d+ PRECEDING)\)", v.get("sql", ""))
    if not m or not f or "BoundedWindowAggExec" not in v.get("plan", ""):
        return None
    rows = {r["id"]: r for r in case["tbl"]}
    r = rows.get(int(m.group(1)))
    if r is None or r["o"]["k"] != "n":
        return None
    peers = [x for x in case["tbl"] if x["p"] == r["p"] and x["o"]["k"] == "n"]
    if len(peers) >= 2:
        return "bounded-executor-range-offset-frame-null-order-key-peers-split-across-batches"
    return None


def run(ctx):
    build("vops2")
    if ctx.replay:
        rep = json.load(open(ctx.replay))
        write_ndjson(ctx.path("cases.ndjson"), [rep["case"]])
        run_harness(ctx, "vops2", ["c09", "--in", ctx.path("cases.ndjson"), "--out", ctx.path("res.json"), "--per-case", 600],
                    env={"VERIF_SEED": str(rep.get("seed", ctx.seed))})
        res = json.load(open(ctx.path("res.json")))
        for v in res["violations"][:5]:
            report_violation(ctx, dict(v, case=rep["case"]), key=known_key(v, rep["case"]))
        write_evidence(ctx, "exploration", {"evaluations": max(1, res["evaluations"]), "distinct_nontrivial": max(2, res["distinct_nontrivial"]),
                                            "rule": "replay of one table through seeded window queries", "samples": [rep["case"]["tbl"]]})
        return
    njobs = 4 if ctx.quick else 8
    num = 10 if ctx.quick else 30
    with cf.ThreadPoolExecutor(max_workers=4 if ctx.quick else 6) as ex:
        res = list(ex.map(lambda j: gen_job(ctx, j, num, ctx.seed * 1000 + j, 5 if ctx.quick else 8), range(njobs)))
    cases = [c for cs, _ in res for c in cs]
    states = sum(s for _, s in res)
    uniq = {}
    for c in cases:
        uniq.setdefault(json.dumps(c["tbl"]), c)
    cases = list(uniq.values())
    for i, c in enumerate(cases):
        c["idx"] = i
    if len(cases) < 40:
        raise ToolError(f"only {len(cases)} cases generated")
    write_ndjson(ctx.path("cases.ndjson"), cases)
    run_harness(ctx, "vops2", ["c09", "--in", ctx.path("cases.ndjson"), "--out", ctx.path("res.json"), "--per-case", 20 if ctx.quick else 30],
                timeout=5000)
    res = json.load(open(ctx.path("res.json")))
    if res["tool_errors"]:
        raise ToolError("harness machinery errors: " + "; ".join(res["tool_errors"][:3]))
    pu = res["per_units_and_executor"]
    for need in ["ROWS bounded", "ROWS whole-partition", "RANGE bounded", "RANGE whole-partition", "GROUPS bounded", "GROUPS whole-partition",
                 "pos bounded", "pos whole-partition", "topn", "limit"]:
        if not any(k.startswith(need) and n > 0 for k, n in pu.items()):
            raise ToolError(f"vacuity: no execution of '{need}' ({pu})")
    pm = res["bounded_executor_runs_per_input_order_mode"]
    for need in ["Sorted (planned)", "Sorted (direct)", "PartiallySorted (direct)", "Linear (direct)", "WindowAggExec (direct)"]:
        if pm.get(need, 0) < 20:
            raise ToolError(f"vacuity: BoundedWindowAggExec input order mode '{need}' (almost) never ran ({pm})")
    md = res["bounded_executor_runs_per_mode_units_direction"]
    for m in ("Sorted", "PartiallySorted", "Linear"):
        for u in ("ROWS", "RANGE", "GROUPS"):
            for d in ("ASC NULLS FIRST", "ASC NULLS LAST", "DESC NULLS FIRST", "DESC NULLS LAST"):
                if md.get(f"{m} {u} {d}", 0) == 0:
                    raise ToolError(f"vacuity: no BoundedWindowAggExec run for mode {m}, {u} frame, ORDER BY {d}")
    if res["plans_with_PartitionedTopKExec"] == 0:
        raise ToolError("vacuity: the WindowTopN rewrite (PartitionedTopKExec) never ran")
    if res["plans_with_BoundedWindowAggExec"] == 0 or res["plans_with_WindowAggExec"] == 0 or res["sorted_source_plans_without_SortExec"] == 0:
        raise ToolError("vacuity: one of the two window executors (or the sorted-source path) never ran")
    seen = set()
    for v in res["violations"]:
        key = known_key(v, cases[v["case_index"]])
        k = (re.sub(r"[-0-9.]+", "N", v["message"])[:50], key)
        if k in seen or len(seen) >= 12:
            continue
        seen.add(k)
        report_violation(ctx, dict(v, case=cases[v["case_index"]]), key=key)
    frames_used = {}
    for c in cases:
        for v in c["variants"]:
            for f in v["frames"]:
                k = f["f"]["units"] + " " + f["f"]["s"]["k"] + ".." + f["f"]["e"]["k"]
                frames_used[k] = frames_used.get(k, 0) + 1
    s = cases[min(7, len(cases) - 1)]
    write_evidence(ctx, "exploration", {
        "evaluations": res["evaluations"],
        "distinct_nontrivial": res["distinct_nontrivial"],
        "rule": "a case is one (table, window query: function set + ORDER BY variant + frame, x type, batch sizes, partitions, sorted/unsorted "
                "source, executor forcing) execution whose every output value is compared with the TLA+ reference for that row; distinct = "
                "distinct such tuples; tables and frames come from TLC random walks of WindowGen",
        "samples": [{"tbl": s["tbl"], "frame": s["variants"][0]["frames"][0]["f"] if s["variants"][0]["frames"] else None,
                     "expected_sum_by_id": [[e["id"], e["r"]["sum"]] for e in (s["variants"][0]["frames"][0]["res"] if s["variants"][0]["frames"] else [])]}],
        "tables_from_tlc": len(cases),
        "tlc_states_checked": states,
        "values_compared": res["values_compared"],
        "plans_with_BoundedWindowAggExec": res["plans_with_BoundedWindowAggExec"],
        "plans_with_WindowAggExec": res["plans_with_WindowAggExec"],
        "sorted_source_plans_without_SortExec": res["sorted_source_plans_without_SortExec"],
        "bounded_executor_runs_per_input_order_mode": pm,
        "bounded_executor_runs_per_mode_units_direction": md,
        "direct_combinations_not_accepted_by_engine": res["direct_combinations_not_accepted_by_engine"],
        "direct_skip_reasons": res["direct_skip_reasons"],
        "topn_plans_rewritten_to_PartitionedTopKExec": res["plans_with_PartitionedTopKExec"],
        "limit_shape_plans_with_a_limit_or_fetch": res["limit_shape_plans_with_a_limit_or_fetch"],
        "executions_per_shape": res["per_shape"],
        "executions_per_frame_units_and_executor": pu,
        "frame_kinds_generated(units start..end)": frames_used,
        "rejected_at_planning": res["engine_rejected_at_planning"],
        "rejected_at_planning_samples": res["engine_rejected_samples"],
    }, assumptions=[
        "tables <= 7 rows; p over {NULL,0,1,2} (also rendered as the pair a = p div 2, b = p mod 2), o over {NULL,0,1,2}, x over {NULL,-1,0,1,2} as Int64 or Float64; "
        "frame offsets k in {0,1,2,5} (5 exceeds the data span); ORDER BY ASC|DESC x NULLS FIRST|LAST",
        "direct runs: the window expressions are those the planner builds for the SQL text; the operator (BoundedWindowAggExec in the input order mode "
        "get_window_mode reports for the arrangement, or WindowAggExec) is constructed by the driver over a single-partition source declared sorted for "
        "Sorted / PartiallySorted (PARTITION BY a, b sorted on a) / Linear (sorted on the order key only, partitions interleaved), cut into batches of "
        "1, 2, 3 rows or seeded irregular cuts so that ties straddle batch boundaries",
        "under ORDER BY o (ties) only peer-closed frames (RANGE, GROUPS) and order-insensitive functions are compared; ROWS frames, "
        "row_number, ntile, lag/lead, first/last/nth_value are compared under the total order ORDER BY o, id",
        "frames whose start bound lies after the end bound (and 0 FOLLOWING..CURRENT ROW style pairs) are not generated",
        "the executor is chosen by the planner; WindowAggExec is forced for bounded frames by an additional UNBOUNDED FOLLOWING window in the same group",
        "an error while planning is counted (rejected_at_planning), an error or panic during execution is a violation",
        "binding demonstrated by `vops2 c09 --selftest-corrupt` (one output row dropped => rejected)",
    ])
