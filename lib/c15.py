"""C15 — exchange (distributor) channels lose nothing, keep order, close correctly, never deadlock.

1. TLC model-checks spec/proto/DistChanImpl.tla (implementation grain: one action per channel-mutex
   acquisition / gate-mutex region / atomic access of distributor_channels.rs) exhaustively: the
   property invariants (exactly once in order, end of stream only when closed and drained, send error
   only when the receiver is gone, one-sided gate counter, no lost wake-up), deadlock freedom and, in
   the thorough tier, termination under weak fairness.  Receivers and sender handles may be dropped
   at every point.
2. B1: complete TLC behaviours (random walks of the same module) are replayed as *schedules* on the
   real `channels(n)` under the controlled scheduler (hooks `dc_*`), plus seeded random schedules over
   a menu of shapes including `partition_aware_channels`.
3. Oracle on the real execution (API level): per channel nothing invented/duplicated, per-sender FIFO
   without gaps, real-time send order across handles, `None` only after every sender handle was
   dropped and every successfully sent value received, `Err` only after the receiver was dropped,
   exact deadlock detection (a parked process whose waker nobody holds).
4. B2: every real execution is validated step by step as a behaviour of DistChanImpl (DistChanTrace).
"""
import json, os, re
from concurrent.futures import ThreadPoolExecutor
from common import *

INVS = ["TypeOK", "ExactlyOnceInOrder", "RecvdPrefix", "PerSenderOrder", "EosOk", "ErrOk", "GateCounter", "GateShape",
        "NoLostWaker", "ParkedSenderJustified", "ParkedReceiverJustified"]
ACTIONS = ["S_lock", "S_load", "S_gate", "Decr", "DecrGate", "S_wake", "Resume", "D_nsend", "D_lock", "D_wake",
           "R_lock", "R_incr", "R_gate", "R_wake", "X_lock", "X_wcs", "X_wake"]


def cfg_text(c, spec, invs, props=(), view=True):
    s = c["S"] + [0] * (3 - len(c["S"]))
    b = lambda x: "TRUE" if x else "FALSE"
    t = (f"CONSTANTS NCH = {len(c['S'])} S1 = {s[0]} S2 = {s[1]} S3 = {s[2]} MSGS = {c['M']} "
         f"RDROP = {b(c.get('RD', True))} SDROP = {b(c.get('SD', True))}\nSPECIFICATION {spec}\n")
    if view:
        t += "VIEW view\n"
    t += "INVARIANTS " + " ".join(invs) + "\n"
    if props:
        t += "PROPERTIES " + " ".join(props) + "\n"
    return t


ACT_RE = re.compile(r"^<(\w+) line \d+, col \d+ to line \d+, col \d+ of module DistChanImpl(?: \([\d ]+\))?>: (\d+):(\d+)", re.M)


def derive_ops(steps):
    """Programs of the processes of a behaviour: number of send / recv calls each handle makes."""
    ops, resumed = {}, set()
    for (p, l) in steps:
        ops.setdefault(p, 0)
        if l == "resume":
            resumed.add(p)
        elif l in ("s_lock", "r_lock"):
            if p in resumed:
                resumed.discard(p)
            else:
                ops[p] += 1
    return ops


def run(ctx):
    build("vproto")
    if ctx.replay:
        summary, _ = run_harness(ctx, "vproto", ["c15", "--replay", ctx.replay, "--out", ctx.path("res.json")])
        res = json.load(open(ctx.path("res.json")))
        for v in res["violations"]:
            report_violation(ctx, v)
        write_evidence(ctx, "model_checking", {"states": 1, "transitions": 1, "traces_validated_against_impl": res["evaluations"],
                                               "samples": res["samples"] or [{"replayed": ctx.replay}]})
        return
    quick = ctx.quick
    pool = ThreadPoolExecutor(max_workers=3 if quick else 4)
    # ---- 1. exhaustive model checking -------------------------------------------------------
    exh = [dict(S=[1, 1], M=2), dict(S=[2], M=2)]
    if not quick:
        exh += [dict(S=[2, 1], M=1), dict(S=[1, 1, 1], M=1), dict(S=[1, 1], M=3), dict(S=[3], M=2), dict(S=[2, 2], M=1)]

    def mc(i_c):
        i, c = i_c
        cfg = ctx.path(f"mc{i}.cfg")
        props = ["Termination"] if (not quick and i < 3) else []
        open(cfg, "w").write(cfg_text(c, "Spec", INVS, props) + "CHECK_DEADLOCK TRUE\n")
        return c, tlc_must_pass(ctx, "proto/DistChanImpl", cfg=cfg, workers=3 if quick else 4, timeout=3000, coverage=True, tag=f"mc{i}")

    # ---- 2. behaviours (random walks of the module) ------------------------------------------
    sims = [dict(S=[1, 1], M=2, RD=False, SD=False), dict(S=[2, 1], M=2), dict(S=[1, 1, 1], M=2, RD=False)]
    if not quick:
        sims += [dict(S=[2, 2], M=2, SD=False), dict(S=[1], M=3), dict(S=[3, 1], M=1, RD=False), dict(S=[2, 2, 1], M=2, RD=False, SD=False), dict(S=[1, 1, 1], M=3), dict(S=[3, 3], M=2, RD=False),
                 dict(S=[2, 1], M=3, SD=False), dict(S=[1, 2, 3], M=1), dict(S=[1, 1], M=3, RD=False, SD=False)]
    n_per = 200 if quick else 1000

    def sim(i_c):
        i, c = i_c
        cfg = ctx.path(f"sim{i}.cfg")
        open(cfg, "w").write(cfg_text(c, "SimSpec", ["EmitWhenDone"] + INVS[1:], view=False) + "CHECK_DEADLOCK FALSE\n")
        r = tlc(ctx, "proto/DistChanSim", cfg=cfg, workers=1, deadlock=False, tag=f"sim{i}", xmx="2g",
                mode_args=["-simulate", f"num={n_per}", "-depth", "600", "-seed", str(ctx.seed * 100 + i)], timeout=1800)
        if r.invariant_violated or ("Error:" in r.out and "CASE" not in r.out):
            sys.stderr.write(r.out[-3000:])
            raise ToolError("TLC simulation of DistChanSim failed (specification-level)")
        return c, r

    f_mc = [pool.submit(mc, x) for x in enumerate(exh)]
    f_sim = [pool.submit(sim, x) for x in enumerate(sims)]
    states = transitions = 0
    mcs, taken = [], {}
    for f in f_mc:
        c, r = f.result()
        states += r.distinct
        transitions += r.generated
        mcs.append({"constants": c, "distinct_states": r.distinct, "generated": r.generated, "wall_s": round(r.wall, 1)})
        for m in ACT_RE.finditer(r.out):
            taken[m.group(1)] = taken.get(m.group(1), 0) + int(m.group(3))
    never = [a for a in ACTIONS if taken.get(a, 0) == 0]
    if never:
        raise ToolError(f"vacuity: specification actions never taken in the exhaustive runs: {never}")
    behaviours = []
    for f in f_sim:
        c, r = f.result()
        for b in tlc_cases(r.out):
            steps = [[f"{k}1.{cc}.{i}", l] for (k, cc, i, l) in b["steps"]]
            behaviours.append({"nin": 1, "pa": False, "nch": b["nch"], "senders": [b["senders"]], "steps": steps,
                               "ops": derive_ops(steps), "origin": f"tlc-simulate cfg={c} seed={ctx.seed}"})
    uniq = {json.dumps([b["senders"], b["steps"]]): b for b in behaviours}
    behaviours = list(uniq.values())
    if len(behaviours) < 50:
        raise ToolError(f"only {len(behaviours)} TLC behaviours generated")
    write_ndjson(ctx.path("behaviours.ndjson"), behaviours)
    # ---- 3. replay + random schedules on the real channels -----------------------------------
    menu = [dict(nin=1, senders=[2]), dict(nin=1, senders=[1]), dict(nin=1, senders=[1, 1]), dict(nin=1, senders=[2, 1]),
            dict(nin=1, senders=[1, 1, 1]), dict(nin=2, senders=[1, 1]), dict(nin=1, senders=[2, 2]),
            dict(nin=1, pa=True, senders=[2, 1])]
    if not quick:
        menu += [dict(nin=1, senders=[3, 1]), dict(nin=1, senders=[2, 2, 1]), dict(nin=1, senders=[3, 3]), dict(nin=1, senders=[1, 2, 3]), dict(nin=3, senders=[1, 1]),
                 dict(nin=2, senders=[2, 1]), dict(nin=1, senders=[3]), dict(nin=2, senders=[1, 1, 1])]
    write_ndjson(ctx.path("menu.ndjson"), menu)
    nrandom = 450 if quick else 8000
    summary, _ = run_harness(ctx, "vproto", ["c15", "--behaviours", ctx.path("behaviours.ndjson"), "--menu", ctx.path("menu.ndjson"),
                                              "--random", nrandom, "--out", ctx.path("res.json"), "--traces", ctx.path("traces.ndjson")], timeout=6000)
    res = json.load(open(ctx.path("res.json")))
    if res["tool_errors"]:
        raise ToolError("harness machinery errors: " + "; ".join(res["tool_errors"][:3]))
    for v in res["violations"]:
        report_violation(ctx, v)
    missing_sites = [a for a in ["s_lock", "s_load", "s_gate", "decr", "decr_gate", "s_wake", "resume", "d_nsend", "d_lock", "d_wake",
                                 "r_lock", "r_incr", "r_gate", "r_wake", "x_lock", "x_wcs", "x_wake"] if res["sites"].get(a, 0) == 0]
    if missing_sites and not res["violations"]:
        raise ToolError(f"vacuity: hook sites never executed on the real code: {missing_sites}")
    need = ["decr_in_send", "decr_in_sender_drop", "decr_in_receiver_drop", "decr_gate_in_send", "decr_gate_in_sender_drop", "decr_gate_in_receiver_drop",
            "api_send_err", "api_none", "api_send_ok", "api_got", "partition_aware_channels", "several_gates", "channels_1", "channels_2", "channels_3",
            "max_handles_per_channel_2"]
    missing_br = [k for k in need if res["branches"].get(k, 0) == 0]
    if missing_br and not res["violations"]:
        raise ToolError(f"vacuity: branch families never executed on the real code: {missing_br}")
    # ---- 4. B2: every real execution is a behaviour of DistChanImpl --------------------------
    traces = read_ndjson(ctx.path("traces.ndjson"))
    groups = {}
    for t in traces:
        groups.setdefault(tuple(t["senders"]), []).append({"ev": t["ev"]})
    per_group = 60 if quick else 800
    recorded = len(traces)
    for k in sorted(groups):
        if len(groups[k]) > per_group:
            groups[k] = ctx.rng.sample(groups[k], per_group)

    def validate(item):
        sv, runs = item
        tag = "trace-" + "-".join(map(str, sv))
        tp = ctx.path(tag + ".ndjson")
        write_ndjson(tp, runs)
        cfg = ctx.path(tag + ".cfg")
        open(cfg, "w").write(cfg_text(dict(S=list(sv), M=4), "TraceSpec", INVS, view=False) + "ALIAS Alias\nCHECK_DEADLOCK TRUE\n")
        return sv, runs, tlc_trace_validate(ctx, "proto/DistChanTrace", cfg, tp, tag=tag, timeout=3000)

    validated = rejected = tstates = 0
    rejects = []
    for sv, runs, r in pool.map(validate, sorted(groups.items())):
        tstates += r.distinct
        if r.invariant_violated:
            rejected += 1
            rejects.append({"senders": sv, "kind": "invariant " + ",".join(r.invariant_violated), "detail": r.out[-1500:]})
        elif r.deadlock:
            rejected += 1
            rejects.append({"senders": sv, "kind": "unmatched event", "detail": r.out[-2500:]})
        elif not r.ok:
            sys.stderr.write(r.out[-4000:])
            raise ToolError("trace validation run failed")
        else:
            validated += len(runs)
    pool.shutdown()
    if rejected:
        log(f"B2 conformance drift: {rejected} trace groups rejected (reported in evidence; the property oracle decides the verdict)")
    conform = {"runs_recorded": recorded, "runs_validated": validated, "groups": len(groups), "groups_rejected": rejected, "trace_states": tstates, "rejections": rejects[:3]}
    write_evidence(ctx, "model_checking", {
        "states": states, "transitions": transitions,
        "traces_validated_against_impl": validated,
        "samples": res["samples"][:2],
        "exhaustive": True,
        "model_checking_runs": mcs,
        "spec_actions_taken": taken,
        "schedules_replayed_from_tlc": len(behaviours),
        "random_schedules": nrandom,
        "real_executions": res["evaluations"],
        "distinct_real_executions": res["distinct_schedules"],
        "real_steps": res["steps"], "drift_steps": res["drift_steps"],
        "pending_returns": res["pending_returns"], "gate_parks": res["gate_parks"],
        "hook_sites_hit": res["sites"], "branch_families_executed": res["branches"],
        "trace_validation_B2": conform,
        "rule": "a case is a complete schedule (TLC behaviour of DistChanImpl or seeded random schedule over the shape menu) executed on the real channels; distinct = distinct <shape, executed <process,label> sequence>",
    }, assumptions=[
        "hook points sit immediately before every channel-mutex acquisition, gate-mutex region and atomic access of distributor_channels.rs; code between two hook points touches only state protected by a mutex the process holds, so finer interleavings are equivalent",
        "a future is polled again only after its waker was invoked (the executor contract); cancelling a pending send/recv future is not explored",
        "the gate counter is checked one-sided (empty_channels >= open empty channels); the exact form is violated by the real code without violating C15 (DESIGN.md §10 item 3) and is not a verdict",
        "B2 rejections are conformance drift, not a verdict; the API-level oracle and the exact scheduler decide VIOLATION",
    ])
