"""C19 — dropping a query stream releases resources and stops background work.

1. TLC model-checks spec/proto/StreamTree.tla in drop mode: Drop(root) in every state, abort-on-drop tasks,
   liveness  dropped ~> (no live/aborting task, nothing reserved, no temp file), and ENUMERATES the cases
   <<shape, drop point, memory class (ample / spilling), optional input error>>.
2. B3: every case runs on the real engine over counting sources: poll k result batches (k from 0 to
   completion, the model's drop point scaled to the measured number of result batches), drop the stream and
   the plan, then wait (progress-based: until nothing changes any more) and require: tokio reports no alive
   spawned task, every source stream was dropped and production stopped, pool.reserved() = 0,
   DiskManager::used_disk_space() = 0, temp directory empty.  Spilling variants run the shape on a larger
   dataset under a small pool; "after an error" variants inject a source error first.
3. Endless sources (never end; declared bounded for pipeline-breaking shapes) on a current-thread runtime:
   the query task must hand control back to the runtime (the driver is re-scheduled, deterministic count) and
   `tokio::time::timeout` must return Elapsed; after cancellation everything is released as above.
"""
import json, collections, math
from common import *
import vlife
from c20 import SPILL_SHAPES, SPILL_SETTINGS, SPILL_LIMITS

NB, RB, BS = 4, 8, 8

ENDLESS = {
    "filter": dict(sql="SELECT id, v FROM l WHERE v % 7 = 3", tp=1),
    "filter_none": dict(sql="SELECT id, v FROM l WHERE v < 0", tp=1),
    "projection": dict(sql="SELECT id + 1 AS a, v * 2 AS b FROM l WHERE v < 0", tp=1),
    "udf": dict(sql="SELECT vf(v) AS x FROM l WHERE vf(v) < 0", tp=1),
    "sort": dict(sql="SELECT id, v FROM l ORDER BY v, id", tp=1, blocking=True),
    "topk": dict(sql="SELECT id, v FROM l ORDER BY v, id LIMIT 3", tp=1, blocking=True),
    "agg": dict(sql="SELECT k, count(*) AS c, sum(v) AS sv FROM l GROUP BY k", tp=1, blocking=True),
    "agg_parts": dict(sql="SELECT k, count(*) AS c FROM l GROUP BY k", tp=4, pl=2, blocking=True),
    "distinct": dict(sql="SELECT DISTINCT k FROM l", tp=1, blocking=True),
    "window": dict(sql="SELECT id, sum(v) OVER (PARTITION BY k) AS s FROM l", tp=1, blocking=True),
    "union": dict(sql="SELECT id FROM l WHERE v < 0 UNION ALL SELECT id FROM l WHERE v > 100", tp=2),
    "repart_rr": dict(sql="SELECT id, v FROM l WHERE v < 0", tp=4),
    "coalesce_parts": dict(sql="SELECT id FROM l WHERE v < 0", tp=2, pl=2),
    "hash_join_probe": dict(sql="SELECT l.id AS a, r.id AS b FROM r JOIN l ON r.k = l.k AND l.v < 0", tp=1, r_finite=True),
    "hash_join_build": dict(sql="SELECT l.id AS a, r.id AS b FROM l JOIN r ON l.k = r.k", tp=1, blocking=True, r_finite=True),
    "hash_join_part": dict(sql="SELECT l.id AS a, r.id AS b FROM r JOIN l ON r.k = l.k AND l.v < 0", tp=2, pl=2, r_finite=True, settings=vlife.HJ_PART),
    "nlj": dict(sql="SELECT l.id AS a, r.id AS b FROM r JOIN l ON r.w < l.v - 100", tp=1, r_finite=True),
    "cross": dict(sql="SELECT count(*) AS c FROM r CROSS JOIN l", tp=1, r_finite=True, blocking=True),
    "smj": dict(sql="SELECT l.id AS a, r.id AS b FROM l JOIN r ON l.k = r.k", tp=2, blocking=True, r_finite=True, settings=vlife.SMJ),
    "spm": dict(sql="SELECT id, v FROM l ORDER BY v, id", tp=2, pl=2, blocking=True),
    "limit_unreached": dict(sql="SELECT id FROM l WHERE v < 0 LIMIT 5", tp=1),
}


def endless_tables(pl, r_finite, blocking):
    t = vlife.std_tables(2, 4, pl, 1)
    t[0]["endless"] = True
    if blocking:
        t[0]["declared_bounded"] = True
    if not r_finite:
        t[1]["endless"] = True
        if blocking:
            t[1]["declared_bounded"] = True
    return t


def finding_key(r):
    """Narrow key of the genuine defect listed in known_findings.json (anything else raises)."""
    ops = r.get("plan_ops") or []
    unwrapped = any(o == "FaultySource" and (i == 0 or ops[i - 1] != "CooperativeExec") for i, o in enumerate(ops))
    coop_anc = any(o in ("SortPreservingMergeExec", "CoalescePartitionsExec") or o.startswith("RepartitionExec") for o in ops)
    if r.get("outcome") == "no_yield" and unwrapped and coop_anc:
        return "ensure-cooperative-skips-leaf-under-eager-cooperative-ancestor"
    return None


def run(ctx):
    build("vlife")
    if ctx.replay:
        return replay(ctx)
    quick = ctx.quick
    cases, mbg = vlife.stream_tree_cases(ctx, "drop", 2, vlife.pick_mc_shapes(ctx, extra=["coalesce_parts"]), workers=4 if quick else 8)
    by_shape = collections.defaultdict(list)
    for c in cases:
        by_shape[c["shape"]].append(c)
    datasets = {}

    def ds_for(pl, pr, nb=NB, rb=RB):
        name = f"std-{nb}x{rb}-{pl}-{pr}"
        if name not in datasets:
            datasets[name] = vlife.std_tables(nb, rb, pl, pr)
        return name

    # ---------------- reference runs: how many result batches does each configuration deliver
    refs = []
    for sh in vlife.ALL_SHAPES:
        b = vlife.BINDING[sh]
        ex = dict(vlife.exec_of(b), batch_size=BS)
        refs.append({"id": f"ref:{sh}", "sql": b["sql"], "dataset": ds_for(b["pl"], b["pr"]), "exec": ex})
    for sh, b in SPILL_SHAPES.items():
        dsn = ds_for(b["pl"], 1, nb=8, rb=128)
        ex = dict(vlife.exec_of(dict(b, settings=b.get("settings", []))), batch_size=128)
        ex["settings"] = ex["settings"] + SPILL_SETTINGS
        for li, lim in enumerate(SPILL_LIMITS):
            for pi, pool in enumerate(("fair", "greedy")):
                if quick and (li + pi + ctx.seed) % 2:
                    continue
                refs.append({"id": f"sprobe:{sh}:{pool}:{lim}", "sql": b["sql"], "dataset": dsn, "exec": ex, "mem": {"pool": pool, "limit": lim}})
    ref_res = vlife.run_items(ctx, refs, datasets, "ref", procs=6)
    for it in refs:
        r = ref_res[it["id"]]
        if it["id"].startswith("ref:") and r["outcome"] != "ok":
            raise ToolError(f"reference run {it['id']} failed: {r.get('err')}")
        msg = vlife.released(r)
        if msg and r["outcome"] in ("ok", "err"):
            report_violation(ctx, {"item": it, "datasets": {it["dataset"]: datasets[it["dataset"]]}, "observed": {k: v for k, v in r.items() if k != "rows"},
                                   "oracle": "after the stream finished: " + msg, "class": "finished_not_released"})

    # ---------------- drop points
    items, metas = [], {}
    n = 0

    def variant(i):
        x = (ctx.seed * 5 + i * 11) % 12
        return dict(rt="current" if x % 3 == 0 else "multi", pending_every=3 if x % 4 == 1 else 0)

    for sh in vlife.ALL_SHAPES:
        b = vlife.BINDING[sh]
        nreal = ref_res[f"ref:{sh}"]["batches_polled"]
        ks_all = list(range(nreal + 1))
        mcases = by_shape[sh]
        # the model's drop points scaled to the measured number of result batches
        refb = max(1, mcases[0]["ref_batches"]) if mcases else 1
        ks_model = sorted({min(nreal, math.ceil(c["drop_at"] * nreal / refb)) for c in mcases if c["fault"]["kind"] == "none" and c["lim"] == 99})
        ks = ks_model if quick else ks_all
        if quick and len(ks) > 4:
            ks = sorted(set([0, 1, ks[len(ks) // 2], ks[-1]]))
        for k in ks:
            v = variant(n)
            ex = dict(vlife.exec_of(b, rt=v["rt"], pending_every=v["pending_every"]), batch_size=BS)
            it = {"id": f"drop:{sh}:{k}:{n}", "sql": b["sql"], "dataset": ds_for(b["pl"], b["pr"]), "exec": ex, "drop_at": k}
            items.append(it)
            metas[it["id"]] = dict(shape=sh, kind="drop", k=k, of=nreal)
            n += 1
        # drop after an input error (the model's fault case): error at batch 1 of the first leaf
        errc = [c for c in mcases if c["fault"]["kind"] == "src_err"]
        if errc:
            f = errc[(ctx.seed + n) % len(errc)]["fault"]
            v = variant(n)
            ex = dict(vlife.exec_of(b, rt=v["rt"]), batch_size=BS)
            it = {"id": f"errdrop:{sh}:{n}", "sql": b["sql"], "dataset": ds_for(b["pl"], b["pr"]), "exec": ex,
                  "fault": {"kind": "src_err", "table": f["t"].lower(), "part": f["p"], "k": f["k"]}}
            items.append(it)
            metas[it["id"]] = dict(shape=sh, kind="drop_after_error")
            n += 1
    # spilling configurations (model: lim = 1 on shapes that spill)
    for sh, b in SPILL_SHAPES.items():
        dsn = ds_for(b["pl"], 1, nb=8, rb=128)
        probes = [(it, ref_res[it["id"]]) for it in refs if it["id"].startswith(f"sprobe:{sh}:")]
        spilling = [(it, r) for it, r in probes if (r.get("counters") or {}).get("spill_writes", 0) > 0 and r["outcome"] == "ok"]
        if quick:
            spilling = spilling[:1]
        for pit, pr in spilling:
            nreal = pr["batches_polled"]
            ks = sorted(set([0, 1, 2, nreal // 2, max(0, nreal - 1), nreal])) if quick else list(range(0, nreal + 1, max(1, nreal // 24)))
            for k in ks:
                v = variant(n)
                it = dict(pit, id=f"spilldrop:{sh}:{k}:{n}", drop_at=k, exec=dict(pit["exec"], rt=v["rt"]))
                items.append(it)
                metas[it["id"]] = dict(shape=sh, kind="drop_spilling", k=k, of=nreal, spill_writes_full_run=pr["counters"]["spill_writes"])
                n += 1
    # ---------------- endless sources
    for name, e in ENDLESS.items():
        dsn = f"endless-{name}"
        datasets[dsn] = endless_tables(e.get("pl", 1), e.get("r_finite", False), e.get("blocking", False))
        # tokio::time::timeout variant only on streaming shapes (what a blocking shape buffered until the source is
        # stopped would have to be sorted/merged afterwards); there the source is stopped by the watcher, not by the cap
        for mode in (("yield",) if e.get("blocking") else ("yield", "timeout")):
            ex = {"target_partitions": e["tp"], "rt": "current", "settings": list(e.get("settings", [])), "batch_size": 8,
                  "endless_cap": 20_000 if mode == "yield" else 2_000_000_000}
            it = {"id": f"endless:{name}:{mode}", "sql": e["sql"], "dataset": dsn, "exec": ex,
                  "endless": {"mode": mode, "regains": 3 + ctx.seed % 3, "timeout_ms": 150}}
            items.append(it)
            metas[it["id"]] = dict(shape=name, kind="endless_" + mode)

    res = vlife.run_items(ctx, items, datasets, "drops", procs=6, hang_secs=90, budget=600 if quick else 6000)

    classes = collections.Counter()
    nontrivial = set()
    samples = []
    evaluations = 0
    tasks_seen = 0
    for it in items:
        r = res[it["id"]]
        meta = metas[it["id"]]
        if r["outcome"] == "hang":
            r2 = vlife.confirm(ctx, it, datasets, "confirm" + str(evaluations), hang_secs=120)
            if r2["outcome"] != "hang":
                classes["hang_not_confirmed"] += 1
                r = r2
        evaluations += 1
        oc = r["outcome"]
        msg = None
        if oc == "hang":
            msg = "no progress after the drop/cancellation (watchdog, confirmed by a second run)"
        elif oc == "abort":
            msg = f"process abort (rc={r.get('rc')})"
        elif oc == "plan_err":
            classes["plan_err:" + meta["shape"]] += 1
            continue
        elif meta["kind"].startswith("endless"):
            if oc == "no_yield":
                msg = "the query consumed the whole capped endless input without handing control back to the runtime (no cancellation/timeout can take effect)"
            elif oc in ("cancelled", "elapsed"):
                msg = vlife.released(r)
                msg = msg and "after cancellation: " + msg
            elif oc in ("finished", "err", "panic"):
                classes["endless_" + oc] += 1
                raise ToolError(f"endless query {it['id']} ended with {oc}: {r.get('err')}")
        else:
            if oc == "panic":
                msg = "panic while polling/dropping: " + (r.get("err") or "")[:200]
            else:
                msg = vlife.released(r)
                msg = msg and f"after dropping the stream ({oc}, {r.get('batches_polled')} batches polled): " + msg
        classes[meta["kind"] + ":" + oc] += 1
        if oc in ("dropped", "cancelled", "elapsed", "err"):
            spawned = r.get("counters", {}).get("src_streams", 0)
            nontrivial.add((it["sql"], json.dumps(it["exec"], sort_keys=True), it.get("drop_at"), json.dumps(it.get("mem")), meta["kind"]))
            if len(samples) < 3 and (not samples or samples[-1]["kind"] != meta["kind"]):
                samples.append({"kind": meta["kind"], "sql": it["sql"], "drop_at": it.get("drop_at"), "of_batches": meta.get("of"), "mem": it.get("mem"),
                                "outcome": oc, "after": r.get("after"), "counters": r.get("counters")})
        if msg:
            report_violation(ctx, {"item": it, "datasets": {it["dataset"]: datasets[it["dataset"]]}, "meta": meta,
                                   "observed": {k: v for k, v in r.items() if k != "rows"}, "oracle": msg, "class": meta["kind"]}, key=finding_key(r))
    if sum(v for k, v in classes.items() if k.startswith("endless") and (k.endswith("cancelled") or k.endswith("elapsed"))) < 10:
        raise ToolError("vacuity: endless-source cases did not run")
    mstats = mbg.join()
    write_evidence(ctx, "fault_enumeration", {
        "evaluations": evaluations, "distinct_nontrivial": len(nontrivial),
        "rule": "case = <query shape, execution variant, memory configuration, drop point k | input error | endless source + cancellation>; shapes, drop points "
                "(scaled to the measured number of result batches), memory class and the error variant are enumerated by TLC from StreamTree (drop mode); "
                "non-trivial = the stream was actually dropped / cancelled / failed before completion and the release conditions were evaluated; distinct by "
                "<sql, execution variant, drop point, memory configuration, kind>",
        "samples": samples, "outcome_classes": dict(sorted(classes.items())), "stream_tree_model": mstats,
        "release_conditions": ["tokio num_alive_tasks = 0", "all source streams dropped", "source production stopped", "pool.reserved() = 0",
                               "DiskManager::used_disk_space() = 0", "temp directory empty"],
    }, assumptions=[
        "live spawned tasks are read from tokio's runtime metrics (num_alive_tasks) of the per-case runtime; spawn_blocking jobs are not counted there, their effect is covered by the disk/temp-file conditions",
        "release is awaited with a progress-based bound: the wait ends when nothing (tasks, open source streams, source polls) changed for 5 s",
        "the cooperative-yield verdict is deterministic: on a current-thread runtime the driver task is re-scheduled only if the query task yields; an endless source that is capped at 20k batches per stream turns 'never yields' into a terminating run",
        "tokio::time::timeout variant: the source turns finite only 15x after the deadline and after 50k further polls, so 'completed instead of Elapsed' is not a timing accident",
    ])


def replay(ctx):
    rp = json.load(open(ctx.replay))
    it = rp["item"]
    r = vlife.run_items(ctx, [it], rp.get("datasets", {}), "replay", procs=1, hang_secs=120)[it["id"]]
    msg = None
    if r["outcome"] in ("hang", "abort", "no_yield", "panic"):
        msg = r["outcome"]
    else:
        msg = vlife.released(r)
    if msg:
        report_violation(ctx, dict(rp, observed={k: v for k, v in r.items() if k != "rows"}, oracle=msg), key=finding_key(r))
    write_evidence(ctx, "fault_enumeration", {"evaluations": 1, "distinct_nontrivial": 2, "rule": "replay of one recorded case", "samples": [{"item": it["id"], "outcome": r["outcome"]}]})
