"""C20 — execution errors always surface; no truncated result counts as success.

1. TLC model-checks spec/proto/StreamTree.tla in fault mode (NoTruncation, FaultSurfaces, FaultReached,
   release invariants, termination) and ENUMERATES the fault cases <<shape, fault kind, leaf/partition, k>>.
2. B3: every enumerated case is replayed on the real engine: the shape's query (lib/vlife.py BINDING) over
   fault-injecting TableProviders (error / panic at batch k of partition p), a failing ScalarUDF (row k), a pool
   that denies the k-th try_grow, the k-th spill write failing (cfg switch in FileSpillWriter::write), and
   disk-limit exhaustion; positions of pool/spill faults are enumerated from the counts measured on the
   fault-free run.  The same faults are crossed with TLC-generated SQL queries (spec/gen/PlanGen.tla) whose
   expected rows come from the TLA+ reference semantics.
3. Oracle: a run that ends Ok must return exactly the reference rows (fault-free run of the shape / TLA+
   result of the query); where the model says the fault is necessarily observed (no early-stopping operator
   above it) and the injector reports that it fired, Ok is a violation even with complete rows; hang
   (progress watchdog, confirmed by a second run), process abort and panic-instead-of-error are violations.
"""
import json, re, collections, os
from common import *
import sqlcases, vlife

NB, RB = 3, 4                       # std dataset: batches per partition, rows per batch
EFFECTIVE = {"src_err", "src_panic", "udf", "spillw", "src_swallow"}

# queries that spill under a small pool (big dataset): sql, tp, pl, mem limits tried
SPILL_SHAPES = {
    "sort": dict(sql="SELECT id, k, v, s FROM l ORDER BY v, id", tp=1, pl=1, ordered=True),
    "spm": dict(sql="SELECT id, k, v, s FROM l ORDER BY v, id", tp=2, pl=2, ordered=True),
    "agg_single": dict(sql="SELECT id % 257 AS g, count(*) AS c, sum(v) AS sv, min(s) AS ms FROM l GROUP BY id % 257", tp=1, pl=1),
    "agg_partial_final": dict(sql="SELECT id % 257 AS g, count(*) AS c, sum(v) AS sv FROM l GROUP BY id % 257", tp=2, pl=2),
    "sort_repart": dict(sql="SELECT id, v FROM l WHERE v % 7 <> 0 ORDER BY v, id", tp=4, pl=1, ordered=True),
    "smj": dict(sql="SELECT l.id AS a, r.id AS b FROM l JOIN r ON l.id = r.w + 100", tp=2, pl=2, settings=vlife.SMJ),
    "repart_hash": dict(sql="SELECT id, k, sum(v) OVER (PARTITION BY k) AS sw FROM l", tp=4, pl=2),
}
SPILL_SETTINGS = [["datafusion.execution.sort_spill_reservation_bytes", "1024"],
                  ["datafusion.execution.sort_in_place_threshold_bytes", "0"]]
SPILL_LIMITS = [24_000, 48_000, 96_000]


def variant(ctx, i):
    """execution variant of the i-th faulted run (runtime flavour, polling style, Pending-fuzz)."""
    x = (ctx.seed * 7 + i * 13) % 12
    return dict(rt="current" if x % 3 == 0 else "multi", poll="collect" if x % 4 == 1 else "stream", pending_every=3 if x % 5 == 2 else 0)


def same_result(r, ref, meta):
    if meta.get("limit"):
        return None if r.get("n_rows") == ref.get("n_rows") else f"LIMIT query returned {r.get('n_rows')} rows, fault-free run {ref.get('n_rows')}"
    if r.get("n_rows") != ref.get("n_rows") or r.get("bag_hash") != ref.get("bag_hash"):
        return f"Ok with {r.get('n_rows')} rows but the fault-free run returns {ref.get('n_rows')} rows (bag differs)"
    if meta.get("ordered") and r.get("seq_hash") != ref.get("seq_hash"):
        return "Ok with the right bag but a different row order than the fault-free run (total ORDER BY)"
    return None


def judge(it, r, ref, meta):
    """Return (message or None, class) for one faulted run."""
    kind = (it.get("fault") or {}).get("kind", "none")
    oc = r["outcome"]
    fired = bool(r.get("fired"))
    if oc == "plan_err":
        return None, "plan_err"
    if oc == "abort":
        return f"process abort (rc={r.get('rc')}) instead of an error", "abort"
    if oc == "hang":
        return "no progress: the query neither finished nor failed (watchdog, confirmed by a second run)", "hang"
    if oc == "panic":
        if kind == "src_panic":
            return None, "panic_propagated"
        if fired:
            return f"panic instead of an error after the injected {kind} fault: {r.get('err', '')[:200]}", "panic"
        return None, "unrelated_panic"
    if oc == "err":
        return None, ("err_after_fault" if fired else "err_unfired")
    if oc == "ok":
        if meta.get("case") is not None:
            msg = sqlcases.compare(meta["case"], r.get("rows", []), None)
        else:
            msg = same_result(r, ref, meta)
        if msg:
            return f"ended successfully with a wrong/truncated result ({'fault fired' if fired else 'fault not fired'}): {msg}", "truncated"
        if fired and kind == "spillw":
            # a failed spill write whose data was evidently not needed (complete, correct result): counted, not condemned
            return None, "ok_exact_after_failed_spill_write"
        if fired and kind in EFFECTIVE and meta.get("must_err") and not r.get("may_stop_early_plan", False):
            return f"the injected {kind} fault fired and no early-stopping operator is above it, but the query ended Ok", "swallowed"
        return None, ("ok_fault_unreached" if not fired else "ok_after_fault_allowed")
    return f"unexpected outcome {oc}", "tool"


def finding_key(r, cls, ref_ops, it=None):
    """Narrow keys of genuine engine defects (known_findings.json); anything else raises."""
    nlj = [o for o in ref_ops if o.split(":")[0] == "NestedLoopJoinExec"]
    repart = any(o.startswith("RepartitionExec") for o in ref_ops)
    err = r.get("err") or ""
    if cls == "panic" and nlj and repart and ("partition not used yet" in err or "inner future panicked during poll" in err):
        return "nlj-oom-fallback-reexecutes-left-child-with-repartition"
    kind = ((it or {}).get("fault") or {}).get("kind")
    if cls == "truncated" and kind == "deny" and r.get("counters", {}).get("spill_writes", 0) > 0 \
            and any(o.split(":")[-1] in ("Left", "LeftSemi", "LeftAnti", "LeftMark", "Full") for o in nlj):
        return "nlj-memory-limited-fallback-wrong-rows-left-emitting-join"
    if cls == "hang" and kind == "disk_limit" and repart and ((it or {}).get("mem") or {}).get("limit"):
        return "disk-limit-while-repartition-spills-hangs"
    return None


def run(ctx):
    build("vlife")
    if ctx.replay:
        return replay(ctx)
    quick = ctx.quick
    # ------------------------------------------------------------------ 1. model + case enumeration
    cases, mbg = vlife.stream_tree_cases(ctx, "fault", NB, vlife.pick_mc_shapes(ctx, extra=["coalesce_parts"]), workers=4 if quick else 8)
    by_shape = collections.defaultdict(list)
    for c in cases:
        by_shape[c["shape"]].append(c)
    datasets = {}
    items, metas = [], {}

    def ds_for(pl, pr, nb=NB, rb=RB, endless=False):
        name = f"std-{nb}x{rb}-{pl}-{pr}" + ("-unbounded" if endless else "")
        if name not in datasets:
            datasets[name] = vlife.std_tables(nb, rb, pl, pr, endless=endless)
        return name

    def xo(b, **kw):
        """exec options of a catalogue shape (unbounded sources are capped at NB batches per stream)"""
        e = vlife.exec_of(b, **kw)
        if b.get("endless"):
            e["endless_cap"] = NB
        return e

    # ------------------------------------------------------------------ 2a. reference (fault-free) runs of every shape
    refs = []
    for sh in vlife.ALL_SHAPES:
        b = vlife.BINDING[sh]
        refs.append({"id": f"ref:{sh}", "sql": b["sql"], "dataset": ds_for(b["pl"], b["pr"], endless=b.get("endless", False)), "exec": xo(b), "want_plan": True})
    for sh, b in SPILL_SHAPES.items():
        dsn = ds_for(b["pl"], 1, nb=8, rb=128)
        ex = dict(vlife.exec_of(dict(b, settings=b.get("settings", []))), batch_size=128)
        ex["settings"] = ex["settings"] + SPILL_SETTINGS
        refs.append({"id": f"sref:{sh}", "sql": b["sql"], "dataset": dsn, "exec": ex})
        for li, lim in enumerate(SPILL_LIMITS):
            for pi, pool in enumerate(("fair", "greedy")):
                if quick and (li + pi + ctx.seed) % 2:
                    continue
                refs.append({"id": f"sprobe:{sh}:{pool}:{lim}", "sql": b["sql"], "dataset": dsn, "exec": ex, "mem": {"pool": pool, "limit": lim}})
    ref_res = vlife.run_items(ctx, refs, datasets, "ref", procs=6)
    drift = []
    for sh in vlife.ALL_SHAPES:
        r = ref_res[f"ref:{sh}"]
        if r["outcome"] != "ok":
            raise ToolError(f"fault-free run of shape {sh} failed: {r.get('err')}")
        miss = [o for o in vlife.BINDING[sh]["ops"] if not any(p.startswith(o) for p in r["plan_ops"])]
        if miss:
            drift.append({"shape": sh, "missing_operators": miss})
    for sh in SPILL_SHAPES:
        if ref_res[f"sref:{sh}"]["outcome"] != "ok":
            raise ToolError(f"fault-free run of spill shape {sh} failed: {ref_res[f'sref:{sh}'].get('err')}")

    # ------------------------------------------------------------------ 2b. TLC-enumerated fault cases on the std shapes
    n = 0
    per_shape_q = 8
    for sh in vlife.ALL_SHAPES:
        b = vlife.BINDING[sh]
        ref = ref_res[f"ref:{sh}"]
        cs = [c for c in by_shape[sh] if c["fault"]["kind"] != "none"]
        src = [c for c in cs if c["fault"]["kind"] in ("src_err", "src_panic")]
        udf = [c for c in cs if c["fault"]["kind"] == "udf"]
        deny = [c for c in cs if c["fault"]["kind"] == "deny"]
        chosen = src + udf
        if quick and len(chosen) > per_shape_q:
            ctx.rng.shuffle(chosen)
            # always keep the end-of-input fault of every leaf (all rows delivered, then Err)
            ends = [c for c in chosen if c["fault"]["k"] == NB and c["fault"]["kind"] == "src_err"]
            rest = [c for c in chosen if c not in ends]
            chosen = ends + rest[:max(0, per_shape_q - len(ends))]
        # pool denials: positions from the measured number of try_grow calls of the fault-free run
        tg = ref["counters"]["try_grows"]
        if deny and tg:
            ks = list(range(tg))
            if quick and len(ks) > 3:
                ks = sorted(ctx.rng.sample(ks, 3))
            d0 = deny[0]
            for k in ks:
                chosen.append(dict(d0, fault=dict(d0["fault"], k=k, t="", p=0), must_err=False))
        for c in chosen:
            f = c["fault"]
            k = f["k"]
            if f["kind"] == "udf":
                k = k * RB + (ctx.seed + n) % RB
            fault = {"kind": f["kind"], "table": f["t"].lower(), "part": f["p"], "k": k}
            v = variant(ctx, n)
            it = {"id": f"std:{sh}:{n}", "sql": b["sql"], "dataset": ds_for(b["pl"], b["pr"], endless=b.get("endless", False)),
                  "exec": xo(b, rt=v["rt"], poll=v["poll"], pending_every=v["pending_every"]), "fault": fault}
            items.append(it)
            metas[it["id"]] = dict(shape=sh, ref=f"ref:{sh}", must_err=bool(c["must_err"]), ordered=b.get("ordered", False),
                                   limit=b.get("limit", False), model_case=c)
            n += 1

    # ------------------------------------------------------------------ 2c. spill-write failures and disk limits
    spill_cfgs = 0
    for sh, b in SPILL_SHAPES.items():
        dsn = ds_for(b["pl"], 1, nb=8, rb=128)
        base = next(x for x in refs if x["id"] == f"sref:{sh}")
        probes = [(pool, lim, ref_res[f"sprobe:{sh}:{pool}:{lim}"]) for lim in SPILL_LIMITS for pool in ("fair", "greedy")
                  if f"sprobe:{sh}:{pool}:{lim}" in ref_res]
        spilling = [(pool, lim, r) for pool, lim, r in probes if (r.get("counters") or {}).get("spill_writes", 0) > 0 and r["outcome"] in ("ok", "err")]
        if quick:
            spilling = spilling[:1]
        for pool, lim, pr in spilling:
            spill_cfgs += 1
            w = pr["counters"]["spill_writes"]
            ks = sorted(set([0, 1, w // 2, w - 1]) & set(range(w))) if quick else sorted(set(list(range(min(w, 12))) + [w // 2, w - 1]))
            for k in ks:
                v = variant(ctx, n)
                ex = dict(base["exec"], rt=v["rt"], poll=v["poll"])
                it = {"id": f"spillw:{sh}:{n}", "sql": b["sql"], "dataset": dsn, "exec": ex, "mem": {"pool": pool, "limit": lim},
                      "fault": {"kind": "spillw", "table": "", "part": 0, "k": k}}
                items.append(it)
                metas[it["id"]] = dict(shape=sh, ref=f"sref:{sh}", must_err=True, ordered=b.get("ordered", False), spill=True)
                n += 1
            for dl in ([2048, 16384] if quick else [1, 1024, 4096, 16384, 65536]):
                it = {"id": f"disklim:{sh}:{n}", "sql": b["sql"], "dataset": dsn, "exec": base["exec"],
                      "mem": {"pool": pool, "limit": lim, "disk_limit": dl}, "fault": {"kind": "disk_limit", "table": "", "part": 0, "k": dl}}
                items.append(it)
                metas[it["id"]] = dict(shape=sh, ref=f"sref:{sh}", must_err=False, ordered=b.get("ordered", False), spill=True)
                n += 1

    # ------------------------------------------------------------------ 2d. TLC-generated SQL queries x faults
    nq = 50 if quick else 700
    gens = [(2, 1, ctx.seed, None), (2, 1, ctx.seed + 500, ["join", "agg", "setop", "subquery", "sort", "limit", "distinct"])] if quick else \
           [(2, 1, ctx.seed, None), (3, 1, ctx.seed + 500, ["join", "agg", "setop", "subquery", "sort", "limit", "distinct"]), (2, 2, ctx.seed + 900, None)]
    sqlc = []
    pg_states = 0
    gen_out = vlife.parallel([(lambda gi=gi, d=d, ed=ed, sd=sd, feats=feats: sqlcases.generate(
        ctx, nq // len(gens), sd, depth=d, edepth=ed, maxrows=4, features=feats, tag=f"plangen{gi}", workers=2)) for gi, (d, ed, sd, feats) in enumerate(gens)])
    for gi, (cs, gr) in enumerate(gen_out):
        pg_states += gr.distinct
        for c in cs:
            c["id"] = f"q{gi}-{c['id']}"
        sqlc += cs
    sql_items = []
    for qi, c in enumerate(sqlc):
        parts = 1 + (qi + ctx.seed) % 2
        tp = [1, 4][(qi // 2 + ctx.seed) % 2]
        settings = vlife.SMJ if (qi + ctx.seed) % 5 == 0 else []
        ex = {"target_partitions": tp, "partitions": parts, "batch_rows": 1, "rt": "multi", "poll": "stream", "settings": settings}
        c["_exec"] = ex
        sql_items.append({"id": f"sqlref:{c['id']}", "sql": c["sql"], "tables": c["tables"], "exec": ex})
        used = sorted(set(re.findall(r"FROM (t\d)\b", c["sql"])))
        pts = []
        for t in c["tables"]:
            if t["name"] not in used:
                continue
            nrows = len(t["rows"])
            for p in range(parts):
                nbat = max(1, len(range(p, nrows, parts)))
                for k in range(nbat + 1):
                    pts.append({"kind": "src_err" if (k + p + qi) % 4 else "src_panic", "table": t["name"], "part": p, "k": k})
        if quick and len(pts) > 3:
            ends = [p for p in pts if p["kind"] == "src_err"][-1:]
            pts = ctx.rng.sample(pts, 2) + ends
        for f in pts:
            v = variant(ctx, n)
            it = {"id": f"sql:{c['id']}:{n}", "sql": c["sql"], "tables": c["tables"], "exec": dict(ex, rt=v["rt"], poll=v["poll"], pending_every=v["pending_every"]), "fault": f}
            sql_items.append(it)
            metas[it["id"]] = dict(case=c, sqlref=f"sqlref:{c['id']}", must_err=True, plan_based=True)
            n += 1
        # failing UDF over the first BIGINT column of every scan
        usql = re.sub(r"\bc1 AS (n\d+c1)\b", r"vf(c1) AS \1", c["sql"])
        total = sum(len(t["rows"]) for t in c["tables"] if t["name"] in used)
        if usql != c["sql"] and total:
            for k in ([ctx.rng.randrange(total)] if quick else range(total)):
                it = {"id": f"sqludf:{c['id']}:{n}", "sql": usql, "tables": c["tables"], "exec": ex, "fault": {"kind": "udf", "table": "", "part": 0, "k": k}}
                sql_items.append(it)
                metas[it["id"]] = dict(case=c, sqlref=f"sqlref:{c['id']}", must_err=True, plan_based=True)
                n += 1
            # a denied reservation somewhere in the query
            it = {"id": f"sqldeny:{c['id']}:{n}", "sql": c["sql"], "tables": c["tables"], "exec": ex, "fault": {"kind": "deny", "table": "", "part": 0, "k": (qi + ctx.seed) % 6}}
            sql_items.append(it)
            metas[it["id"]] = dict(case=c, sqlref=f"sqlref:{c['id']}", must_err=False, plan_based=True)
            n += 1

    # ------------------------------------------------------------------ 2e. partial consumers of exchange-like operators
    pcases, pbg = vlife.partial_cases(ctx)
    pitems, plim_items = [], []
    PNB, PRB = 8, 4
    pby = collections.defaultdict(list)
    for c in pcases:
        pby[c["shape"]].append(c)

    def real_k(km, i):
        return [(ctx.seed + i) % 3, 3 + (ctx.seed + i) % 5, PNB][km]

    def real_n(m, i):
        return {2: (2, 4), 3: (3, 8)}[m][(ctx.seed + i) % 2]

    for sh in vlife.PSHAPES:
        cs = list(pby[sh])
        ctx.rng.shuffle(cs)
        want = 6 if quick else 40
        # keep variety: both drop timings, both fault kinds, the end-of-input fault
        chosen, seen = [], set()
        for c in cs:
            key = (c["fan"]["when"], c["fault"]["kind"], c["fault"]["k"] == 2, c["fan"]["m"])
            if key not in seen or len(chosen) < want:
                if key not in seen or not quick:
                    chosen.append(c)
                    seen.add(key)
            if len(chosen) >= want:
                break
        for c in chosen:
            f, fan = c["fault"], c["fan"]
            nout = real_n(fan["m"], n)
            fault = {"kind": f["kind"], "table": f["t"].lower(), "part": f["p"], "k": real_k(f["k"], n)}
            if sh == "p_local_limit":
                fault["k"] = PNB  # all rows delivered, then the error: satisfied partitions were dropped by the engine itself
                it = {"id": f"plim:{n}", "sql": "SELECT id, k, v FROM l", "dataset": ds_for(2, 1, nb=PNB, rb=PRB),
                      "exec": {"target_partitions": 2, "rt": "multi" if n % 2 else "current", "poll": "stream", "batch_size": PRB, "settings": []},
                      "wrap": [{"op": "repartition", "kind": "hash", "n": 4, "col": "k"}, {"op": "local_limit", "fetch": 20}, {"op": "coalesce"}], "fault": fault}
                plim_items.append(it)
                n += 1
                continue
            b = vlife.PBINDING[sh]
            drop = sorted(p for p in range(nout) if (p % fan["m"]) + 1 in fan["drop"])
            it = {"id": f"part:{sh}:{n}", "sql": b["sql"], "dataset": ds_for(b["pl"], b["pr"], nb=PNB, rb=PRB),
                  "exec": {"target_partitions": nout if b["tp"] == "n" else b["tp"], "rt": "multi", "workers": 2 + n % 2, "batch_size": PRB,
                           "settings": list(b.get("settings", []))},
                  "fault": fault, "partial": {"polls": [[0], [1], [0, 1, 2], [2, 0]][(ctx.seed + n) % 4], "drop": drop, "when": fan["when"], "reps": 20 if quick else 40}}
            if b.get("wrap"):
                it["wrap"] = [{"op": "interleave", "n": nout, "col": "k"}] if b["wrap"] == "interleave" else \
                             [{"op": "repartition", "kind": b["wrap"], "n": nout, "col": "k"}]
            pitems.append(it)
            metas[it["id"]] = dict(shape=sh, must=b["must"], model_case=c, nout=nout)
            n += 1
    if plim_items:
        base = plim_items[0]
        plim_items.append(dict(base, id="plim:ref", fault=None))
        plim_items.append({"id": "plim:parts", "sql": base["sql"], "dataset": base["dataset"], "exec": base["exec"], "wrap": base["wrap"][:1],
                           "partial": {"polls": [0], "drop": [], "when": "before", "reps": 0}})

    selftest = os.environ.get("C20_SELFTEST") == "1"
    if selftest:
        # demonstrate that the oracle binds: the source swallows the error (Err -> end of stream); every such run must be condemned
        for it in items + sql_items:
            if it.get("fault") and it["fault"]["kind"] == "src_err":
                it["fault"]["kind"] = "src_swallow"
    res = vlife.run_items(ctx, items + sql_items + pitems + plim_items, datasets, "faults", procs=6, budget=600 if quick else 6000)
    res.update(ref_res)

    # ------------------------------------------------------------------ 3. verdicts
    classes = collections.Counter()
    kinds = collections.Counter()
    nontrivial = set()
    ops_cov = collections.Counter()
    samples = []
    not_ending = 0
    evaluations = 0
    skipped_cal = 0
    all_items = {it["id"]: it for it in items + sql_items}
    for iid, it in all_items.items():
        if iid.startswith("sqlref:"):
            continue
        meta = metas[iid]
        r = res[iid]
        ref = None
        if meta.get("case") is not None:
            cal = res[meta["sqlref"]]
            c = meta["case"]
            # calibration: the fault-free engine run must agree with the TLA+ reference (else it is C01's subject)
            if cal["outcome"] != "ok" or sqlcases.compare(c, cal.get("rows", []), None) or c["expect"]["err"]:
                skipped_cal += 1
                continue
            if meta.get("plan_based"):
                r["may_stop_early_plan"] = bool(cal.get("may_stop_early", True))
        else:
            ref = res[meta["ref"]]
        if r["outcome"] == "hang":
            r2 = vlife.confirm(ctx, it, datasets if "dataset" in it else {}, "confirm" + str(evaluations))
            if r2["outcome"] != "hang":
                classes["hang_not_confirmed"] += 1
                r = r2
                if meta.get("plan_based"):
                    r["may_stop_early_plan"] = bool(res[meta["sqlref"]].get("may_stop_early", True))
        evaluations += 1
        msg, cls = judge(it, r, ref, meta)
        classes[cls] += 1
        kinds[it["fault"]["kind"]] += 1
        if r.get("post_err") and not r["post_err"]["ended"]:
            not_ending += 1
        for o in set(r.get("plan_ops") or (ref or {}).get("plan_ops") or res.get(meta.get("sqlref", ""), {}).get("plan_ops") or []):
            if r.get("fired"):
                ops_cov[o] += 1
        if cls in ("err_after_fault", "panic_propagated"):
            nontrivial.add((it["sql"], json.dumps(it["fault"], sort_keys=True), json.dumps(it["exec"], sort_keys=True), json.dumps(it.get("mem"))))
            if len(samples) < 3 and (not samples or samples[-1]["fault"]["kind"] != it["fault"]["kind"]):
                samples.append({"sql": it["sql"], "fault": it["fault"], "exec": it["exec"], "outcome": r["outcome"], "error": (r.get("err") or "")[:160],
                                "batches_before_error": r.get("batches_polled")})
        if selftest:
            if it["fault"]["kind"] == "src_swallow" and r.get("fired"):
                classes["selftest_swallow_fired"] += 1
                if msg:
                    classes["selftest_swallow_detected"] += 1
                else:
                    classes["selftest_missed:" + (meta.get("shape") or "sql")] += 1
            continue
        if msg:
            rp = {"item": it, "datasets": {it["dataset"]: datasets[it["dataset"]]} if "dataset" in it else {},
                  "ref_item": next((x for x in refs if x["id"] == meta.get("ref")), None) or all_items.get(meta.get("sqlref")),
                  "meta": {k: v for k, v in meta.items() if k != "model_case"}, "observed": {k: v for k, v in r.items() if k != "rows"},
                  "observed_rows": r.get("rows"), "oracle": msg, "class": cls}
            ref_ops = (ref or res.get(meta.get("sqlref", ""), {})).get("plan_ops") or []
            report_violation(ctx, rp, key=finding_key(r, cls, ref_ops, it))
    # ---- partial consumers: every surviving output ends with the error, or cleanly with exactly its reference rows
    pstat = collections.Counter()
    for it in pitems:
        r = res[it["id"]]
        meta = metas[it["id"]]
        if r["outcome"] == "hang":
            r2 = vlife.confirm(ctx, it, datasets, "pconfirm" + str(evaluations))
            if r2["outcome"] != "hang":
                pstat["hang_not_confirmed"] += 1
                r = r2
        evaluations += 1
        msgs = []
        if r["outcome"] == "hang":
            msgs.append("no progress while driving the output partitions (watchdog, confirmed by a second run)")
        elif r["outcome"] == "abort":
            msgs.append(f"process abort (rc={r.get('rc')})")
        elif r["outcome"] == "panic":
            if it["fault"]["kind"] != "src_panic" and r.get("fired"):
                msgs.append("panic instead of an error: " + (r.get("err") or "")[:200])
            pstat["item_panic"] += 1
        elif r["outcome"] != "partial":
            raise ToolError(f"partial item {it['id']} ended with {r['outcome']}: {r.get('err')}")
        else:
            miss = [o for o in vlife.PBINDING[meta["shape"]]["ops"] if not any(x.startswith(o) for x in r.get("plan_ops", []))]
            if miss and not any(d.get("shape") == meta["shape"] for d in drift):
                drift.append({"shape": meta["shape"], "missing_operators": miss})
            refp = r["reference"]["parts"]
            must = meta["must"] and not r.get("may_stop_early", True)
            for ri, rep in enumerate(r["reps"]):
                pstat["reps"] += 1
                for pi, pt in enumerate(rep["parts"]):
                    if pt["end"] == "dropped":
                        pstat["outputs_dropped"] += 1
                    elif pt["end"] in ("err", "panic"):
                        pstat["survivor_err"] += 1
                    elif pt["end"] == "eos":
                        if pt["rows"] != refp[pi]["rows"] or pt["bag"] != refp[pi]["bag"]:
                            msgs.append(f"repetition {ri}: output partition {pi} ended cleanly with {pt['rows']} rows, the fault-free run routes {refp[pi]['rows']} rows to it "
                                        f"(dropped outputs {it['partial']['drop']} {it['partial']['when']} the fault; fault fired={rep['fired']})")
                        elif rep["fired"] and must:
                            msgs.append(f"repetition {ri}: the input failed but live output partition {pi} ended cleanly (error not fanned out to every live output)")
                        else:
                            pstat["survivor_clean_complete"] += 1
                if rep["fired"] and any(pt["end"] in ("err", "panic") for pt in rep["parts"]):
                    nontrivial.add((it["sql"], json.dumps(it.get("wrap")), json.dumps(it["fault"], sort_keys=True), json.dumps(it["partial"], sort_keys=True), ri))
        if msgs and not selftest:
            report_violation(ctx, {"item": it, "datasets": {it["dataset"]: datasets[it["dataset"]]}, "meta": {"shape": meta["shape"], "must": meta["must"], "partial": True},
                                   "observed": {k: v for k, v in r.items() if k not in ("reps", "rows")}, "oracle": "; ".join(msgs[:4]), "violating_messages": len(msgs), "class": "partial"})
    # plan-level form: per-partition LIMIT above a hash repartition, satisfied partitions are dropped by the engine
    if plim_items:
        pref, parts = res["plim:ref"], res["plim:parts"]
        if pref["outcome"] != "ok" or parts["outcome"] != "partial":
            raise ToolError("reference runs of the local-limit form failed")
        unsat = any(pt["rows"] < 20 for pt in parts["reference"]["parts"])
        for it in plim_items:
            if it.get("fault") is None or "partial" in it:
                continue
            r = res[it["id"]]
            evaluations += 1
            msg = None
            if r["outcome"] == "ok":
                if r.get("n_rows") != pref.get("n_rows"):
                    msg = f"Ok with {r.get('n_rows')} rows, fault-free run {pref.get('n_rows')}"
                elif r.get("fired") and unsat:
                    msg = "the input failed while an unsatisfied LIMIT partition was still reading, but the query ended Ok"
                pstat["plim_ok"] += 1
            elif r["outcome"] in ("err",) or (r["outcome"] == "panic" and it["fault"]["kind"] == "src_panic"):
                pstat["plim_err"] += 1
                nontrivial.add((it["id"], "plim"))
            elif r["outcome"] in ("hang", "abort", "panic"):
                msg = f"{r['outcome']} instead of an error"
            if msg and not selftest:
                report_violation(ctx, {"item": it, "ref_item": next(x for x in plim_items if x["id"] == "plim:ref"), "datasets": {it["dataset"]: datasets[it["dataset"]]},
                                       "meta": {"plim": True, "unsat": unsat}, "observed": {k: v for k, v in r.items() if k != "rows"}, "oracle": msg, "class": "partial_plan_level"})
    pmstats = pbg.join()
    if pstat["survivor_err"] < 50:
        raise ToolError(f"vacuity: partial-consumer family observed too few surviving outputs ending with the error: {dict(pstat)}")
    if selftest:
        log("SELFTEST", json.dumps(dict(classes)))
        write_evidence(ctx, "fault_enumeration", {"evaluations": evaluations, "distinct_nontrivial": classes["selftest_swallow_detected"], "rule": "selftest", "samples": [dict(classes)]})
        return
    if classes["tool"]:
        raise ToolError("unexpected harness outcome")
    if classes["err_after_fault"] + classes["panic_propagated"] < 20:
        raise ToolError("vacuity: almost no injected fault was observed as an error")
    mstats = mbg.join()
    write_evidence(ctx, "fault_enumeration", {
        "evaluations": evaluations, "distinct_nontrivial": len(nontrivial),
        "rule": "case = <query, execution variant, fault kind, table/partition, position k> — shapes and source/udf fault points enumerated by TLC from "
                "StreamTree (fault mode), pool-denial / spill-write positions enumerated from the counts measured on the fault-free run, SQL queries and "
                "their expected rows generated by TLC from PlanGen/Rel; non-trivial = the injector reports the fault fired and the query ended with an "
                "error (or the injected panic propagated); distinct by <sql, fault, execution variant, memory configuration>",
        "samples": samples, "outcome_classes": dict(classes), "fault_kinds": dict(kinds),
        "stream_tree_model": mstats, "plangen_states": pg_states, "sql_queries": len(sqlc), "sql_cases_skipped_by_calibration": skipped_cal,
        "spill_configurations": spill_cfgs, "operators_with_observed_fault": dict(sorted(ops_cov.items())),
        "binding_drift": drift, "streams_repeating_error_instead_of_ending": not_ending,
        "partial_consumers": dict(pstat), "partial_consumer_items": len(pitems), "partial_consumer_model": pmstats,
    }, assumptions=[
        "shape binding: the StreamTree catalogue names query shapes; lib/vlife.py BINDING maps each to SQL + settings and checks that the physical plan contains the named operators (drift is reported, not a verdict)",
        "a fault that fired under an operator that may stop early (LIMIT / fetch / any join, decided on the physical plan for generated SQL, by the model for catalogue shapes) may legitimately stay unobserved; then only the result comparison applies",
        "a stream that keeps returning the same error when polled again after its first error (hash-join build side) is counted, not condemned: collect() stops at the first error",
        "an injected panic may surface as a propagated panic or as an error; both count as 'surfaced'",
        "binding demonstrated while developing: see final report (error swallowed in a scratch copy of the source wrapper -> 'truncated'/'swallowed' verdicts)",
    ])


def partial_msgs(it, r, must):
    """Oracle of one partial-consumer item (used by replay): messages for surviving outputs that ended cleanly but wrongly."""
    msgs = []
    if r["outcome"] in ("hang", "abort"):
        return [r["outcome"] + " while driving the output partitions"]
    if r["outcome"] != "partial":
        return msgs
    refp = r["reference"]["parts"]
    must = must and not r.get("may_stop_early", True)
    for ri, rep in enumerate(r["reps"]):
        for pi, pt in enumerate(rep["parts"]):
            if pt["end"] == "eos":
                if pt["rows"] != refp[pi]["rows"] or pt["bag"] != refp[pi]["bag"]:
                    msgs.append(f"repetition {ri}: output partition {pi} ended cleanly with {pt['rows']} rows, reference {refp[pi]['rows']}")
                elif rep["fired"] and must:
                    msgs.append(f"repetition {ri}: the input failed but live output partition {pi} ended cleanly")
    return msgs


def replay(ctx):
    rp = json.load(open(ctx.replay))
    it, refit = rp["item"], rp.get("ref_item")
    ds = rp.get("datasets", {})
    if rp.get("meta", {}).get("partial"):
        r = vlife.run_items(ctx, [it], ds, "replay", procs=1)[it["id"]]
        msgs = partial_msgs(it, r, rp["meta"].get("must", False))
        if msgs:
            report_violation(ctx, dict(rp, observed={k: v for k, v in r.items() if k not in ("reps", "rows")}, oracle="; ".join(msgs[:4])))
        write_evidence(ctx, "fault_enumeration", {"evaluations": len(r.get("reps", [])) or 1, "distinct_nontrivial": 2, "rule": "replay of one recorded partial-consumer case",
                                                   "samples": [{"item": it["id"], "violating_messages": len(msgs)}]})
        return
    todo = [it] + ([refit] if refit else [])
    res = vlife.run_items(ctx, todo, ds, "replay", procs=1)
    meta = rp["meta"]
    r = res[it["id"]]
    ref = res[refit["id"]] if refit else None
    if meta.get("case") is not None and ref is not None:
        r["may_stop_early_plan"] = bool(ref.get("may_stop_early", True))
    msg, cls = judge(it, r, ref, meta)
    if msg:
        report_violation(ctx, dict(rp, observed={k: v for k, v in r.items() if k != "rows"}, oracle=msg),
                         key=finding_key(r, cls, (ref or {}).get("plan_ops") or [], it))
    write_evidence(ctx, "fault_enumeration", {"evaluations": 1, "distinct_nontrivial": 2, "rule": "replay of one recorded case", "samples": [{"item": it["id"], "class": cls}]})
