"""Shared driver pieces for the lifecycle checks C18/C19/C20 (harness crate vlife, spec/proto/StreamTree.tla).

* std datasets (tables `l`, `r` as value grids with an explicit partition/batch layout),
* BINDING: shape name of the StreamTree catalogue -> real query (SQL over the fault-injecting providers +
  session settings that make the planner build the physical operators the shape names),
* stream_tree_cases(): TLC model-checks StreamTree (seed-rotated subset of shapes in quick tier, all in
  thorough) and enumerates the cases <<shape, fault, drop point, memory limit>> from the initial states,
* run_items(): fan the items out over a few harness processes, collect results, detect crashes.
"""
import json, os, subprocess, threading, time
from common import *

STR = {1: "a", 2: "ab", 3: "b"}


def I(x):
    return {"k": "i", "v": x}


def S(i):
    return {"k": "s", "v": i}


def std_tables(nb, rb, pl, pr, endless=False):  # endless: unbounded sources (the driver caps them at nb batches)
    """l(id,k,v,s): pl partitions x nb batches x rb rows;  r(id,k,w): pr x nb x rb.  Row ids are unique,
    k = id % 5 on both sides (every key occurs on both sides, the largest key last), values small ints."""
    def mk(name, cols, nparts, base, rowf):
        n = nparts * nb * rb
        rows = [rowf(base + i, i) for i in range(n)]
        # vcommon::sqlexec::table_partitions deals rows round-robin to partitions, then chunks by batch_rows
        t = {"name": name, "cols": cols, "rows": rows, "partitions": nparts, "batch_rows": rb}
        if endless:
            t["endless"] = True
        return t
    l = mk("l", [{"name": "id", "kind": "i"}, {"name": "k", "kind": "i"}, {"name": "v", "kind": "i"}, {"name": "s", "kind": "s"}],
           pl, 0, lambda id_, i: [I(id_), I(id_ % 5), I((id_ * 7) % 23), S(id_ % 3 + 1)])
    r = mk("r", [{"name": "id", "kind": "i"}, {"name": "k", "kind": "i"}, {"name": "w", "kind": "i"}],
           pr, 100000, lambda id_, i: [I(id_), I(i % 5), I((i * 3) % 11)])
    return [l, r]


HJ_PART = [["datafusion.optimizer.hash_join_single_partition_threshold", "0"],
           ["datafusion.optimizer.hash_join_single_partition_threshold_rows", "0"]]
SMJ = [["datafusion.optimizer.prefer_hash_join", "false"]]

# shape -> sql, target_partitions, partitions of l / r, settings, operators the physical plan must contain
BINDING = {
    "filter": dict(sql="SELECT id, k, v FROM l WHERE v % 7 <> 0", tp=1, pl=1, pr=1, ops=["FilterExec"]),
    "projection": dict(sql="SELECT id + 1 AS a, v * 2 AS b, s FROM l", tp=1, pl=1, pr=1, ops=["ProjectionExec"]),
    "projection_udf": dict(sql="SELECT id, vf(v) AS fv FROM l", tp=1, pl=1, pr=1, ops=["ProjectionExec"]),
    "filter_udf": dict(sql="SELECT id, v FROM l WHERE vf(v) >= 0", tp=1, pl=1, pr=1, ops=["FilterExec"]),
    "coalesce_batches": dict(sql="SELECT id, v FROM l WHERE v >= 0", tp=1, pl=1, pr=1, ops=["FilterExec"], batch_size=3),
    "sort": dict(sql="SELECT id, k, v FROM l ORDER BY v, id", tp=1, pl=1, pr=1, ops=["SortExec"], ordered=True),
    "topk": dict(sql="SELECT id, k, v FROM l ORDER BY v DESC, id LIMIT 5", tp=1, pl=1, pr=1, ops=["SortExec(TopK)"], ordered=True),
    "agg_single": dict(sql="SELECT k, count(*) AS c, sum(v) AS sv, min(s) AS ms FROM l GROUP BY k", tp=1, pl=1, pr=1, ops=["AggregateExec:Single"]),
    "distinct": dict(sql="SELECT DISTINCT k, s FROM l", tp=1, pl=1, pr=1, ops=["AggregateExec:Single"]),
    "window": dict(sql="SELECT id, k, sum(v) OVER (PARTITION BY k) AS sw FROM l", tp=1, pl=1, pr=1, ops=["WindowAggExec"]),
    "bounded_window": dict(sql="SELECT id, k, sum(v) OVER (PARTITION BY k ORDER BY id) AS sw FROM l", tp=1, pl=1, pr=1, ops=["BoundedWindowAggExec", "SortExec"]),
    "union": dict(sql="SELECT id, k FROM l UNION ALL SELECT id, k FROM r", tp=2, pl=1, pr=1, ops=["UnionExec"]),
    "union_agg": dict(sql="SELECT k, count(*) AS c FROM (SELECT k FROM l UNION ALL SELECT k FROM r) AS u GROUP BY k", tp=1, pl=1, pr=1, ops=["UnionExec", "AggregateExec"]),
    "coalesce_parts": dict(sql="SELECT id, k, v FROM l", tp=2, pl=2, pr=1, ops=["FaultySource"], coalesce=True),
    "repart_rr": dict(sql="SELECT id, v FROM l WHERE v % 7 <> 0", tp=4, pl=1, pr=1, ops=["RepartitionExec:RoundRobin"]),
    "repart_hash": dict(sql="SELECT id, k, sum(v) OVER (PARTITION BY k) AS sw FROM l", tp=4, pl=2, pr=1, ops=["RepartitionExec:Hash"]),
    "spm": dict(sql="SELECT id, k, v FROM l ORDER BY v, id", tp=2, pl=2, pr=1, ops=["SortPreservingMergeExec", "SortExec"], ordered=True),
    "agg_partial_final": dict(sql="SELECT k, count(*) AS c, sum(v) AS sv, min(s) AS ms FROM l GROUP BY k", tp=2, pl=2, pr=1,
                              ops=["AggregateExec:Partial", "AggregateExec:FinalPartitioned", "RepartitionExec:Hash"]),
    "hash_join": dict(sql="SELECT l.id AS a, r.id AS b, l.v, r.w FROM l JOIN r ON l.k = r.k", tp=1, pl=1, pr=1, ops=["HashJoinExec:CollectLeft"]),
    "hash_join_part": dict(sql="SELECT l.id AS a, r.id AS b, l.v, r.w FROM l JOIN r ON l.k = r.k", tp=2, pl=2, pr=2, settings=HJ_PART,
                           ops=["HashJoinExec:Partitioned", "RepartitionExec:Hash"]),
    "hash_join_outer": dict(sql="SELECT l.id AS a, r.id AS b FROM l FULL JOIN r ON l.k = r.k AND l.v = r.w", tp=1, pl=1, pr=1, ops=["HashJoinExec"]),
    "smj": dict(sql="SELECT l.id AS a, r.id AS b, l.v, r.w FROM l JOIN r ON l.k = r.k", tp=2, pl=1, pr=1, settings=SMJ, ops=["SortMergeJoinExec", "SortExec"]),
    "nlj": dict(sql="SELECT l.id AS a, r.id AS b FROM l JOIN r ON l.v < r.w", tp=1, pl=1, pr=1, ops=["NestedLoopJoinExec"]),
    "cross": dict(sql="SELECT l.id AS a, r.id AS b FROM l CROSS JOIN r", tp=1, pl=1, pr=1, ops=["CrossJoinExec"]),
    "semi_join": dict(sql="SELECT id, v FROM l WHERE k IN (SELECT k FROM r WHERE w > 3)", tp=1, pl=1, pr=1, ops=["HashJoinExec"]),
    "anti_join": dict(sql="SELECT id, v FROM l WHERE NOT EXISTS (SELECT 1 FROM r WHERE r.k = l.k AND r.w > l.v)", tp=1, pl=1, pr=1, ops=["HashJoinExec"]),
    "scalar_subquery": dict(sql="SELECT id, v FROM l WHERE v > (SELECT avg(w) FROM r)", tp=1, pl=1, pr=1, ops=["AggregateExec"]),
    "analyze": dict(sql="EXPLAIN ANALYZE SELECT id, v FROM l WHERE v % 7 <> 0", tp=2, pl=2, pr=1, ops=["AnalyzeExec"], limit=True),
    "shj": dict(sql="SELECT l.id AS a, r.id AS b FROM l JOIN r ON l.k = r.k", tp=1, pl=1, pr=1, ops=["SymmetricHashJoinExec"], endless=True),
    "limit": dict(sql="SELECT id, k FROM l LIMIT 3", tp=1, pl=1, pr=1, ops=[], limit=True),
    "limit_xchg": dict(sql="SELECT id, k FROM l LIMIT 3", tp=2, pl=2, pr=1, ops=[], limit=True),
    "sort_repart": dict(sql="SELECT id, v FROM l WHERE v % 7 <> 0 ORDER BY v, id", tp=4, pl=1, pr=1, ops=["SortExec", "RepartitionExec:RoundRobin"], ordered=True),
    "filter_union_sort": dict(sql="SELECT id, k FROM (SELECT id, k FROM l UNION ALL SELECT id, k FROM r) AS u WHERE k <> 3 ORDER BY k, id", tp=2, pl=1, pr=1,
                              ops=["UnionExec", "SortExec", "FilterExec"], ordered=True),
}
ALL_SHAPES = sorted(BINDING)
SMALL_SHAPES = ["filter", "projection_udf", "sort", "topk", "agg_single", "window", "hash_join", "nlj", "limit", "coalesce_parts",
                "repart_rr", "bounded_window", "union", "limit_xchg", "semi_join", "distinct"]

INVARIANTS = "TypeOK NoTruncation FaultSurfaces FaultReached CleanFailure WithinLimit ReleasedWhenQuiescent DroppedHoldsNothing FanSurfaces FanComplete"


def st_cfg(ctx, name, mode, shapes, nb, spec="Spec", props=True, emit=False, mouts=(2, 3), breaks=False):
    cfg = ctx.path(name)
    with open(cfg, "w") as f:
        f.write(f'CONSTANTS NB = {nb}  MODE = "{mode}"  MOUTS = {{' + ",".join(str(m) for m in mouts) + f'}}  BREAKS = {"TRUE" if breaks else "FALSE"}\n')
        f.write('  SHAPES = {' + ",".join(f'"{s}"' for s in shapes) + "}\n")
        f.write(f"SPECIFICATION {spec}\nINVARIANTS {INVARIANTS}{' Emit' if emit else ''}\n")
        if props:
            f.write("PROPERTIES Terminates DropReleases StaysReleased\n")
        f.write("CHECK_DEADLOCK FALSE\n")
    return cfg


class Background:
    """Run fn() in a thread; join() returns its value or re-raises its exception (ToolError stays ToolError)."""

    def __init__(self, fn):
        self.val, self.exc = None, None

        def go():
            try:
                self.val = fn()
            except BaseException as e:  # noqa
                self.exc = e
        self.t = threading.Thread(target=go)
        self.t.start()

    def join(self):
        self.t.join()
        if self.exc is not None:
            raise self.exc
        return self.val


def parallel(fns):
    bs = [Background(f) for f in fns]
    return [b.join() for b in bs]


def stream_tree_cases(ctx, mode, nb_gen, mc_shapes, nb_mc=2, workers=4):
    """Enumerate the cases of every bound shape from the initial states of StreamTree (fast), and model-check
    StreamTree on mc_shapes (safety + liveness, action coverage) in the background while the harness runs.
    Returns (cases, bg) where bg.join() gives the statistics (or raises the specification-level ToolError)."""
    def mc():
        cfg = st_cfg(ctx, f"st-{mode}-mc.cfg", mode, mc_shapes, nb_mc)
        r = tlc_must_pass(ctx, "proto/StreamTree", cfg=cfg, workers=workers, coverage=True, deadlock=False, tag=f"st-{mode}-mc", timeout=600 if ctx.quick else 3000)
        taken = r.action_counts()
        need = ["SrcStep", "PipeStep", "BlockStep", "TaskStep", "TaskStop", "ClientDrop", "ClientTake", "XchgStep"]
        never = [a for a in need if a in taken and taken[a][1] == 0]
        if never:
            raise ToolError(f"vacuity: StreamTree actions never taken: {never}")
        return {"mc_shapes": mc_shapes, "mc_nb": nb_mc, "states": r.distinct, "transitions": r.generated, "mc_wall_s": round(r.wall, 1)}
    bg = Background(mc)
    gcfg = st_cfg(ctx, f"st-{mode}-gen.cfg", mode, ALL_SHAPES, nb_gen, spec="GenSpec", props=False, emit=True)
    g = tlc(ctx, "proto/StreamTree", cfg=gcfg, workers=1, deadlock=False, tag=f"st-{mode}-gen", timeout=900)
    if not g.ok:
        sys.stderr.write(g.out[-3000:])
        bg.join()
        raise ToolError("StreamTree case enumeration failed")
    cases = tlc_cases(g.out)
    if not cases:
        bg.join()
        raise ToolError("StreamTree enumerated no cases")
    fin = bg.join

    def join():
        st = fin()
        st.update({"cases_enumerated": len(cases), "gen_nb": nb_gen})
        return st
    bg.join = join
    return cases, bg


# partial consumers: catalogue shape (root = exchange with m outputs) -> query whose root plan has several output partitions
# (wrap = physical operators constructed on top of the planned query; tp "n" = the number of outputs)
PBINDING = {
    "p_repart_rr": dict(sql="SELECT id, k, v FROM l", pl=1, pr=1, tp=1, wrap="rr", must=True, ops=["RepartitionExec:RoundRobin"]),
    "p_repart_hash": dict(sql="SELECT id, k, v FROM l", pl=2, pr=1, tp=2, wrap="hash", must=True, ops=["RepartitionExec:Hash"]),
    "p_repart_filter": dict(sql="SELECT id, v FROM l WHERE v % 7 <> 0", pl=1, pr=1, tp=1, wrap="rr", must=True, ops=["RepartitionExec:RoundRobin", "FilterExec"]),
    "p_agg_final": dict(sql="SELECT k, count(*) AS c, sum(v) AS sv, min(s) AS ms FROM l GROUP BY k", pl=2, pr=1, tp="n", must=True,
                        ops=["AggregateExec:FinalPartitioned", "RepartitionExec:Hash"]),
    "p_window_hash": dict(sql="SELECT id, k, sum(v) OVER (PARTITION BY k) AS sw FROM l", pl=2, pr=1, tp="n", must=True, ops=["WindowAggExec", "RepartitionExec:Hash"]),
    "p_hash_join_part": dict(sql="SELECT l.id AS a, r.id AS b FROM l JOIN r ON l.k = r.k", pl=2, pr=2, tp="n", settings=HJ_PART, must=False,
                             ops=["HashJoinExec:Partitioned", "RepartitionExec:Hash"]),
    "p_smj": dict(sql="SELECT l.id AS a, r.id AS b FROM l JOIN r ON l.k = r.k", pl=1, pr=1, tp="n", settings=SMJ, must=False, ops=["SortMergeJoinExec", "RepartitionExec:Hash"]),
    "p_nlj_build": dict(sql="SELECT l.id AS a, r.id AS b FROM l JOIN r ON l.v < r.w", pl=1, pr=2, tp="n", must=False, ops=["NestedLoopJoinExec"]),
    "p_cross_build": dict(sql="SELECT l.id AS a, r.id AS b FROM l CROSS JOIN r", pl=1, pr=2, tp="n", must=False, ops=["CrossJoinExec"]),
    "p_interleave": dict(sql="SELECT id, k, v FROM l", pl=2, pr=1, tp=2, wrap="interleave", must=True, ops=["InterleaveExec", "RepartitionExec:Hash"]),
    "p_shared_build": dict(sql="SELECT l.id AS a, r.id AS b FROM l JOIN r ON l.k = r.k", pl=1, pr=2, tp="n", must=False,
                           settings=[["datafusion.optimizer.repartition_joins", "false"]], ops=["HashJoinExec:CollectLeft"]),
}
PSHAPES = sorted(PBINDING) + ["p_local_limit"]


def partial_cases(ctx):
    """StreamTree partial mode: enumerate <shape, m outputs, drop set, before/after, fault> from the initial states; in the
    background model-check one shape (fan-out to every live output, liveness) and require that the model REJECTS the
    fan-out that stops at the first closed output (BREAKS = TRUE)."""
    # single-input exchanges are small (a few thousand states); two-input ones have ~300k states (thorough only)
    mcs = [["p_repart_rr", "p_repart_filter", "p_shared_build"][ctx.seed % 3]] if ctx.quick else ["p_repart_rr", "p_repart_filter", "p_repart_hash"]

    def mc():
        cfg = st_cfg(ctx, "st-partial-mc.cfg", "partial", mcs, 2, mouts=(2,))
        r = tlc_must_pass(ctx, "proto/StreamTree", cfg=cfg, workers=4, coverage=True, deadlock=False, tag="st-partial-mc", timeout=600 if ctx.quick else 3000)
        taken = r.action_counts()
        never = [a for a in ["Route", "FanStep", "OutTake", "OutDrop", "FanFinish"] if a in taken and taken[a][1] == 0]
        if never:
            raise ToolError(f"vacuity: StreamTree partial-mode actions never taken: {never}")
        bcfg = st_cfg(ctx, "st-partial-breaks.cfg", "partial", ["p_repart_rr"], 2, props=False, mouts=(3,), breaks=True)
        b = tlc(ctx, "proto/StreamTree", cfg=bcfg, workers=2, deadlock=False, tag="st-partial-breaks", timeout=600)
        if "FanSurfaces" not in b.invariant_violated:
            sys.stderr.write(b.out[-2000:])
            raise ToolError("the model does not reject the error fan-out that stops at the first closed output (BREAKS = TRUE)")
        return {"mc_shapes": mcs, "states": r.distinct, "transitions": r.generated, "mc_wall_s": round(r.wall, 1), "breaks_variant_rejected": True}
    bg = Background(mc)
    gcfg = st_cfg(ctx, "st-partial-gen.cfg", "partial", PSHAPES, 2, spec="GenSpec", props=False, emit=True)
    g = tlc(ctx, "proto/StreamTree", cfg=gcfg, workers=1, deadlock=False, tag="st-partial-gen", timeout=900)
    cases = tlc_cases(g.out) if g.ok else []
    if not cases:
        sys.stderr.write(g.out[-3000:])
        bg.join()
        raise ToolError("StreamTree partial-mode case enumeration failed")
    return cases, bg


def pick_mc_shapes(ctx, extra=()):
    """quick: a seed-rotated handful of small shapes plus one exchange shape; thorough: everything."""
    if not ctx.quick:
        return ALL_SHAPES
    k = ctx.seed % len(SMALL_SHAPES)
    rot = SMALL_SHAPES[k:] + SMALL_SHAPES[:k]
    return sorted(set(rot[:3]) | set(extra))


def exec_of(b, rt="multi", poll="stream", pending_every=0, extra_settings=()):
    e = {"target_partitions": b["tp"], "rt": rt, "poll": poll, "settings": list(b.get("settings", [])) + list(extra_settings)}
    if "batch_size" in b:
        e["batch_size"] = b["batch_size"]
    if pending_every:
        e["pending_every"] = pending_every
    return e


def run_items(ctx, items, datasets, tag, procs=3, hang_secs=60, timeout=None, item_cap=150, budget=None):
    """Run items in `procs` harness processes and return {id: result}.

    Bounds (machinery, never verdicts): every item is bounded inside the harness by the progress watchdog
    (`hang_secs` without progress -> outcome "hang") and by a hard cap (`item_cap` seconds -> outcome "timeout");
    after either the harness process exits (code 3) and a fresh process continues with the remaining items, so one
    item cannot stall a chunk.  A process that dies is restarted after the killing item was confirmed alone
    (outcome "abort" if it kills the process again).  Every process invocation has its own timeout derived from the
    number of items, and the whole call has a wall budget; exceeding it is a ToolError (exit 2).  An item that hit
    the hard cap is re-run once alone; a second timeout is a ToolError."""
    build("vlife")
    exe = os.path.join(HARNESS, "target", "debug", "vlife")
    budget = budget or timeout or (900 if ctx.quick else 6000)
    deadline = time.time() + budget
    chunks = [items[i::procs] for i in range(procs)]
    results = {}
    lock = threading.Lock()
    errors = []
    seq = [0]

    def run_proc(ci, chunk):
        """one harness process over `chunk`; returns (rc or None when killed, ids done)"""
        with lock:
            seq[0] += 1
            k = seq[0]
        inp, out = ctx.path(f"{tag}-{ci}-{k}.in.ndjson"), ctx.path(f"{tag}-{ci}-{k}.out.ndjson")
        used = {it.get("dataset") for it in chunk}
        write_ndjson(inp, [{"dataset": n, "tables": t} for n, t in datasets.items() if n in used] + chunk)
        if os.path.exists(out):
            os.remove(out)
        env = dict(os.environ, VERIF_SEED=str(ctx.seed), VERIF_TIER=ctx.tier, RUST_BACKTRACE="0")
        # generous for normal items (a few 100 ms each), but finite: two capped items + per-item allowance
        t_proc = min(max(30.0, deadline - time.time()), 2 * item_cap + 60 + 4 * len(chunk))
        rc, err = None, ""
        try:
            p = subprocess.run([exe, "run", "--in", inp, "--out", out, "--hang-secs", str(hang_secs), "--item-cap-secs", str(item_cap)],
                               cwd=ctx.work, stdout=subprocess.PIPE, stderr=subprocess.PIPE, text=True, timeout=t_proc, env=env)
            rc, err = p.returncode, p.stderr[-1500:]
        except subprocess.TimeoutExpired:
            rc = None
        got = read_ndjson(out) if os.path.exists(out) else []
        with lock:
            for r in got:
                results[r["id"]] = r
        return rc, {r["id"] for r in got}, err

    def work(ci, chunk):
        pending = list(chunk)
        crashed = set()
        while pending:
            if time.time() > deadline:
                errors.append(f"wall budget of {budget}s exceeded in chunk {tag}-{ci} ({len(pending)} items not run)")
                return
            rc, done, err = run_proc(ci, pending)
            rest = [it for it in pending if it["id"] not in done]
            if rc == 0 and not rest:
                return
            if rc == 3:                      # a hang/timeout item was reported; continue in a fresh process
                pending = rest
                continue
            if not rest:
                errors.append(f"harness chunk {tag}-{ci} exited {rc}: {err[-400:]}")
                return
            first = rest[0]
            if rc is None:                   # the process itself exceeded its bound: the running item is a machinery timeout
                with lock:
                    results[first["id"]] = {"id": first["id"], "outcome": "timeout", "where": "process"}
                pending = rest[1:]
                continue
            # the process died on `first`: confirm alone, then go on with the others
            if first["id"] in crashed:
                pending = rest[1:]
                continue
            crashed.add(first["id"])
            rc1, done1, err1 = run_proc(f"{ci}solo", [first])
            if first["id"] not in done1:
                with lock:
                    results[first["id"]] = {"id": first["id"], "outcome": "abort" if rc1 is not None else "timeout", "rc": rc1, "stderr": err1}
            pending = rest[1:]

    t = time.time()
    ths = [threading.Thread(target=work, args=(i, c)) for i, c in enumerate(chunks) if c]
    [x.start() for x in ths]
    [x.join() for x in ths]
    # machinery timeouts: once more alone; a repeated timeout is a tool error, never a verdict
    slow = [it for it in items if results.get(it["id"], {}).get("outcome") == "timeout"]
    for it in slow[:5]:
        if time.time() > deadline:
            break
        rc, done, err = run_proc("retry", [it])
    still = [it["id"] for it in items if results.get(it["id"], {}).get("outcome") == "timeout"]
    log(f"vlife {tag}: {len(items)} items in {time.time()-t:.1f}s" + (f" ({len(slow)} hit the {item_cap}s item cap)" if slow else ""))
    if errors:
        raise ToolError("; ".join(errors[:3]))
    if still:
        raise ToolError(f"machinery timeout: item(s) {still[:3]} exceeded the hard cap of {item_cap}s twice (no verdict)")
    for it in items:
        r = results.get(it["id"])
        if r is None:
            raise ToolError(f"no result for item {it['id']}")
        if r.get("tool_error"):
            raise ToolError(f"harness machinery error on {it['id']}: {r['tool_error']}")
    return results


def confirm(ctx, item, datasets, tag, hang_secs=90):
    """Re-run one item alone (hang / abort confirmation)."""
    return run_items(ctx, [item], datasets, tag, procs=1, hang_secs=hang_secs)[item["id"]]


def released(r):
    """None if everything is released after the item, else a message."""
    a = r.get("after")
    if a is None:
        return None
    bad = []
    if a["reserved"] != 0:
        bad.append(f"pool.reserved() = {a['reserved']}")
    if a["disk"] != 0:
        bad.append(f"used_disk_space() = {a['disk']}")
    if a["tmp_files"] != 0:
        bad.append(f"{a['tmp_files']} temp files left")
    if a["alive_tasks"] != 0:
        bad.append(f"{a['alive_tasks']} spawned tasks still alive")
    if a["src_streams_open"] != 0:
        bad.append(f"{a['src_streams_open']} source streams not dropped")
    if a["still_producing"]:
        bad.append("source still producing")
    return "; ".join(bad) if bad else None
