"""C47 — mixed-type comparisons are order-independent and exact for integers and decimals.

1. spec/text/NumLine.tla: a value is <type, index> into one globally ordered list of interesting rationals (held
   here as exact decimal strings; representability per type is computed with exact arithmetic and handed to TLC as
   the constant table Rep).  TLC checks the laws over every pair of values of every ordered type pair (mirror,
   negation, trichotomy, IN = exists-equal, equi-join = equal pairs in both key orders) and emits every type pair.
2. B3: the driver maps indices to real Arrow values in typed MemTables and evaluates the comparison through SQL in a
   projection (six operators, both operand orders), a filter, an equi-join (both key orders), against literals (both
   orders) and in IN lists / IN subqueries.  Oracles: engine vs engine for the laws; index comparison (NumLine!Cmp)
   for integer/decimal pairs that evaluate without error.
"""
import json, os
from fractions import Fraction
from common import *

VALUES = """-9223372036854775808 -9223372036854775807 -9007199254740993 -9007199254740992 -9007199254740991
-4294967296 -2147483649 -2147483648 -99999999.99 -65536 -32769 -32768 -129 -128 -1.5 -1 -0.01 -0.0000000001 0 0.0000000001 0.01 0.5 1 1.5
2 127 128 255 256 32767 32768 65535 65536 16777216 16777217 99999999.99 2147483647 2147483648 4294967295 4294967296
9007199254740991 9007199254740992 9007199254740992.5 9007199254740993 9223372036854775807 9223372036854775808
10000000000000000000 18446744073709551614 18446744073709551615 18446744073709551616 99999999999999999999""".split()

INT_RANGE = {"i8": (-2**7, 2**7 - 1), "i16": (-2**15, 2**15 - 1), "i32": (-2**31, 2**31 - 1), "i64": (-2**63, 2**63 - 1),
             "u8": (0, 2**8 - 1), "u16": (0, 2**16 - 1), "u32": (0, 2**32 - 1), "u64": (0, 2**64 - 1)}
DEC = {"d20_0": (20, 0), "d10_2": (10, 2), "d38_10": (38, 10)}
EXACT = list(INT_RANGE) + list(DEC) + ["dict_i64"]
TYPES = list(INT_RANGE) + list(DEC) + ["f32", "f64", "utf8", "dict_i64", "dict_utf8"]


def f32_exact(x):
    import struct
    try:
        f = struct.unpack("f", struct.pack("f", float(x)))[0]
    except OverflowError:
        return False
    return Fraction(f) == x


def representable(t, x):
    if t in INT_RANGE:
        lo, hi = INT_RANGE[t]
        return x.denominator == 1 and lo <= x <= hi
    if t == "dict_i64":
        return representable("i64", x)
    if t in DEC:
        p, s = DEC[t]
        y = x * 10**s
        return y.denominator == 1 and abs(y) < 10**p
    if t == "f64":
        return Fraction(float(x)) == x
    if t == "f32":
        return f32_exact(x)
    if t in ("utf8", "dict_utf8"):        # strings of digits: the canonical numeral of an integer
        return x.denominator == 1
    raise KeyError(t)


def table():
    fr = [Fraction(v) for v in VALUES]
    order = sorted(range(len(fr)), key=lambda i: fr[i])
    vals = [VALUES[i] for i in order]
    fr = [fr[i] for i in order]
    if len(set(fr)) != len(fr):
        raise ToolError("duplicate value in the number line")
    rep = {t: [i + 1 for i, x in enumerate(fr) if representable(t, x)] for t in TYPES}
    return vals, rep


def run(ctx):
    build("vtext")
    vals, rep = table()
    only = None
    if ctx.replay:
        rp = json.load(open(ctx.replay))
        only = (rp["case"]["ta"], rp["case"]["tb"])
    # 1. TLC: the laws over the index line, for every ordered type pair
    mc = ctx.path("NumLineMC.tla")
    q = lambda s: '"%s"' % s
    open(mc, "w").write("---- MODULE NumLineMC ----\nEXTENDS NumLine\n"
                        "MCTypes == {%s}\n" % ", ".join(q(t) for t in TYPES)
                        + "MCRep == [t \\in MCTypes |-> CASE %s]\n" % " [] ".join("t = %s -> {%s}" % (q(t), ", ".join(map(str, rep[t]))) for t in TYPES)
                        + "MCExact == {%s}\n====\n" % ", ".join(q(t) for t in EXACT))
    cfg = ctx.path("NumLineMC.cfg")
    open(cfg, "w").write(f"CONSTANTS K = {len(vals)}\n  Types <- MCTypes\n  Rep <- MCRep\n  Exact <- MCExact\n"
                         "SPECIFICATION Spec\nINVARIANTS MirrorLaw NegateLaw Trichotomy InLaw JoinLaw Emit\nCHECK_DEADLOCK FALSE\n")
    r = tlc_must_pass(ctx, mc, cfg=cfg, workers=4, timeout=1800, tag="numline")
    cases = tlc_cases(r.out)
    if len(cases) != len(TYPES) ** 2:
        raise ToolError(f"TLC emitted {len(cases)} type pairs, expected {len(TYPES) ** 2}")
    for c in cases:   # the emitted index lists are the table (consistency of the two sides of the binding)
        if c["a"] != rep[c["ta"]] or c["b"] != rep[c["tb"]]:
            raise ToolError("TLC's representability table differs from the driver's")
    pairs = [{"ta": c["ta"], "tb": c["tb"], "exact": c["exact"]} for c in cases]
    if only:
        pairs = [p for p in pairs if (p["ta"], p["tb"]) == only]
    elif ctx.quick:
        # every unordered pair in one seeded orientation + every exact pair in both
        ctx.rng.shuffle(pairs)
        seen, sel = set(), []
        for p in pairs:
            key = frozenset((p["ta"], p["tb"]))
            if p["exact"] or key not in seen:
                sel.append(p)
                seen.add(key)
        pairs = sel
    json.dump({"values": vals, "types": [{"name": t, "idxs": rep[t]} for t in TYPES], "pairs": pairs,
               "filter_ops": ["=", "<", ">="] if ctx.quick else ["=", "<>", "<", "<=", ">", ">="]}, open(ctx.path("in.json"), "w"))
    summary, _ = run_harness(ctx, "vtext", ["c47", "--in", ctx.path("in.json"), "--out", ctx.path("res.json")], timeout=3000)
    res = json.load(open(ctx.path("res.json")))
    for v in res["violations"][:10]:
        report_violation(ctx, v, key=classify(v))
    if res["exact_comparisons_checked"] == 0 and not only:
        raise ToolError("vacuity: no integer/decimal comparison was checked")
    write_evidence(ctx, "exploration", {
        "evaluations": res["evaluations"], "distinct_nontrivial": res["distinct_nontrivial"],
        "rule": "a case is <typeA, valueA, typeB, valueB> evaluated through SQL; distinct = distinct <typeA, typeB, indexA, indexB>; every pair is non-trivial (two typed values at type boundaries)",
        "samples": res["samples"][:3],
        "states": r.distinct, "transitions": r.generated,
        "number_line": vals, "types": {t: len(rep[t]) for t in TYPES},
        "type_pairs_driven": res["pairs"], "type_pairs_retried_on_common_values_after_an_engine_error": res["pairs_retried_on_common_values"], "type_pairs_total": len(TYPES) ** 2,
        "exact_comparisons_checked": res["exact_comparisons_checked"], "queries": res["queries"],
        "engine_errors": res["n_errors"], "engine_error_samples": res["errors"][:6],
        "n_violations": res["n_violations"],
        "coercion_samples": res["coercion"][:5],
    }, assumptions=[
        "the value list is finite and chosen (type minima/maxima, 2^24/2^53 neighbourhoods, 2^63, 2^64-1, 10^19, decimal scale edges, -0/+0)",
        "when the projection over all value pairs of a type pair raises an error (allowed by the property, e.g. a digit string that does not fit the integer type), the pair is driven again on the values both types represent",
        "exactness is required only when both types are integers or decimals (incl. a dictionary of Int64) and the query raises no error; for floats and digit strings only the laws between engine answers are checked",
        "quick tier drives every unordered type pair in one seeded orientation (exact pairs in both) and filter operators =, <, >=; the thorough tier drives all ordered pairs and all six operators",
    ])


def classify(v):
    # known finding: a float column holding -0.0 is not found by an IN list (>= 4 elements) that contains 0
    if v.get("kind") == "IN list" and v.get("case", {}).get("a") == "-0" and v.get("in_result") is False:
        return "in-list-negative-zero"
    return None
