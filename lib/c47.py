"""C47 — mixed-type comparisons are order-independent and exact for integers and decimals.

1. spec/text/NumLine.tla: a value is <type, index> into one globally ordered list of interesting rationals (held
   here as exact decimal strings; representability per type is computed with exact arithmetic and handed to TLC as
   the constant table Rep).  TLC checks the laws over every pair of values of every ordered type pair (mirror,
   negation, trichotomy, IN = exists-equal, equi-join = equal pairs in both key orders) and emits every type pair.
2. B3: the driver maps indices to real Arrow values in typed MemTables and evaluates the comparison through SQL in a
   projection (six operators, both operand orders), a filter, an equi-join (both key orders), against literals (both
   orders) and in IN lists / IN subqueries.  Oracles: engine vs engine for the laws; index comparison (NumLine!Cmp)
   for integer/decimal pairs that evaluate without error.
"""
import json, os
from fractions import Fraction
from common import *

VALUES = """-9223372036854775808 -9223372036854775807 -9007199254740993 -9007199254740992 -9007199254740991
-4294967296 -2147483649 -2147483648 -99999999.99 -86400 -65536 -32769 -32768 -129 -128 -1.5 -1 -0.01 -0.0000000001 0 0.0000000001 0.000000001 0.000001 0.001 0.01 0.5 1 1.5
2 127 128 255 256 32767 32768 65535 65536 86400 16777216 16777217 99999999.99 1000000000 1700000000.123456789 2147483647 2147483648 4294967295 4294967296
9223372036 9223372037 253402300799
9007199254740991 9007199254740992 9007199254740992.5 9007199254740993 9223372036854775807 9223372036854775808
10000000000000000000 18446744073709551614 18446744073709551615 18446744073709551616 99999999999999999999""".split()

INT_RANGE = {"i8": (-2**7, 2**7 - 1), "i16": (-2**15, 2**15 - 1), "i32": (-2**31, 2**31 - 1), "i64": (-2**63, 2**63 - 1),
             "u8": (0, 2**8 - 1), "u16": (0, 2**16 - 1), "u32": (0, 2**32 - 1), "u64": (0, 2**64 - 1)}
DEC = {"d20_0": (20, 0), "d10_2": (10, 2), "d38_10": (38, 10), "d256_50_10": (50, 10)}
EXACT = list(INT_RANGE) + list(DEC) + ["dict_i64"]
STRINGS = ["utf8", "utf8view", "largeutf8", "dict_utf8"]
# temporal types: a value of the line is read as SECONDS since the epoch; unit = ticks per second (dates: per day)
TEMPORAL = {"date32": Fraction(1, 86400), "date64": 1000, "ts_s": 1, "ts_ms": 10**3, "ts_us": 10**6, "ts_ns": 10**9, "ts_ns_utc": 10**9, "ts_us_p2": 10**6}
TYPES = list(INT_RANGE) + list(DEC) + ["f32", "f64"] + STRINGS + ["dict_i64"] + list(TEMPORAL)
# quick tier: the pairs among these classes are all driven; thorough drives every ordered pair
CLASS = {**{t: "int" for t in INT_RANGE}, **{t: "dec" for t in DEC}, "f32": "float", "f64": "float", **{t: "str" for t in STRINGS}, "dict_i64": "int", **{t: "time" for t in TEMPORAL}}


def f32_exact(x):
    import struct
    try:
        f = struct.unpack("f", struct.pack("f", float(x)))[0]
    except OverflowError:
        return False
    return Fraction(f) == x


def representable(t, x):
    if t in INT_RANGE:
        lo, hi = INT_RANGE[t]
        return x.denominator == 1 and lo <= x <= hi
    if t == "dict_i64":
        return representable("i64", x)
    if t in DEC:
        p, s = DEC[t]
        y = x * 10**s
        return y.denominator == 1 and abs(y) < 10**p
    if t == "f64":
        return Fraction(float(x)) == x
    if t == "f32":
        return f32_exact(x)
    if t in STRINGS:                      # strings of digits: the canonical numeral of an integer
        return x.denominator == 1
    if t in TEMPORAL:
        y = x * TEMPORAL[t]
        if t == "date64" and (x / 86400).denominator != 1:
            return False                  # Date64 holds whole days (in milliseconds)
        lim = 2**31 if t == "date32" else 2**63
        return y.denominator == 1 and -lim <= y < lim and abs(x) <= 253402300799
    raise KeyError(t)


def table():
    fr = [Fraction(v) for v in VALUES]
    order = sorted(range(len(fr)), key=lambda i: fr[i])
    vals = [VALUES[i] for i in order]
    fr = [fr[i] for i in order]
    if len(set(fr)) != len(fr):
        raise ToolError("duplicate value in the number line")
    rep = {t: [i + 1 for i, x in enumerate(fr) if representable(t, x)] for t in TYPES}
    return vals, rep, fr


def rows_of(t, vals, rep, fr):
    """[index, text] per row: the numeral (tick count for temporal types), then NULL (index 0), then float specials"""
    rows = []
    for i in rep[t]:
        if t in TEMPORAL:
            rows.append([i, str(int(fr[i - 1] * TEMPORAL[t]))])
        else:
            rows.append([i, vals[i - 1]])
    if t in ("f32", "f64"):
        z = next(i for i in rep[t] if fr[i - 1] == 0)
        rows += [[z, "-0"], [-1, "NaN"], [-2, "inf"], [-3, "-inf"]]
    rows.append([0, "NULL"])
    return rows


def run(ctx):
    build("vtext")
    vals, rep, fr = table()
    only = None
    if ctx.replay:
        rp = json.load(open(ctx.replay))
        only = (rp["case"]["ta"], rp["case"]["tb"])
    # 1. TLC: the laws over the index line, for every ordered type pair
    mc = ctx.path("NumLineMC.tla")
    q = lambda s: '"%s"' % s
    open(mc, "w").write("---- MODULE NumLineMC ----\nEXTENDS NumLine\n"
                        "MCTypes == {%s}\n" % ", ".join(q(t) for t in TYPES)
                        + "MCRep == [t \\in MCTypes |-> CASE %s]\n" % " [] ".join("t = %s -> {%s}" % (q(t), ", ".join(map(str, rep[t]))) for t in TYPES)
                        + "MCExact == {%s}\n====\n" % ", ".join(q(t) for t in EXACT))
    cfg = ctx.path("NumLineMC.cfg")
    open(cfg, "w").write(f"CONSTANTS K = {len(vals)}\n  Types <- MCTypes\n  Rep <- MCRep\n  Exact <- MCExact\n"
                         "SPECIFICATION Spec\nINVARIANTS MirrorLaw NegateLaw Trichotomy InLaw JoinLaw BetweenLaw Emit\nCHECK_DEADLOCK FALSE\n")
    r = tlc_must_pass(ctx, mc, cfg=cfg, workers=4, timeout=1800, tag="numline")
    cases = tlc_cases(r.out)
    if len(cases) != len(TYPES) ** 2:
        raise ToolError(f"TLC emitted {len(cases)} type pairs, expected {len(TYPES) ** 2}")
    for c in cases:   # the emitted index lists are the table (consistency of the two sides of the binding)
        if c["a"] != rep[c["ta"]] or c["b"] != rep[c["tb"]]:
            raise ToolError("TLC's representability table differs from the driver's")
    pairs = [{"ta": c["ta"], "tb": c["tb"], "exact": c["exact"]} for c in cases]
    if only:
        pairs = [p for p in pairs if (p["ta"], p["tb"]) == only]
    elif ctx.quick:
        # every exact pair in both orientations; every other unordered pair of type CLASSES in both orientations with
        # seeded representatives; every remaining unordered type pair in one seeded orientation, thinned to keep the tier short
        ctx.rng.shuffle(pairs)
        seen, seen_cls, sel = set(), set(), []
        for p in pairs:
            key = frozenset((p["ta"], p["tb"]))
            ck = (CLASS[p["ta"]], CLASS[p["tb"]])
            if p["exact"] and (CLASS[p["ta"]] != CLASS[p["tb"]] or p["ta"] == p["tb"] or key not in seen):
                sel.append(p)
            elif not p["exact"] and ck not in seen_cls:
                sel.append(p)
            elif not p["exact"] and key not in seen and ctx.rng.random() < 0.2:
                sel.append(p)
            else:
                continue
            seen.add(key)
            seen_cls.add(ck)
        pairs = sel
    json.dump({"types": [{"name": t, "rows": rows_of(t, vals, rep, fr)} for t in TYPES], "pairs": pairs,
               "filter_ops": ["=", "<", ">="] if ctx.quick else ["=", "<>", "<", "<=", ">", ">="],
               # 0 = all values of the other type; thresholds of the IN-list strategies are 4, 8, 16, 32
               "list_sizes": [1, 3, 4, 5, 9, 17, 33, 0]}, open(ctx.path("in.json"), "w"))
    summary, _ = run_harness(ctx, "vtext", ["c47", "--in", ctx.path("in.json"), "--out", ctx.path("res.json")], timeout=3000)
    res = json.load(open(ctx.path("res.json")))
    unknown = 0
    for v in res["violations"]:
        key = classify(v)
        if key is None:
            unknown += 1
            if unknown > 10:
                continue
        report_violation(ctx, v, key=key)
    if res["exact_comparisons_checked"] == 0 and not only:
        raise ToolError("vacuity: no integer/decimal comparison was checked")
    if not only:
        need = ["projection", "NULL operand", "float special operand (NaN / inf)", "IN list with a non-literal entry", "filter", "equi-join (hash)",
                "equi-join (sort-merge)", "equi-join (mirrored key order)", "equi-join with a residual filter", "null-equal join", "column vs literal",
                "column vs literal in a filter", "IN list (filter)", "IN subquery"] + \
               [f"IN list of {n} literals" for n in ("1-3", "4", "5-8", "9-16", "17-32", "33+")] + ["IN list of 1-3 literals + NULL", "IN list of 9-16 literals + NULL", "IN list of 33+ literals + NULL"]
        never = [k for k in need if not res["paths"].get(k)]
        if never:
            raise ToolError(f"vacuity: sub-checks never exercised: {never}")
        driven = {(CLASS[p["ta"]], CLASS[p["tb"]]) for p in pairs}
        missing = [(a, b) for a in set(CLASS.values()) for b in set(CLASS.values()) if (a, b) not in driven]
        if missing:
            raise ToolError(f"vacuity: type-class pairs never driven: {missing}")
    write_evidence(ctx, "exploration", {
        "evaluations": res["evaluations"], "distinct_nontrivial": res["distinct_nontrivial"],
        "rule": "a case is <typeA, valueA, typeB, valueB> evaluated through SQL; distinct = distinct <typeA, typeB, indexA, indexB>; every pair is non-trivial (two typed values at type boundaries)",
        "samples": res["samples"][:3],
        "states": r.distinct, "transitions": r.generated,
        "number_line": vals, "types": {t: len(rep[t]) for t in TYPES},
        "type_pairs_driven": res["pairs"], "type_pairs_retried_on_common_values_after_an_engine_error": res["pairs_retried_on_common_values"], "type_pairs_total": len(TYPES) ** 2,
        "exact_comparisons_checked": res["exact_comparisons_checked"], "queries": res["queries"],
        "engine_errors": res["n_errors"], "engine_error_samples": res["errors"][:6],
        "n_violations": res["n_violations"],
        "violation_classes": res.get("violation_classes"),
        "coercion_samples": res["coercion"][:5], "sub_checks_run": res["paths"],
        "non_exact_context_answers_differing_from_pairwise_operators": res["non_exact_context_answers_differing_from_pairwise_operators"],
    }, assumptions=[
        "the value list is finite and chosen (type minima/maxima, 2^24/2^53 neighbourhoods, 2^63, 2^64-1, 10^19, decimal scale edges, -0/+0, NaN, +-inf, NULL; for temporal types the numbers are seconds since the epoch: unit edges 1e-3/1e-6/1e-9, +-1 day, 1e9, the nanosecond range edge 9223372036/7, 9999-12-31)",
        "temporal, float and string types are checked for the laws between engine answers (mirror, IN/join/literal agreement), not against the mathematical order; BETWEEN / CASE / IS DISTINCT FROM answers are verdicts only for integer/decimal pairs",
        "when the projection over all value pairs of a type pair raises an error (allowed by the property, e.g. a digit string that does not fit the integer type), the pair is driven again on the values both types represent",
        "exactness is required only when both types are integers or decimals (incl. a dictionary of Int64) and the query raises no error; for floats and digit strings only the laws between engine answers are checked",
        "quick tier drives every unordered type pair in one seeded orientation (exact pairs in both) and filter operators =, <, >=; the thorough tier drives all ordered pairs and all six operators",
    ])


def classify(v):
    # known finding: a float column holding -0.0 is not found by an IN list (>= 4 elements) that contains 0
    if v.get("kind") == "IN list" and v.get("case", {}).get("a") == "-0" and v.get("in_result") is False:
        return "in-list-negative-zero"
    LITERAL_KINDS = ("column op literal", "literal mirror(op) column", "filter: column op literal", "IN list", "NOT IN list", "IN list (filter)")
    ta, tb = v.get("case", {}).get("ta"), v.get("case", {}).get("tb")
    if v.get("kind") in LITERAL_KINDS:
        # an Int32 column against a Date64 LITERAL (the literal is folded to the integer type as a millisecond count, the
        # column-to-column comparison reads the integer as days)
        if ta == "i32" and tb == "date64":
            return "int32-column-vs-date64-literal"
        NAIVE = {"date32": 0, "date64": 0, "ts_s": 1, "ts_ms": 10**3, "ts_us": 10**6, "ts_ns": 10**9}
        # a naive date/timestamp column against a literal that carries a UTC offset
        if ta in NAIVE and tb == "ts_us_p2":
            return "timestamp-literal-utc-offset"
        # a timestamp column of a coarser unit against a literal of a finer unit (the literal is truncated)
        if ta in ("ts_s", "ts_ms") and tb in ("ts_ms", "ts_us", "ts_ns") and NAIVE[tb] > NAIVE[ta]:
            return "timestamp-literal-unit-truncation"
    return None
