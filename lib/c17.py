"""C17 — memory pool accounting is exact and limits are enforced.

1. TLC model-checks spec/proto/MemPool.tla exhaustively (all pool kinds x limits, consumers spillable
   or not, reservations created by register/new_empty/split/take, every reservation operation cut
   into its pool half and its size half, 2 threads): reserved = sum of live sizes (+ deltas in
   flight), zero after all drops, fair-pool state, tracked per-consumer numbers, peak recorder,
   failed fallible operations change nothing, greedy grants stay within the limit, granted
   fallible growth of a spilling consumer stays within the *consumer's* fair share.  With
   PERRES = TRUE (the pinned FairSpillPool::try_grow, which bounds each reservation) the last
   invariant must fail (sensitivity; known finding).
2. B3: every sequential behaviour of MemPool (T = 1) up to the bound + seeded random longer ones
   are replayed on the real UnboundedMemoryPool / GreedyMemoryPool / FairSpillPool under six wrapper
   stacks (plain, TrackConsumersPool, PeakRecordingPool and their compositions); after every
   operation reserved(), every reservation's size(), ok/err and return values, metrics()
   (reserved/peak per consumer, entry presence), report_top(), peak_reserved()/max_reserved() and
   memory_limit() are compared with the specification's values and with the property itself.
3. Real threads: 3-7 OS threads share each real pool / wrapper stack - "hog" threads that only issue
   fallible growths larger than the limit, workers whose own total never exceeds a budget (sum of
   budgets <= limit; fair pool: limit / #spillable consumers), an observer sampling reserved() and
   metrics() continuously, barriers with exact equalities at quiescent points.  Oracles are only
   invariants TLC proves for every interleaving (WithinLimit, NoSpuriousRefusal, failed try_grow
   changes nothing, Accounting, Tracked); TLC refutes the add-then-rollback variant of try_grow
   (MUT = TRUE) as a negative control, and a harness-local add-then-rollback pool is run as a
   positive control of the thread layer (reported, never part of the verdict).
"""
import json, os
from common import *

KEY = "fair-pool-multiple-reservations-of-one-consumer"
INVS = "Accounting AccountingQuiescent AllDroppedZero FairState Tracked PeakRec FairPerConsumer FailedChangesNothing GreedyWithinLimit WithinLimit NoSpuriousRefusal"
ACTIONS = ("Register", "GrowP", "GrowS", "ShrinkS", "ShrinkP", "NewRes", "DropR", "ResetPeak")


def mp_cfg(nc, nr, t, maxops, perres=False, view=True, kinds='{"unbounded", "greedy", "fair"}', limits="{3, 4}", sizes="{1, 2, 3}", invs=INVS, mut=False, fonly=False):
    s = (f"CONSTANTS NC = {nc}  NR = {nr}  T = {t}  KINDS = {kinds}  LIMITS = {limits}  SIZES = {sizes}  MAXOPS = {maxops}  "
         f"PERRES = {'TRUE' if perres else 'FALSE'}  MUT = {'TRUE' if mut else 'FALSE'}  FALLIBLE_ONLY = {'TRUE' if fonly else 'FALSE'}\nSPECIFICATION Spec\n")
    if view:
        s += "VIEW view\n"
    return s + f"INVARIANTS {invs}\nCHECK_DEADLOCK FALSE\n"


def run(ctx):
    build("vpool")
    if ctx.replay:
        out = ctx.path("res.json")
        run_harness(ctx, "vpool", ["c17", "--replay", os.path.abspath(ctx.replay), "--out", out])
        res = json.load(open(out))
        for v in res["violations"]:
            report_violation(ctx, v)
        write_evidence(ctx, "model_checking", {"states": 1, "transitions": 1, "traces_validated_against_impl": max(1, res["evaluations"]),
                                               "samples": res["samples"][:1]})
        return
    workers = 4 if ctx.quick else 8
    # ---- 1. exhaustive model checking (2 threads sharing reservations)
    exh = [dict(nc=2, nr=3, t=2, maxops=4)] if ctx.quick else [dict(nc=2, nr=3, t=2, maxops=5), dict(nc=3, nr=3, t=2, maxops=4, limits="{2, 6}"),
                                                                 dict(nc=2, nr=4, t=1, maxops=6, kinds='{"fair"}')]
    mc, states, transitions, taken = [], 0, 0, {}
    for i, c in enumerate(exh):
        cfg = ctx.path(f"mc{i}.cfg")
        open(cfg, "w").write(mp_cfg(**c))
        r = tlc_must_pass(ctx, "proto/MemPool", cfg=cfg, workers=workers, coverage=True, tag=f"mc{i}", timeout=3000)
        states += r.distinct
        transitions += r.generated
        mc.append({"constants": c, "distinct_states": r.distinct, "generated": r.generated, "wall_s": round(r.wall, 1)})
        for a, (d, t) in r.action_counts().items():
            taken[a] = taken.get(a, 0) + t
    never = [a for a in ACTIONS if taken.get(a, 0) == 0]
    if never:
        raise ToolError(f"vacuity: specification actions never taken: {never}")
    cfg = ctx.path("pinned.cfg")
    open(cfg, "w").write(mp_cfg(nc=1, nr=2, t=1, maxops=4, perres=True, kinds='{"fair"}', limits="{3}"))
    rp = tlc(ctx, "proto/MemPool", cfg=cfg, workers=2, tag="pinned")
    if "FairPerConsumer" not in rp.invariant_violated:
        sys.stderr.write(rp.out[-3000:])
        raise ToolError("MemPool with PERRES=TRUE no longer violates FairPerConsumer (specification lost its teeth)")
    # ---- 1b. what the real-thread layer may rely on: with only fallible growth a greedy pool reports <= limit in EVERY
    #          state and refuses a growth only when it does not fit next to what the threads really hold (3 threads);
    #          negative control: the "add, then roll back" variant of try_grow (MUT) must break both
    fo = dict(nc=2, nr=2, t=2, maxops=6, fonly=True, kinds='{"greedy"}', limits="{3}") if ctx.quick else dict(nc=2, nr=2, t=3, maxops=6, fonly=True, kinds='{"greedy"}', limits="{3}")
    cfg = ctx.path("fonly.cfg")
    open(cfg, "w").write(mp_cfg(**fo))
    r = tlc_must_pass(ctx, "proto/MemPool", cfg=cfg, workers=workers, tag="fonly", timeout=3000)
    states += r.distinct
    transitions += r.generated
    mc.append({"constants": fo, "distinct_states": r.distinct, "generated": r.generated, "wall_s": round(r.wall, 1)})
    mut_refuted = []
    for inv in ("WithinLimit", "NoSpuriousRefusal"):
        cfg = ctx.path(f"mut-{inv}.cfg")
        open(cfg, "w").write(mp_cfg(nc=2, nr=2, t=2, maxops=5, fonly=True, mut=True, kinds='{"greedy"}', limits="{3}", invs=inv))
        rm = tlc(ctx, "proto/MemPool", cfg=cfg, workers=2, tag=f"mut-{inv}")
        if inv not in rm.invariant_violated:
            sys.stderr.write(rm.out[-3000:])
            raise ToolError(f"negative control: MemPool with MUT=TRUE (add-then-rollback try_grow) no longer violates {inv}")
        mut_refuted.append(inv)
    # ---- 2. histories
    gens = [dict(nc=2, nr=3, t=1, maxops=3)] if ctx.quick else [dict(nc=2, nr=3, t=1, maxops=4), dict(nc=3, nr=3, t=1, maxops=3, limits="{2, 6}", sizes="{1, 2, 4}")]
    histories = []
    for i, c in enumerate(gens):
        cfg = ctx.path(f"gen{i}.cfg")
        open(cfg, "w").write(mp_cfg(view=False, invs="Emit " + INVS, **c))
        r = tlc_must_pass(ctx, "proto/MemPoolGen", cfg=cfg, workers=workers, tag=f"gen{i}", timeout=3000)
        cs = tlc_cases(r.out)
        del r
        if not cs:
            raise ToolError("TLC produced no histories")
        histories += cs
    exhaustive_n = len(histories)
    sims = []
    simcfgs = [dict(kinds='{"fair"}', limits="{3, 4, 6, 10}"), dict(kinds='{"greedy"}', limits="{3, 4, 6}"), dict(kinds='{"unbounded", "fair"}', limits="{5}")]
    nsim = 500 if ctx.quick else 12000
    for i, kc in enumerate(simcfgs):
        cfg = ctx.path(f"sim{i}.cfg")
        open(cfg, "w").write(mp_cfg(nc=3, nr=4, t=1, maxops=9 if ctx.quick else 14, view=False, sizes="{1, 2, 3, 5}", invs="Emit " + INVS, **kc))
        r = tlc(ctx, "proto/MemPoolGen", cfg=cfg, workers=1, deadlock=False, tag=f"sim{i}",
                mode_args=["-simulate", f"num={nsim}", "-depth", "100", "-seed", str(ctx.seed + i)], timeout=1500)
        s = tlc_cases(r.out)
        if not s:
            sys.stderr.write(r.out[-3000:])
            raise ToolError("TLC simulation of MemPoolGen failed")
        sims += s
    histories += sims
    inp, out = ctx.path("hist.ndjson"), ctx.path("res.json")
    write_ndjson(inp, histories)
    run_harness(ctx, "vpool", ["c17", "--in", inp, "--out", out], timeout=3000)
    res = json.load(open(out))
    if res["tool_errors"]:
        raise ToolError("harness machinery errors: " + "; ".join(res["tool_errors"][:3]))
    for v in res["violations"]:
        report_violation(ctx, v)
    if res["known"]:
        report_violation(ctx, {"known": res["known"][0]}, key=KEY)
    # ---- 3. real threads on the real pools (oracles = the invariants above; see harness/vpool/src/c17t.rs)
    tout = ctx.path("threads.json")
    run_harness(ctx, "vpool", ["c17", "--mode", "threads", "--out", tout], timeout=3000)
    thr = json.load(open(tout))
    for v in thr["violations"]:
        report_violation(ctx, v)
    kinds_seen = res["per_kind"]
    if len(kinds_seen) < 3 or min(n for _, n in res["per_wrapper"]) == 0:
        raise ToolError(f"coverage collapsed: kinds {kinds_seen} wrappers {res['per_wrapper']}")
    write_evidence(ctx, "model_checking", {
        "states": states, "transitions": transitions,
        "traces_validated_against_impl": res["evaluations"],
        "samples": res["samples"][:2] or [histories[0]],
        "exhaustive": True,
        "model_checking_runs": mc,
        "pinned_model_violates": rp.invariant_violated,
        "histories": {"exhaustive_from_tlc": exhaustive_n, "random_from_tlc_simulate": len(sims), "per_pool_kind": kinds_seen},
        "replays": {"history_x_wrapper_runs_ok": res["evaluations"], "per_wrapper": res["per_wrapper"], "ops": res["ops"],
                    "try_grow_granted": res["try_grow_ok"], "try_grow_denied": res["try_grow_err"], "report_top_checks": res["report_top_checks"],
                    "known_fair_pool_divergences": res["known_divergences"], "ops_checked_by_property_oracle_only_after_divergence": res["post_known_ops"]},
        "mut_negative_control_refuted_by_tlc": mut_refuted,
        "real_threads": {k: thr[k] for k in thr if k not in ("violations", "samples", "tool_errors")},
        "real_threads_note": "every oracle of the thread layer is an invariant TLC proves for all interleavings (WithinLimit, NoSpuriousRefusal, failed try_grow changes nothing, Accounting at quiescence, Tracked); one observed breach is a violation, observing none in the interleavings that happened to occur proves nothing beyond them",
        "rule": "case = one complete sequential behaviour of MemPool.tla (pool kind and limit chosen in Init) replayed under one wrapper stack; histories are distinct by construction",
    }, assumptions=[
        "thread interleavings are explored exhaustively in the model only; on the real pools they are sampled by uncontrolled OS-thread runs (hogs / budgeted workers / observer with barriers), not enumerated",
        "API misuse that panics by contract (shrink/split of more than held) is excluded by the model's preconditions; try_shrink beyond the size is included (error, nothing changes)",
        "resize/try_resize are exercised as the alternative entry point of grow/shrink/try_grow/try_shrink (chosen by the seed)",
        "TrackConsumersPool is instantiated over a transparent Arc<dyn MemoryPool> adapter so that any inner pool/wrapper can be stacked",
        "the specification's fair-pool admission bounds the consumer's total (property text); after the known per-reservation divergence the rest of that history is checked by the property-level oracle only",
    ])
