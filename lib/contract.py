"""Shared machinery of the operator-contract checks C28 / C29 / C30 / C53 (DESIGN.md §7.4, §7.2).

One recorder (harness/vcontract `record`): every query is planned by the real engine under a session
configuration, every node of the optimised physical plan is wrapped in a transparent observer, the plan is
executed and one event log per run is written.  The four checks validate the same kind of log with TLC
against spec/contract/OperatorContract.tla (through ContractTrace.tla) under different invariants; a TLC
rejection names <node, partition, fact, index> and is confirmed by the harness's direct re-check on the
recorded data before a VIOLATION is raised."""
import json, re, collections, functools, random
from common import *
import sqlcases

# ----------------------------------------------------------------------------- session configurations
S = lambda **kw: [[k.replace("__", "."), str(v)] for k, v in kw.items()]
TP = "datafusion.execution.target_partitions"
BS = "datafusion.execution.batch_size"
OPT = "datafusion.optimizer."

CONFIGS = {
    # baseline: one partition, default optimiser
    "A1": dict(partitions=1, batch_rows=0, settings=[[TP, "1"]]),
    # 4 target partitions, tables in 2 partitions, tiny batches, hash joins (CollectLeft for small inputs)
    "B4": dict(partitions=2, batch_rows=1, settings=[[TP, "4"], [BS, "2"]]),
    # partitioned hash joins forced (threshold 0), tables in 3 partitions
    "P4": dict(partitions=3, batch_rows=2, settings=[[TP, "4"], [BS, "3"], [OPT + "hash_join_single_partition_threshold", "0"],
                                                     [OPT + "hash_join_single_partition_threshold_rows", "0"]]),
    # sort-merge joins, sorted sources declared with_sort_order, order-preserving repartition / merges
    "M4": dict(partitions=2, batch_rows=2, sorted=1, settings=[[TP, "4"], [BS, "2"], [OPT + "prefer_hash_join", "false"],
                                                               [OPT + "prefer_existing_sort", "true"]]),
    # sorted sources, one partition per table, 3 target partitions (round-robin repartition above sorted input)
    "S3": dict(partitions=1, batch_rows=2, sorted=2, settings=[[TP, "3"], [BS, "4"], [OPT + "prefer_existing_sort", "true"]]),
    # repartition switches off, sorted sources, single-partition execution of multi-partition tables
    "R2": dict(partitions=2, batch_rows=0, sorted=1, settings=[[TP, "2"], [OPT + "repartition_joins", "false"],
                                                               [OPT + "repartition_aggregations", "false"],
                                                               [OPT + "repartition_sorts", "false"],
                                                               [OPT + "enable_round_robin_repartition", "false"]]),
    # Utf8View strings, sort-merge joins, no sorted declaration
    # Parquet files (one per table partition) registered as listing tables: with chunk statistics, with a declared
    # file sort order, without statistics, with filter pushdown into the scan
    "Q1": dict(partitions=2, batch_rows=0, source="parquet", settings=[[TP, "1"]]),
    "Q4": dict(partitions=3, batch_rows=0, source="parquet_page", sorted=1, row_group=4, wide=True,
               settings=[[TP, "4"], [BS, "3"], [OPT + "prefer_existing_sort", "true"],
                         ["datafusion.execution.enable_file_stream_work_stealing", "false"]]),
    "N2": dict(partitions=2, batch_rows=0, source="parquet_nostats", wide=True, settings=[[TP, "2"]]),
    "F4": dict(partitions=2, batch_rows=0, source="parquet", row_group=3, wide=True,
               settings=[[TP, "4"], ["datafusion.execution.parquet.pushdown_filters", "true"],
                         ["datafusion.execution.parquet.reorder_filters", "true"],
                         ["datafusion.execution.enable_file_stream_work_stealing", "false"]]),
    "V4": dict(partitions=2, batch_rows=3, utf8view=True, settings=[[TP, "4"], [OPT + "prefer_hash_join", "false"],
                                                                    [OPT + "enable_topk_aggregation", "false"]]),
}

# declared sort orders of the three tables per "sorted" flavour ({"i": column, "asc", "nf"})
SORTS = {
    1: {"t1": [dict(i=1, asc=True, nf=False), dict(i=2, asc=False, nf=True)],
        "t2": [dict(i=1, asc=True, nf=False)],
        "t3": [dict(i=1, asc=False, nf=False), dict(i=2, asc=True, nf=True)],
        "t4": [dict(i=1, asc=True, nf=False)]},
    2: {"t1": [dict(i=2, asc=False, nf=False), dict(i=3, asc=True, nf=True)],
        "t2": [dict(i=2, asc=True, nf=True), dict(i=1, asc=True, nf=True)],
        "t3": [dict(i=2, asc=True, nf=False)],
        "t4": [dict(i=5, asc=False, nf=True)]},
}


def sort_tables(tables, flavour):
    """Sort the rows as declared (the harness re-verifies with arrow's comparator before declaring it)."""
    out = []
    for t in tables:
        keys = SORTS[flavour][t["name"]]
        def cmp(a, b):
            return -1 if sqlcases.row_before(a, b, keys) else (1 if sqlcases.row_before(b, a, keys) else 0)
        out.append(dict(t, rows=sorted(t["rows"], key=functools.cmp_to_key(cmp)), sort=keys))
    return out


# ----------------------------------------------------------------------------- data
def big_tables(rng, nrows):
    """Random tables over the sqlcases schemas with many ties and NULLs (no reference result needed: the
    contract is judged node by node on what the engine itself declares and emits)."""
    iv = lambda: {"k": "n", "v": 0} if rng.random() < 0.2 else {"k": "i", "v": rng.choice([-1, 0, 1, 2, 3])}
    sv = lambda: {"k": "n", "v": 0} if rng.random() < 0.2 else {"k": "s", "v": rng.choice([1, 2, 3])}
    bv = lambda: {"k": "n", "v": 0} if rng.random() < 0.2 else {"k": "b", "v": rng.choice([0, 1])}
    gen = {"i": iv, "s": sv, "b": bv}
    schemas = [("t1", "iis"), ("t2", "ii"), ("t3", "isb")]
    tabs = [{"name": n, "cols": [{"name": f"c{i+1}", "kind": k} for i, k in enumerate(ks)],
             "rows": [[gen[k]() for k in ks] for _ in range(rng.randint(nrows // 2, nrows))]} for n, ks in schemas]
    # t4: columns whose declared facts are easy to get wrong.  c1 free (the column predicates are put on);
    # c2 ONE distinct non-NULL value plus NULLs; c3 all NULL; c4 genuinely constant; c5 free; c6 = c5 except where it is NULL;
    # c7 = c5 on every row (NULLs included)
    NULLV = {"k": "n", "v": 0}
    rows = []
    for _ in range(rng.randint(max(6, nrows // 2), max(8, nrows))):
        c5 = iv()
        rows.append([iv(), NULLV if rng.random() < 0.4 else {"k": "i", "v": 5}, NULLV, {"k": "i", "v": 7}, c5,
                     NULLV if rng.random() < 0.35 else c5, c5])
    rows[0][1], rows[1][1] = {"k": "i", "v": 5}, NULLV
    rows[0][0], rows[1][0] = {"k": "i", "v": 1}, {"k": "i", "v": 1}          # both survive predicates like c1 > 0 / c1 = 1
    tabs.append({"name": "t4", "cols": [{"name": f"c{i+1}", "kind": "i"} for i in range(7)], "rows": rows})
    return tabs


# hand-written shapes the generator does not produce: window functions, monotonic projections over sorted
# inputs, ORDER BY over unions of sorted inputs, ordered aggregation, DISTINCT ON, limits inside subqueries
CORPUS = [
    "SELECT c1, c2, row_number() OVER (PARTITION BY c1 ORDER BY c2 DESC NULLS LAST) AS rn FROM t1",
    "SELECT c1, sum(c2) OVER (ORDER BY c1 ASC NULLS LAST ROWS BETWEEN 1 PRECEDING AND CURRENT ROW) AS s FROM t1",
    "SELECT c1, c2, rank() OVER (ORDER BY c2 ASC NULLS FIRST) AS r, count(*) OVER (PARTITION BY c3) AS n FROM t1 ORDER BY c2 ASC NULLS FIRST",
    "SELECT c1, lag(c2) OVER (PARTITION BY c1 ORDER BY c2) AS l FROM t2 ORDER BY c1 ASC NULLS LAST",
    "SELECT c1 + 1 AS a, -c1 AS b, abs(c1) AS d, c2 FROM t1 ORDER BY c1 + 1 ASC NULLS LAST",
    "SELECT -c1 AS b, c2 FROM t1 ORDER BY b DESC NULLS FIRST",
    "SELECT CAST(c1 AS INT) AS x, CAST(c1 AS DOUBLE) AS y, c1 * 2 AS z FROM t1 ORDER BY x ASC NULLS LAST",
    "SELECT c1, c2 FROM t1 ORDER BY c1 ASC NULLS LAST, c2 DESC NULLS FIRST",
    "SELECT c1, c2 FROM t1 ORDER BY c1 DESC NULLS FIRST LIMIT 3",
    "SELECT c1 FROM t1 UNION ALL SELECT c1 FROM t2 ORDER BY c1 ASC NULLS LAST",
    "SELECT c1, c2 FROM t1 WHERE c2 > 0 UNION ALL SELECT c1, c2 FROM t2 ORDER BY c1 ASC NULLS LAST",
    "SELECT c1, count(*) AS n, min(c2) AS mn, max(c2) AS mx FROM t1 GROUP BY c1 ORDER BY c1 ASC NULLS LAST",
    "SELECT c1, c2, count(*) AS n FROM t1 GROUP BY c1, c2",
    "SELECT c2, sum(c1) AS s FROM t2 GROUP BY c2 ORDER BY s DESC NULLS LAST LIMIT 2",
    "SELECT DISTINCT ON (c1) c1, c2 FROM t1 ORDER BY c1 ASC NULLS LAST, c2 DESC NULLS LAST",
    "SELECT a.c1, a.c2, b.c2 AS d FROM t1 a JOIN t2 b ON a.c1 = b.c1 ORDER BY a.c1 ASC NULLS LAST",
    "SELECT a.c1, b.c1 AS e, b.c2 AS d FROM t1 a LEFT JOIN t2 b ON a.c1 = b.c1 ORDER BY a.c1 ASC NULLS LAST, a.c2 DESC NULLS FIRST",
    "SELECT a.c1, b.c1 AS e FROM t1 a RIGHT JOIN t2 b ON a.c1 = b.c1 ORDER BY b.c1 ASC NULLS LAST",
    "SELECT a.c1, b.c1 AS e FROM t1 a FULL JOIN t2 b ON a.c1 = b.c1 AND a.c2 = b.c2 ORDER BY a.c1 ASC NULLS LAST",
    "SELECT a.c1, b.c1 AS e FROM (SELECT * FROM t1 WHERE c1 = 1) a FULL JOIN (SELECT * FROM t2 WHERE c2 = 0) b ON a.c2 = b.c1 ORDER BY a.c1 ASC NULLS LAST, e DESC NULLS LAST",
    "SELECT a.c1, a.c3, b.c2 AS d FROM t1 a, t3 b WHERE a.c1 < b.c1 ORDER BY a.c1 ASC NULLS LAST",
    "SELECT a.c1, b.c3 AS f FROM t1 a CROSS JOIN t3 b ORDER BY b.c1 DESC NULLS LAST",
    "SELECT c1, c2 FROM t1 WHERE c1 IN (SELECT c1 FROM t2) ORDER BY c1 ASC NULLS LAST",
    "SELECT c1 FROM t1 WHERE NOT EXISTS (SELECT 1 FROM t2 WHERE t2.c1 = t1.c1) ORDER BY c1 ASC NULLS LAST",
    "SELECT c1, c2 FROM (SELECT c1, c2 FROM t1 ORDER BY c1 ASC NULLS LAST LIMIT 4) s WHERE c2 IS NOT NULL",
    "SELECT c1, c2 FROM t1 WHERE c1 = 1 ORDER BY c1 ASC NULLS LAST, c2 ASC NULLS LAST",
    "SELECT c1, c2, c1 = c2 AS e FROM t2 WHERE c1 = c2 ORDER BY c2 ASC NULLS LAST",
    "SELECT t1.c1, t1.c2, t2.c2 AS d FROM t1 JOIN t2 ON t1.c1 = t2.c1 WHERE t1.c2 = 1 ORDER BY t2.c1 ASC NULLS LAST, d ASC NULLS LAST",
    "SELECT count(*) AS n, min(c1) AS mn, max(c1) AS mx FROM t1",
    "SELECT count(c2) AS n, min(c2) AS mn, max(c3) AS mx FROM t1",
    "SELECT count(*) AS n FROM t1 WHERE c1 > 0",
    "SELECT c1, c3 FROM t1 ORDER BY c3 DESC NULLS LAST, c1 ASC NULLS FIRST LIMIT 5 OFFSET 1",
    "SELECT c1, first_value(c2) OVER (PARTITION BY c1 ORDER BY c2 ASC NULLS LAST ROWS BETWEEN UNBOUNDED PRECEDING AND UNBOUNDED FOLLOWING) AS f FROM t1",
    "SELECT c1, c2 FROM t1 EXCEPT SELECT c1, c2 FROM t2 ORDER BY c1 ASC NULLS LAST",
    "SELECT c1, c2 FROM t1 INTERSECT SELECT c1, c2 FROM t2",
    "SELECT coalesce(c1, 0) AS x, nullif(c2, 1) AS y, CASE WHEN c1 > 0 THEN c1 ELSE NULL END AS z FROM t1 ORDER BY c1 ASC NULLS LAST",
    "SELECT a.c1, a.c2, b.c2 AS d FROM t2 a JOIN t2 b ON a.c1 = b.c1 AND a.c2 < b.c2 ORDER BY a.c1 ASC NULLS LAST, a.c2 ASC NULLS LAST",
    "SELECT c1, c2, ntile(2) OVER (ORDER BY c1 DESC NULLS LAST) AS t FROM t2",
    "SELECT c3, count(DISTINCT c1) AS n FROM t1 GROUP BY c3",
    "SELECT c1, c2 FROM t1 WHERE c2 = (SELECT max(c2) FROM t2) ORDER BY c1 ASC NULLS LAST",
    "SELECT * FROM (SELECT c1, c2 FROM t1 UNION SELECT c1, c2 FROM t2) u ORDER BY c1 ASC NULLS LAST, c2 ASC NULLS LAST",
    "SELECT a.c1 FROM t1 a LEFT SEMI JOIN t2 b ON a.c1 = b.c1 ORDER BY a.c1 ASC NULLS LAST",
    "SELECT a.c1, a.c2 FROM t1 a LEFT ANTI JOIN t2 b ON a.c1 = b.c1 ORDER BY a.c1 ASC NULLS LAST, a.c2 DESC NULLS FIRST",
    "SELECT c1, count(*) AS n FROM (SELECT c1 FROM t1 UNION ALL SELECT c1 FROM t2) u GROUP BY c1",
    "SELECT c1, c2, count(*) AS n FROM (SELECT c1, c2 FROM t1 UNION ALL SELECT c1, c2 FROM t2 UNION ALL SELECT c1, c1 AS c2 FROM t3) u GROUP BY c1, c2 ORDER BY c1 ASC NULLS LAST",
    "SELECT c1, c3 FROM t1 ORDER BY c1 ASC NULLS LAST, c3 ASC NULLS LAST",
    "SELECT c2, c1 FROM t1 ORDER BY c2 DESC NULLS LAST, c1 ASC NULLS LAST",
    "SELECT c1, c2 FROM t2 ORDER BY c1 ASC NULLS LAST, c2 DESC NULLS LAST LIMIT 4",
    "SELECT -c1 AS b FROM t2 ORDER BY b DESC NULLS FIRST",
    "SELECT CAST(c1 AS DOUBLE) AS y, c2 FROM t2 ORDER BY y ASC NULLS LAST",
    "SELECT ceil(c1 / 2.0) AS h, floor(c1 / 2.0) AS g FROM t2 ORDER BY h ASC NULLS LAST",
    "SELECT c1 - 3 AS m, c1 * -1 AS r, c1 FROM t2 ORDER BY m ASC NULLS LAST",
    "SELECT c1, max(c2) AS mx FROM t2 GROUP BY c1 ORDER BY c1 ASC NULLS LAST LIMIT 3",
    "SELECT a.c1, a.c2, b.c2 AS d FROM t2 a JOIN t2 b ON a.c1 = b.c1 ORDER BY a.c1 ASC NULLS LAST",
    "SELECT a.c1, b.c2 AS d FROM t1 a LEFT JOIN t2 b ON a.c1 = b.c1 AND b.c2 = 1 WHERE a.c2 = 0 ORDER BY d ASC NULLS LAST",
    "SELECT a.c2, b.c1 AS e FROM t1 a RIGHT JOIN (SELECT c1, c2 FROM t2 WHERE c1 = 2) b ON a.c2 = b.c2 ORDER BY e ASC NULLS FIRST, a.c2 ASC NULLS LAST",
    "SELECT c1, c2, sum(c2) OVER (PARTITION BY c1 ORDER BY c2 ASC NULLS LAST) AS rs, max(c1) OVER () AS m FROM t2 ORDER BY c1 ASC NULLS LAST, c2 ASC NULLS LAST",
    "SELECT c1, c2 FROM (SELECT c1, c2 FROM t1 WHERE c1 = 2 UNION ALL SELECT c1, c2 FROM t2 WHERE c1 = 2) u ORDER BY c1 ASC NULLS LAST, c2 ASC NULLS LAST",
    "SELECT c1, c2 FROM (SELECT c1, c2 FROM t1 WHERE c1 = 2 UNION ALL SELECT c1, c2 FROM t2 WHERE c1 = 1) u ORDER BY c1 ASC NULLS LAST, c2 ASC NULLS LAST",
]


# ----------------------------------------------------------------------------- operator matrix (coverage by construction)
CONFIGS.update({
    # file formats: one file per table partition, explicit schema
    "C2": dict(partitions=2, batch_rows=0, source="csv", sorted=1, settings=[[TP, "2"]]),
    "J2": dict(partitions=2, batch_rows=0, source="json", settings=[[TP, "2"]]),
    "W2": dict(partitions=2, batch_rows=0, source="arrow", wide=True, settings=[[TP, "3"]]),
    # StreamingTables declared infinite over finite partition streams: the planner takes its streaming paths
    # (PartialSortExec, SymmetricHashJoinExec, BoundedWindowAggExec input-order modes, StreamingTableExec)
    "T1": dict(partitions=1, batch_rows=3, source="streaming", sorted=1, settings=[[TP, "1"], [BS, "4"]]),
    "T2": dict(partitions=2, batch_rows=2, source="streaming", sorted=2, settings=[[TP, "2"], [BS, "3"]]),
    # hash joins over sorted inputs (probe-side order is declared preserved for some join types): collect-left / partitioned
    "H1": dict(partitions=1, batch_rows=3, sorted=2, settings=[[TP, "1"], [BS, "4"]]),
    "H2": dict(partitions=2, batch_rows=2, sorted=1, settings=[[TP, "2"], [BS, "3"], [OPT + "prefer_existing_sort", "true"],
                                                                [OPT + "hash_join_single_partition_threshold", "0"],
                                                                [OPT + "hash_join_single_partition_threshold_rows", "0"]]),
    # optional optimizer rules: window top-n (PartitionedTopKExec), hash-join input buffering (BufferExec)
    "K4": dict(partitions=2, batch_rows=3, settings=[[TP, "4"], [BS, "4"], [OPT + "enable_window_topn", "true"],
                                                     ["datafusion.execution.hash_join_buffering_capacity", "4096"]]),
    # piecewise merge join for single range predicates
    "PW": dict(partitions=2, batch_rows=3, settings=[[TP, "2"], [OPT + "enable_piecewise_merge_join", "true"]]),
})

JOIN_TYPES = ["INNER JOIN", "LEFT JOIN", "RIGHT JOIN", "FULL JOIN", "LEFT SEMI JOIN", "LEFT ANTI JOIN", "RIGHT SEMI JOIN", "RIGHT ANTI JOIN"]


def join_matrix():
    """Every join type x {equi, equi + residual filter, range only} x both table orders, selecting the columns the type exposes."""
    qs = []
    for jt in JOIN_TYPES:
        for (l, r) in (("t1", "t2"), ("t2", "t1")):
            for cond in ("a.c1 = b.c1", "a.c1 = b.c1 AND a.c2 < b.c2", "a.c1 < b.c1"):
                if "LEFT SEMI" in jt or "LEFT ANTI" in jt:
                    sel = "a.c1, a.c2"
                elif "RIGHT SEMI" in jt or "RIGHT ANTI" in jt:
                    sel = "b.c1, b.c2"
                else:
                    sel = "a.c1, a.c2, b.c1 AS e, b.c2 AS d"
                qs.append(f"SELECT {sel} FROM {l} a {jt} {r} b ON {cond}")
    qs.append("SELECT a.c1, b.c2 AS d FROM t1 a CROSS JOIN t2 b")
    qs.append("SELECT c1, c2 FROM t2 WHERE c1 = 1 OR c2 IN (SELECT c1 FROM t1)")            # mark join
    qs.append("SELECT c1, c2 FROM t2 WHERE c2 > 1 OR EXISTS (SELECT 1 FROM t1 WHERE t1.c1 = t2.c1)")
    return qs


def window_matrix():
    qs = []
    parts = ["", "PARTITION BY c1 ", "PARTITION BY c3 ", "PARTITION BY c2 "]
    orders = ["ORDER BY c1 ASC NULLS LAST", "ORDER BY c2 DESC NULLS FIRST", "ORDER BY c1 DESC NULLS LAST, c2 ASC NULLS LAST"]
    frames = ["ROWS BETWEEN 1 PRECEDING AND CURRENT ROW", "ROWS BETWEEN 2 PRECEDING AND 1 FOLLOWING", "RANGE BETWEEN UNBOUNDED PRECEDING AND CURRENT ROW",
              "ROWS BETWEEN UNBOUNDED PRECEDING AND UNBOUNDED FOLLOWING"]
    k = 0
    for pb in parts:
        for ob in orders:
            fr = frames[k % len(frames)]
            fn = ["sum(c2)", "count(*)", "min(c2)", "max(c1)"][k % 4]
            rk = ["row_number()", "rank()", "dense_rank()", "lag(c2)", "lead(c1)", "first_value(c2)", "last_value(c2)", "nth_value(c2, 2)"][k % 8]
            qs.append(f"SELECT c1, c2, c3, {fn} OVER ({pb}{ob} {fr}) AS w FROM t1")
            qs.append(f"SELECT c1, c2, {rk} OVER ({pb}{ob}) AS w FROM t1")
            k += 1
    return qs


SCANQ = [
    "SELECT c2, c1 FROM t1 WHERE c1 > 0 LIMIT 3",
    "SELECT c3 FROM t1",
    "SELECT * FROM t2 LIMIT 2",
    "SELECT c1 FROM t1 WHERE c3 = 'a'",
    "SELECT count(*) AS n, min(c1) AS mn, max(c2) AS mx FROM t1",
    "SELECT c1, c2 FROM t1 ORDER BY c1 ASC NULLS LAST, c2 DESC NULLS FIRST",
    "SELECT c1, c2 FROM t1 ORDER BY c1 ASC NULLS LAST, c3 ASC NULLS LAST",           # PartialSortExec over streaming sources
    "SELECT c1, c2 FROM t2 ORDER BY c2 ASC NULLS FIRST, c1 ASC NULLS FIRST LIMIT 3 OFFSET 1",
    "SELECT c1, c2 FROM t1 LIMIT 3 OFFSET 2",
    "SELECT c1, count(*) AS n, sum(c2) AS s FROM t1 GROUP BY c1",
    "SELECT c2, c3, count(*) AS n FROM t1 GROUP BY c2, c3",
    "SELECT c1, c2 FROM t2 UNION ALL SELECT c1, c2 FROM t1 WHERE c2 > 0",
    "SELECT c1, c3 FROM t3 WHERE c3 AND c1 IS NOT NULL",
]

MISCQ = [
    "SELECT unnest(make_array(c1, c2)) AS u, c1 FROM t2",
    "SELECT value AS v FROM generate_series(1, 7)",
    "SELECT value AS v, value % 3 AS m FROM range(0, 9, 2) ORDER BY m ASC, v DESC",
    "WITH RECURSIVE r AS (SELECT 1 AS n UNION ALL SELECT n + 1 FROM r WHERE n < 5) SELECT n FROM r",
    "EXPLAIN SELECT c1 FROM t1 WHERE c1 > 0",
    "EXPLAIN ANALYZE SELECT c1, count(*) FROM t1 GROUP BY c1",
    "INSERT INTO t2 SELECT c1, c2 FROM t1 WHERE c1 > 0",
    "SELECT * FROM (SELECT c1, c2, row_number() OVER (PARTITION BY c1 ORDER BY c2 ASC NULLS LAST) AS rn FROM t2) s WHERE rn <= 2",
    "SELECT c1, max(c2) AS m FROM t2 GROUP BY c1 ORDER BY m DESC NULLS LAST LIMIT 2",
    "SELECT c1, count(*) AS n FROM (SELECT c1 FROM t1 GROUP BY c1 UNION ALL SELECT c1 FROM t2 GROUP BY c1) u GROUP BY c1",
    "SELECT * FROM (VALUES (1, 'a'), (2, NULL), (NULL, 'b')) AS v(x, y) WHERE x > 0",
    "SELECT c1 FROM t1 WHERE c1 > 100",
    "SELECT c1, c2 FROM t1 WHERE 1 = 0",
    "SELECT c1, c2 FROM t2 WHERE c2 = (SELECT max(c2) FROM t1)",
    "SELECT 1 AS one, 'x' AS s",
]

MONO_FUNCS = ["acos", "acosh", "asin", "asinh", "atan", "atanh", "cbrt", "ceil", "cos", "cosh", "degrees", "exp", "floor", "ln", "log2", "log10",
              "radians", "sin", "sinh", "sqrt", "tan", "tanh", "abs", "signum", "round", "trunc"]


def mono_matrix():
    """Projections of (possibly) monotonic functions over a column the source is declared sorted by: the projection may
    declare an ordering on the function value; the data decides (NULLs, NaN outside the domain, decreasing ranges)."""
    qs = []
    for f in MONO_FUNCS:
        qs.append(f"SELECT {f}(CAST(c1 AS DOUBLE)) AS y, c1 FROM t2 ORDER BY c1 ASC NULLS LAST")
        qs.append(f"SELECT {f}(CAST(c2 AS DOUBLE) / 2) AS y, c2 FROM t2 ORDER BY y ASC NULLS FIRST")
    qs += ["SELECT atan2(CAST(c1 AS DOUBLE), 2.0) AS y, c1 FROM t2 ORDER BY c1 ASC NULLS LAST",
           "SELECT log(2.0, CAST(c1 AS DOUBLE)) AS y, c1 FROM t2 ORDER BY c1 ASC NULLS LAST",
           "SELECT date_trunc('hour', to_timestamp(c1 * 1800)) AS y, c1 FROM t2 ORDER BY c1 ASC NULLS LAST",
           "SELECT date_bin(INTERVAL '1 hour', to_timestamp(c1 * 1800)) AS y, c1 FROM t2 ORDER BY y ASC NULLS LAST",
           "SELECT from_unixtime(c1) AS y, c1 FROM t2 ORDER BY c1 ASC NULLS LAST",
           "SELECT c1 + c2 AS y, c1 - c2 AS z, c1, c2 FROM t2 ORDER BY c1 ASC NULLS LAST, c2 ASC NULLS LAST",
           "SELECT -c1 AS y, c1 * 2 AS z, c1 / 2 AS q, CAST(c1 AS INT) AS i, CAST(c1 AS VARCHAR) AS s FROM t2 ORDER BY c1 ASC NULLS LAST",
           "SELECT c1 > 0 AS p, c1 IS NULL AS n, coalesce(c1, 0) AS k, CASE WHEN c1 > 0 THEN c1 ELSE 0 END AS g FROM t2 ORDER BY c1 ASC NULLS LAST"]
    return qs


WIDEQ = [
    "SELECT * FROM t1",
    "SELECT * FROM t2 WHERE c1 > 0",
    "SELECT w_i32, w_f64, w_dec, w_date, w_ts, w_lstr, w_bin FROM t1 ORDER BY w_f64 ASC NULLS LAST",
    "SELECT w_date, count(*) AS n, min(w_dec) AS mn, max(w_ts) AS mx, sum(w_i32) AS s FROM t1 GROUP BY w_date",
    "SELECT count(*) AS n, min(w_f64) AS a, max(w_dec) AS b, min(w_date) AS c, max(w_lstr) AS d, min(w_ts) AS e FROM t2",
    "SELECT a.w_i32, b.w_dec FROM t1 a JOIN t2 b ON a.w_i32 = b.w_i32",
    "SELECT w_lstr, w_bin FROM t1 WHERE w_f64 >= 0 LIMIT 4",
]


def union_matrix():
    """Unions of branches with equal / different constants and orderings, and projections that keep, reorder or drop the
    leading keys of the source ordering (equivalence/properties/union.rs, dependency.rs, projection.rs)."""
    br = ["SELECT c1, c2 FROM t2 WHERE c1 = 1", "SELECT c1, c2 FROM t2 WHERE c1 = 2", "SELECT c1, c2 FROM t1 WHERE c2 = 0",
          "SELECT c1, c2 FROM t2", "SELECT c2 AS c1, c1 AS c2 FROM t2", "SELECT c1, c2 FROM t1", "SELECT 1 AS c1, c2 FROM t2"]
    qs = []
    for i in range(len(br)):
        for j in (i, (i + 1) % len(br), (i + 3) % len(br)):
            qs.append(f"SELECT c1, c2 FROM ({br[i]} UNION ALL {br[j]}) u ORDER BY c1 ASC NULLS LAST, c2 DESC NULLS FIRST")
    qs += [f"SELECT c1, c2 FROM ({br[0]} UNION ALL {br[1]} UNION ALL {br[3]}) u",
           f"SELECT c1, count(*) AS n FROM ({br[3]} UNION ALL {br[5]}) u GROUP BY c1",
           "SELECT c2 FROM t1", "SELECT c2, c1 FROM t1", "SELECT c1 AS a, c1 AS b, c2 FROM t1", "SELECT c1 + c2 AS s, c1 FROM t1",
           "SELECT c2, c3 FROM t1 ORDER BY c2 DESC NULLS LAST", "SELECT c1, c2 + 1 AS d FROM t1 ORDER BY c1 ASC NULLS LAST, d DESC NULLS FIRST",
           "SELECT c1, c2, c1 AS k FROM t1 WHERE c1 = c2", "SELECT c1, c2 FROM t1 WHERE c1 = 2 AND c2 = 0",
           "SELECT a.c1, a.c2 FROM t1 a WHERE a.c1 IN (1, 2) ORDER BY a.c1 ASC NULLS LAST, a.c2 DESC NULLS FIRST",
           "SELECT c1, min(c2) AS m, max(c2) AS x FROM t1 GROUP BY c1 ORDER BY c1 ASC NULLS LAST",
           "SELECT c1, first_value(c2 ORDER BY c2 DESC NULLS FIRST) AS f, last_value(c2 ORDER BY c2 DESC NULLS FIRST) AS l FROM t1 GROUP BY c1",
           "SELECT c1, c2, c3 FROM t1 ORDER BY c1 ASC NULLS LAST, c2 DESC NULLS FIRST LIMIT 5"]
    return qs


def special_matrix():
    """t4: predicates on c1 (and on nothing), then orderings / groupings / joins on the single-value-plus-NULL, all-NULL,
    constant and almost-equal columns, so that every constant / equivalence an operator derives from statistics or
    predicates is put to use."""
    preds = ["", "WHERE c1 > 0", "WHERE c1 = 1", "WHERE c1 >= 0 AND c1 < 3", "WHERE c1 IS NOT NULL", "WHERE c1 IN (1, 2)", "WHERE c1 > 0 AND c5 = c6",
             "WHERE c4 = 7 AND c1 > 0", "WHERE c2 = 5", "WHERE c2 IS NULL OR c1 > 0"]
    tails = ["ORDER BY c2 ASC NULLS FIRST, c5 ASC NULLS LAST", "ORDER BY c2 DESC NULLS LAST", "ORDER BY c3 ASC NULLS FIRST, c1 ASC NULLS LAST",
             "ORDER BY c4 ASC, c2 ASC NULLS LAST", "ORDER BY c6 ASC NULLS FIRST, c5 ASC NULLS FIRST", "ORDER BY c5 ASC NULLS LAST, c7 DESC NULLS FIRST, c6 ASC NULLS LAST"]
    qs = []
    for pi, pr in enumerate(preds):
        for ti in (pi % len(tails), (pi + 1) % len(tails), (pi + 3) % len(tails)):
            qs.append(f"SELECT c1, c2, c3, c4, c5, c6, c7 FROM t4 {pr} {tails[ti]}")
        qs.append(f"SELECT c2, count(*) AS n, min(c5) AS m FROM t4 {pr} GROUP BY c2")
        qs.append(f"SELECT c2, c4, c6, count(*) AS n FROM t4 {pr} GROUP BY c2, c4, c6 ORDER BY c2 ASC NULLS FIRST, c6 ASC NULLS LAST")
    # a filter that cannot be pushed into the scan (LIMIT / window / aggregate barrier below it) sees the scan's EXACT min/max
    barriers = ["(SELECT * FROM t4 ORDER BY c5 ASC NULLS LAST LIMIT 1000)", "(SELECT *, count(*) OVER () AS total FROM t4)",
                "(SELECT * FROM t4 LIMIT 500)", "(SELECT c1, c2, c3, c4, c5, c6, c7, count(*) AS n FROM t4 GROUP BY c1, c2, c3, c4, c5, c6, c7)"]
    for bi, b in enumerate(barriers):
        for pr in ("WHERE c1 > 0", "WHERE c1 = 1", "WHERE c1 >= 0 AND c5 >= 0"):
            qs.append(f"SELECT c1, c2, c3, c4, c5, c6 FROM {b} s {pr} {tails[bi % len(tails)]}")
            qs.append(f"SELECT c2, count(*) AS n FROM {b} s {pr} GROUP BY c2 ORDER BY c2 ASC NULLS LAST")
    for pr in preds[1:5]:
        qs.append(f"SELECT a.c1, a.c2, b.c2 AS d FROM (SELECT * FROM t4 {pr}) a JOIN t4 b ON a.c2 = b.c2 ORDER BY a.c2 ASC NULLS FIRST")
        qs.append(f"SELECT a.c2, a.c6, b.c1 AS e FROM (SELECT * FROM t4 {pr}) a LEFT JOIN t2 b ON a.c6 = b.c1 ORDER BY a.c6 ASC NULLS FIRST, a.c2 ASC NULLS LAST")
        qs.append(f"SELECT c2, c5, row_number() OVER (PARTITION BY c2 ORDER BY c5 ASC NULLS LAST) AS rn FROM t4 {pr}")
        qs.append(f"SELECT DISTINCT c2, c3, c4 FROM t4 {pr}")
        qs.append(f"SELECT c2, c6 FROM t4 {pr} UNION ALL SELECT c2, c6 FROM t4 WHERE c1 < 0 ORDER BY c2 ASC NULLS LAST, c6 ASC NULLS FIRST")
    return qs


FAMILIES = {
    # family: (queries, configurations)
    "join": (join_matrix, ["H1", "H2", "P4", "M4", "PW", "T2", "K4"]),
    "window": (window_matrix, ["A1", "B4", "T1"]),
    "scan": (lambda: SCANQ, ["Q1", "C2", "J2", "W2", "T1", "T2"]),
    "misc": (lambda: MISCQ, ["A1", "P4", "M4", "K4"]),
    "mono": (mono_matrix, ["M4", "S3"]),
    "union": (union_matrix, ["M4", "S3", "H1", "H2"]),
    "wide": (lambda: WIDEQ, ["Q4", "N2", "W2", "F4"]),
    "special": (special_matrix, ["Q1", "Q4", "F4", "B4"]),
}


def matrix_runs(ctx, lines, meta, families=None, thorough=False):
    """Append the operator matrix (coverage by construction) to a run set."""
    rng = random.Random(ctx.seed * 31 + 3)
    dbs = [big_tables(rng, 14) for _ in range(3 if thorough else 1)]
    for fam, (qf, cfgs) in FAMILIES.items():
        if families is not None and fam not in families:
            continue
        for qi, sql in enumerate(qf()):
            for di, db in enumerate(dbs):
                for cf in cfgs:
                    cfg = dict(CONFIGS[cf], name=cf)
                    tabs = sort_tables(db, cfg["sorted"]) if cfg.get("sorted") else db
                    rid = f"m-{fam}{qi}/d{di}/{cf}"
                    lines.append({"id": rid, "sql": sql, "tables": tabs, "cfg": cfg})
                    meta[rid] = {"case": None, "cfg": cf, "sql": sql, "src": "matrix-" + fam, "tables": tabs}


def build_runs(ctx, n_tlc, n_big, configs, big_rows=14, tlc_rows=4, gens=None, corpus=1, extra_corpus=(), corpus_tlc_db=True, corpus_cfgs=None):
    """Returns (lines for the recorder, meta by run id, TLC generation result list).
    Sources of queries: TLC-generated plans (PlanGen, with the reference result) and the corpus; sources of
    data: the TLC-generated databases and larger random databases; each under every listed configuration."""
    gens = gens or [(3, 2, ctx.seed)]
    cases, tlcruns = [], []
    for gi, (d, ed, sd) in enumerate(gens):
        cs, r = sqlcases.generate(ctx, max(1, n_tlc // len(gens)), sd, depth=d, edepth=ed, maxrows=tlc_rows, tag=f"gen{gi}", workers=4)
        for c in cs:
            c["id"] = f"g{gi}-{c['id']}"
        cases += cs
        tlcruns.append(r)
    rng = random.Random(ctx.seed * 7919 + 13)
    dbs = [big_tables(rng, big_rows) for _ in range(max(1, n_big))]
    lines, meta = [], {}

    def add(rid, sql, tables, cfgname, case=None, src=""):
        cfg = dict(CONFIGS[cfgname], name=cfgname)
        tabs = sort_tables(tables, cfg["sorted"]) if cfg.get("sorted") else tables
        lines.append({"id": rid, "sql": sql, "tables": tabs, "cfg": cfg})
        meta[rid] = {"case": case, "cfg": cfgname, "sql": sql, "src": src, "tables": tabs}

    for c in cases:
        for cf in configs:
            add(f"{c['id']}/{cf}", c["sql"], c["tables"], cf, case=c, src="plangen")
    # the generated queries again over the larger databases (contract only; no reference needed)
    for k, c in enumerate(cases[:n_big * 40] if n_big else []):
        db = dbs[k % len(dbs)]
        cf = configs[k % len(configs)]
        add(f"{c['id']}/big{k % len(dbs)}/{cf}", c["sql"], db, cf, src="plangen-big")
    if corpus:
        for qi, sql in enumerate(CORPUS + list(extra_corpus)):
            for di, db in enumerate(dbs[:corpus] + ([cases[0]["tables"]] if cases and corpus_tlc_db else [])):
                # quick tier: each corpus query under `corpus_cfgs` of the configurations, rotating so that all are used
                use = configs if not corpus_cfgs else [configs[(qi + j) % len(configs)] for j in range(min(corpus_cfgs, len(configs)))]
                for cf in use:
                    add(f"q{qi}/d{di}/{cf}", sql, db, cf, src="corpus")
    return lines, meta, tlcruns


def record(ctx, lines, tag="rec"):
    inp, out = ctx.path(f"{tag}.in.ndjson"), ctx.path(f"{tag}.out.ndjson")
    write_ndjson(inp, lines)
    summary, _ = run_harness(ctx, "vcontract", ["record", "--in", inp, "--out", out, "--dir", ctx.path("pq")], timeout=6000)
    return read_ndjson(out), summary


# ----------------------------------------------------------------------------- TLC validation
DROP = ("exprs", "detail", "uneval", "part", "name", "fetch", "parent")
REJECT_RE = re.compile(r'^<<"REJECT", (.*)>>\s*$')


KEEP = {"C28": ("id", "ords", "outord", "classes", "consts", "hash", "streams"),
        "C29": ("id", "w", "np", "full", "stats", "streams"),
        "C30": ("id", "w", "schema", "streams", "fns"),
        "C53": ("id", "full", "metrics", "streams")}


def has_facts(n, check):
    if check == "C28":
        return bool(n["ords"] or n["outord"] or n["consts"] or n["hash"] or any(len(c) > 1 for c in n["classes"]))
    if check == "C29":
        return bool(n["stats"])
    return True


def slim(run, check):
    """The part of the event log the selected contract reads (TLC's JSON reader is the slow step)."""
    nodes = []
    for n in run["nodes"]:
        m = {k: n[k] for k in KEEP[check]}
        if check == "C28":
            m["classes"] = [c for c in n["classes"] if len(c) > 1]
        rows = check in ("C28", "C29") and has_facts(n, check)
        bk = {"C28": ("ok", "rows"), "C29": ("ok", "rows"), "C30": ("ok", "types", "nulls"), "C53": ("n",)}[check]
        m["streams"] = [{"p": s["p"], "batches": [{k: (b[k] if (k != "rows" or rows) else []) for k in bk} for b in s["batches"]]}
                        for s in n["streams"]]
        nodes.append(m)
    out = {"id": run["id"], "nodes": nodes}
    if check == "C29":
        out["agg"] = run.get("agg", [])
    if check == "C53":
        out["analyze"] = [{k: a[k] for k in ("id", "has", "rv", "emitted", "full")} for a in run.get("analyze", [])]
        out["spill"] = run.get("spill", [])
    if check == "C30":
        out["logical"], out["root"] = run["logical"], run["root"]
    return out


def tlc_validate(ctx, check, logs, tag, chunk=1700):
    """logs: list of {"id","nodes"} -> {run id: [bad...]} as rejected by TLC (ContractTrace / OperatorContract)."""
    if not logs:
        return {}, 0
    if len(logs) > chunk:
        rej, n = {}, 0
        for i in range(0, len(logs), chunk):
            r1, n1 = tlc_validate(ctx, check, logs[i:i + chunk], f"{tag}-{i // chunk}", chunk)
            rej.update(r1)
            n += n1
        return collections.defaultdict(list, rej), n
    tp = ctx.path(f"{tag}.trace.ndjson")
    write_ndjson(tp, logs)
    cfg = ctx.path(f"{tag}.cfg")
    with open(cfg, "w") as f:
        f.write(f'CONSTANT CHECK = "{check}"\nSPECIFICATION TraceSpec\nINVARIANT Judge\nCHECK_DEADLOCK FALSE\n')
    r = tlc(ctx, "contract/ContractTrace", cfg=cfg, workers=4, env={"TRACE": tp}, timeout=1500, xmx="6g", xss="256m",
            deadlock=False, tag=tag)
    if not r.ok:
        sys.stderr.write(r.out[-4000:])
        raise ToolError("ContractTrace validation failed to run")
    want = sum(len(l["nodes"]) for l in logs)
    if r.distinct != want:
        raise ToolError(f"ContractTrace judged {r.distinct} nodes, expected {want}")
    rej = collections.defaultdict(list)
    for line in r.out.splitlines():
        m = REJECT_RE.match(line)
        if not m:
            continue
        s = m.group(1)
        if s.startswith('"') and s.endswith('"'):
            s = s[1:-1].replace('\\"', '"').replace('\\\\', '\\')
        o = json.loads(s)
        for b in o["bad"]:
            if b not in rej[o["run"]]:
                rej[o["run"]].append(b)
    return rej, r.distinct


def bkey(b):
    return (b["n"], b["p"], b["f"], b["k"])


# ----------------------------------------------------------------------------- operator coverage
def op_label(n):
    """Operator type refined by the mode / variant that selects a different code path."""
    name, d = n["name"], n.get("detail", "")
    m = re.search(r"join_type=(\w+)", d)
    jt = ":" + m.group(1) if m else ""
    mm = re.search(r"mode=\[?(\w+)", d)
    mode = ":" + mm.group(1) if mm and name in ("HashJoinExec", "AggregateExec", "SymmetricHashJoinExec", "BoundedWindowAggExec") else ""
    extra = ""
    if name.startswith("SortExec"):
        name = "SortExec"
        extra = (":TopK" if "TopK" in d else (":fetch" if n.get("fetch") else "")) + (":preserve_partitioning" if "preserve_partitioning=[true]" in d else "")
    elif name == "DataSourceExec":
        ft = re.search(r"file_type=(\w+)", d)
        extra = ":" + ("memory" if "partition_sizes=" in d else (ft.group(1) if ft else "other"))
        if re.search(r"\b(limit|fetch)=\d", d):
            extra += ":limit"
        if "predicate=" in d:
            extra += ":predicate"
        if "output_ordering" in d:
            extra += ":ordered"
    elif name == "GlobalLimitExec":
        extra = (":skip" if not re.search(r"skip=0\b", d) else "") + (":fetch" if "fetch=None" not in d else "")
    elif name == "RepartitionExec":
        extra = ":" + re.sub(r"\(.*", "", d.split("partitioning=")[1]) if "partitioning=" in d else ""
        if "preserve_order=true" in d:
            extra += ":preserve_order"
    elif name == "AggregateExec" and "ordering_mode=" in d:
        extra = ":" + re.sub(r"\W.*", "", d.split("ordering_mode=")[1])
    elif name in ("HashJoinExec", "NestedLoopJoinExec", "SortMergeJoinExec", "SymmetricHashJoinExec", "PiecewiseMergeJoinExec") and "filter=" in d:
        extra = ":filter"
    elif name in ("CoalescePartitionsExec", "SortPreservingMergeExec") and "fetch=" in d:
        extra = ":fetch"
    return name + mode + jt + extra


def coverage_judged(runs):
    """Per refined operator label: nodes whose output was consumed in full (the position in which C28/C29/C53 judge)."""
    ops = collections.Counter()
    for r in runs:
        for n in r.get("nodes", []):
            if n["full"]:
                ops[op_label(n)] += 1
    return dict(sorted(ops.items()))


_JT8 = ["Inner", "Left", "Right", "Full", "LeftSemi", "LeftAnti", "RightSemi", "RightAnti"]
REQUIRED_OPERATORS = (
    ["AggregateExec:" + m for m in ("Final", "FinalPartitioned", "Partial", "Single", "SinglePartitioned", "Single:Sorted", "Partial:Sorted",
                                    "FinalPartitioned:Sorted", "Partial:PartiallySorted")]
    + ["AnalyzeExec", "BoundedWindowAggExec:Sorted", "BoundedWindowAggExec:Linear", "BufferExec", "CoalescePartitionsExec", "CrossJoinExec",
       "DataSinkExec", "DataSourceExec:memory", "DataSourceExec:parquet", "DataSourceExec:csv", "DataSourceExec:json", "DataSourceExec:arrow",
       "EmptyExec", "ExplainExec", "FilterExec", "GlobalLimitExec:skip", "LocalLimitExec", "InterleaveExec", "LazyMemoryExec", "PartialSortExec",
       "PartitionedTopKExec", "PlaceholderRowExec", "ProjectionExec", "RecursiveQueryExec", "RepartitionExec:Hash", "RepartitionExec:Hash:preserve_order",
       "RepartitionExec:RoundRobinBatch", "ScalarSubqueryExec", "SortExec", "SortExec:TopK",
       "SortExec:TopK:preserve_partitioning", "SortExec:preserve_partitioning", "SortPreservingMergeExec", "SortPreservingMergeExec:fetch",
       "StreamingTableExec", "UnionExec", "UnnestExec", "WindowAggExec", "WorkTableExec"]
    + ["HashJoinExec:CollectLeft:" + j for j in _JT8 + ["RightMark"]] + ["HashJoinExec:Partitioned:" + j for j in _JT8 + ["RightMark"]]
    + ["SortMergeJoinExec:" + j for j in _JT8 + ["LeftMark"]]
    + ["SymmetricHashJoinExec:Partitioned:" + j for j in _JT8]
    + ["NestedLoopJoinExec:" + j for j in ("Inner", "Left", "Right", "Full", "RightSemi", "RightAnti")]
    + ["PiecewiseMergeJoinExec:" + j for j in ("Inner", "Left", "Right", "Full", "LeftSemi", "LeftAnti")]
)
# operator types of the source tree that no SQL / configuration of this version plans (reported, not required):
NOT_REACHED = {"CoalesceBatchesExec": "deprecated; no planner or optimizer rule of this version inserts it",
               "AsOfJoinExec": "no SQL syntax / planner path", "AsyncFuncExec": "needs an async UDF",
               "CooperativeExec": "only wraps non-cooperative custom leaves", "DmlResultExec": "DELETE/UPDATE on MemTable only"}


def require_operators(runs, required):
    """Vacuity guard: every listed operator label prefix must occur in a judged position."""
    have = coverage_judged(runs)
    missing = [r for r in required if not any(k == r or k.startswith(r + ":") for k in have)]
    if missing:
        raise ToolError(f"vacuity: operator types never observed in a judged position (output consumed in full): {missing}")
    return have


def coverage(runs):
    ops = collections.Counter()
    for r in runs:
        for n in r.get("nodes", []):
            ops[op_label(n)] += 1
    return dict(sorted(ops.items()))


# ----------------------------------------------------------------------------- self-test: corrupt recorded logs
def _streams_with_rows(n, k=2):
    return [s for s in n["streams"] if sum(len(b["rows"]) for b in s["batches"]) >= k and all(b["ok"] for b in s["batches"])]


def _flat(s):
    return [r for b in s["batches"] for r in b["rows"]]


def mutants(check, runs, rng, per_kind=3):
    """Corrupted copies of recorded logs which the contract must reject (returns [(log, expected fact)])."""
    out = []
    kinds = collections.Counter()
    order = list(range(len(runs)))
    rng.shuffle(order)

    def emit(run, ni, node, fact, kind):
        if kinds[kind] >= per_kind:
            return
        kinds[kind] += 1
        r2 = json.loads(json.dumps(run))
        r2["nodes"][ni] = node
        r2["id"] = f"MUT:{kind}:{len(out)}:{run['id']}"
        out.append((r2, fact, ni))

    for ri in order:
        run = runs[ri]
        for ni, n0 in enumerate(run["nodes"]):
            n = json.loads(json.dumps(n0))
            if check == "C28":
                for s in _streams_with_rows(n):
                    rows = _flat(s)
                    for o in n["ords"][:1]:
                        i = o[0]["i"] - 1
                        vals = [r[i] for r in rows]
                        if vals[0] != vals[-1] and "n" not in (vals[0]["k"], vals[-1]["k"]):
                            m = json.loads(json.dumps(n))
                            ms = [x for x in m["streams"] if x["p"] == s["p"]][0]
                            fr = _flat(ms)
                            fr[0], fr[-1] = fr[-1], fr[0]
                            ms["batches"] = [{"ok": True, "rows": fr}]
                            emit(run, ni, m, "ordering", "swap-rows")
                        if any(v["k"] == "n" for v in vals) and any(v["k"] != "n" for v in vals):
                            m = json.loads(json.dumps(n))
                            m["ords"][0][0]["nf"] = not m["ords"][0][0]["nf"]
                            emit(run, ni, m, "ordering", "flip-nulls-first")
                    for c in n["consts"][:1]:
                        m = json.loads(json.dumps(n))
                        ms = [x for x in m["streams"] if x["p"] == s["p"]][0]
                        fr = _flat(ms)
                        v = fr[-1][c["i"] - 1]
                        fr[-1][c["i"] - 1] = {"k": "n", "v": 0} if v["k"] != "n" else {"k": "i", "v": 7}
                        ms["batches"] = [{"ok": True, "rows": fr}]
                        emit(run, ni, m, "const", "change-constant")
                    for c in [c for c in n["classes"] if len(c) > 1][:1]:
                        m = json.loads(json.dumps(n))
                        ms = [x for x in m["streams"] if x["p"] == s["p"]][0]
                        fr = _flat(ms)
                        v = fr[0][c[1] - 1]
                        fr[0][c[1] - 1] = {"k": "n", "v": 0} if v["k"] != "n" else {"k": "i", "v": 7}
                        ms["batches"] = [{"ok": True, "rows": fr}]
                        emit(run, ni, m, "equiv", "break-equivalence")
                if n["hash"]:
                    ss = _streams_with_rows(n, 1)
                    others = [x for x in n["streams"] if ss and x["p"] != ss[0]["p"]]
                    if ss and others:
                        m = json.loads(json.dumps(n))
                        src = _flat(ss[0])[0]
                        dst = [x for x in m["streams"] if x["p"] == others[0]["p"]][0]
                        dst["batches"].append({"ok": True, "rows": [src]})
                        emit(run, ni, m, "hash", "row-in-wrong-partition")
            elif check == "C30":
                for s in n["streams"]:
                    if s["batches"] and n["w"] > 0:
                        m = json.loads(json.dumps(n))
                        m["streams"][n["streams"].index(s)]["batches"][0]["types"][0] = "Int16"
                        emit(run, ni, m, "type", "change-batch-type")
                        m = json.loads(json.dumps(n))
                        m["schema"][0]["n"] = False
                        m["streams"][n["streams"].index(s)]["batches"][0]["nulls"][0] = 1
                        emit(run, ni, m, "nonnull", "null-in-non-nullable")
                        m = json.loads(json.dumps(n))
                        m["streams"][n["streams"].index(s)]["batches"][0]["ok"] = False
                        emit(run, ni, m, "ncols", "wrong-column-count")
                        break
            elif check == "C29":
                for si, st in enumerate(n["stats"]):
                    of = [x for x in n["streams"] if st["p"] < 0 or x["p"] == st["p"]]
                    if not (n["full"] and all(b["ok"] for x in n["streams"] for b in x["batches"])
                            and len(of) == (n["np"] if st["p"] < 0 else 1)):
                        continue
                    obs = [r for x in of for r in _flat(x)]
                    if st["rows"]["x"] == 1 and n["full"]:
                        m = json.loads(json.dumps(n))
                        m["stats"][si]["rows"]["v"]["v"] += 1
                        emit(run, ni, m, "rows", "exact-rows-off-by-one")
                    for ci, c in enumerate(st["cols"]):
                        if c["nulls"]["x"] == 1 and n["full"]:
                            m = json.loads(json.dumps(n))
                            m["stats"][si]["cols"][ci]["nulls"]["v"]["v"] += 1
                            emit(run, ni, m, "nulls", "exact-nulls-off-by-one")
                        if c["max"]["x"] == 1 and c["max"]["v"]["k"] == "i" and any(r[ci]["k"] != "n" for r in obs):
                            m = json.loads(json.dumps(n))
                            m["stats"][si]["cols"][ci]["max"]["v"]["v"] += 1
                            emit(run, ni, m, "max", "exact-max-off-by-one")
            elif check == "C53":
                if ni == 0 and run.get("spill"):
                    r3 = json.loads(json.dumps(run))
                    r3["spill"][0]["spilled_rows"] += 1
                    if kinds["spill-metric-off-by-one"] < per_kind:
                        kinds["spill-metric-off-by-one"] += 1
                        r3["id"] = f"MUT:spill-metric-off-by-one:{len(out)}:{run['id']}"
                        out.append((r3, "spilled_rows", 0))
                if ni == 0 and any(a["full"] and a["has"] for a in run.get("analyze", [])):
                    r3 = json.loads(json.dumps(run))
                    a = next(a for a in r3["analyze"] if a["full"] and a["has"])
                    a["rv"] += 1
                    if kinds["analyze-rendering-off-by-one"] < per_kind:
                        kinds["analyze-rendering-off-by-one"] += 1
                        r3["id"] = f"MUT:analyze-rendering-off-by-one:{len(out)}:{run['id']}"
                        out.append((r3, "analyze_rows", [n2["id"] for n2 in r3["nodes"]].index(a["id"]) if a["id"] in [n2["id"] for n2 in r3["nodes"]] else 0))
                if n["full"] and n["metrics"]["has"] and len(n["metrics"]["per"]) >= 2 and n["metrics"]["per"][0]["n"] > 0 \
                        and sum(e["n"] for e in n["metrics"]["per"]) == n["metrics"]["rows"]:
                    m = json.loads(json.dumps(n))
                    m["metrics"]["per"][0]["n"] -= 1
                    m["metrics"]["per"][1]["n"] += 1
                    emit(run, ni, m, "part_rows", "rows-counted-on-the-wrong-partition")
                if n["full"] and n["metrics"]["has"]:
                    m = json.loads(json.dumps(n))
                    m["metrics"]["rows"] += 1
                    emit(run, ni, m, "output_rows", "metric-off-by-one")
                    if any(b["n"] > 0 for s in n["streams"] for b in s["batches"]):
                        m = json.loads(json.dumps(n))
                        m["metrics"]["rows"] *= 2
                        emit(run, ni, m, "output_rows", "metric-counted-twice")
        if len(kinds) and all(v >= per_kind for v in kinds.values()) and len(kinds) >= {"C28": 5, "C30": 3, "C29": 3, "C53": 5}[check]:
            break
    return out, dict(kinds)


def children(run, node):
    return [n for n in run["nodes"] if n["parent"] == node["id"]]


def origin(run, node, check, kinds):
    """Lowest node below `node` (following violating children) that violates a fact of `kinds`: the place where
    a false declaration enters the plan; nodes above merely propagate it."""
    bad = {b["n"] for b in run["rust_bad"][check] if b["f"] in kinds}
    while True:
        kids = [c for c in children(run, node) if c["id"] in bad]
        if not kids:
            return node
        node = kids[0]


def origin_at(run, node, check, kinds, p):
    """As `origin`, following violations about the same partition scope (whole node: p = -1, else per partition)."""
    whole = p < 0 or node["np"] == 1          # a single-partition node's partition 0 is its whole output
    while True:
        bad = {b["n"] for b in run["rust_bad"][check] if b["f"] in kinds and ((b["p"] == p if p == -2 else b["p"] != -2) and (whole or b["p"] >= 0))}
        kids = [c for c in children(run, node) if c["id"] in bad]
        if not kids:
            return node, whole
        node = kids[0]
        if whole and node["np"] > 1 and not any(b["n"] == node["id"] and b["p"] < 0 and b["f"] in kinds for b in run["rust_bad"][check]):
            whole = False


# ----------------------------------------------------------------------------- judging
def judge(ctx, check, runs, meta, known_key=None, extra_violations=None, chunk=None):
    """Validate the recorded runs with TLC under the invariants of `check`, confirm every rejection with the
    harness's direct re-check, report.  Returns a dict of measured counts for the evidence."""
    status = collections.Counter(r["status"] for r in runs)
    for r in runs:
        if r["status"] in ("tool_err",):
            raise ToolError(f"recorder: {r['id']}: {r.get('err')}")
    ok = [r for r in runs if r["status"] == "ok"]
    # queries whose result is not a function of the input (ties under ROWS frames / ranking, LIMIT without a total
    # order, order-dependent aggregates, float summation order) are exempt from the inertness comparison
    nondet = re.compile(r" OVER |LIMIT|OFFSET|DISTINCT ON|array_agg|string_agg|first_value|avg\(|stddev|var_pop|corr\(|median|approx_|EXPLAIN|generate_series|range\(", re.I)
    differs = [r for r in ok if not r["inert"]]
    not_inert = [r for r in differs if not r["has_fetch"] and not nondet.search(meta[r["id"]]["sql"])]
    inert_err = [r for r in runs if r["status"] == "inert_err"]
    if not_inert or inert_err:
        bad = (not_inert + inert_err)[0]
        raise ToolError(f"observers not inert: run {bad['id']} gives a different result when instrumented "
                        f"({len(not_inert)} result differences, {len(inert_err)} one-sided failures): {bad.get('err', '')[:300]}")
    logs = [slim(r, check) for r in ok]
    rng = random.Random(ctx.seed + 4242)
    muts, mkinds = mutants(check, logs, rng)
    rej, judged = tlc_validate(ctx, check, logs + [m[0] for m in muts], f"validate-{check}")
    # the corrupted logs must be rejected at the corrupted node with the expected fact
    missed = [m[0]["id"] for m in muts if not any(b["f"] == m[1] and (b["n"] == m[0]["nodes"][m[2]]["id"] or m[1] in ("spilled_rows",))
                                                 for b in rej.get(m[0]["id"], []))]
    if missed:
        raise ToolError(f"self-test: the specification accepted corrupted logs: {missed[:3]}")
    confirmed = unconfirmed = rust_only = 0
    samples = []
    for r in ok:
        tb = {bkey(b): b for b in rej.get(r["id"], [])}
        rb = {bkey(b): b for b in r["rust_bad"][check]}
        for k in set(tb) | set(rb):
            if k in tb and k in rb:
                confirmed += 1
                node = r["nodes"][k[0]]
                info = {"run": r["id"], "node": k[0], "operator": node["detail"], "partition": k[1], "fact": k[2], "index": k[3],
                        "declared": {"orderings": node["ords"], "output_ordering": node["outord"], "classes": node["classes"],
                                     "constants": node["consts"], "partitioning": node["part"], "exprs": node["exprs"],
                                     "schema": node["schema"], "stats": [s for s in node["stats"] if s["p"] == k[1]][:2],
                                     "metrics": node["metrics"]},
                        "observed_streams": node["streams"], "plan": r["plan"]}
                key = known_key(r, node, k) if known_key else None
                report_violation(ctx, {"line": {"id": r["id"], "sql": meta[r["id"]]["sql"], "tables": meta[r["id"]]["tables"],
                                                "cfg": dict(CONFIGS.get(meta[r["id"]]["cfg"], {}), name=meta[r["id"]]["cfg"])},
                                       "rejected": info,
                                       "oracle": f"OperatorContract rejects fact '{k[2]}' (index {k[3]}) of node {k[0]} "
                                                 f"[{node['detail'][:120]}] partition {k[1]}; confirmed on the recorded data"}, key=key)
            elif k in tb:
                unconfirmed += 1
            else:
                rust_only += 1
    if unconfirmed or rust_only:
        raise ToolError(f"specification and direct re-check disagree ({unconfirmed} TLC-only, {rust_only} Rust-only rejections)")
    return {"status": dict(status), "runs_validated": len(ok), "inertness_compared": len(ok) - (len(differs) - len(not_inert)),
            "nondeterministic_queries_with_different_result": len(differs) - len(not_inert), "nodes_judged": judged - sum(len(m[0]["nodes"]) for m in muts),
            "tlc_states": judged, "rejections_confirmed": confirmed,
            "selftest_corrupted_logs_rejected": len(muts), "selftest_kinds": mkinds}


def filter_singleton_hazards(runs):
    """FilterExec nodes whose input reports Exact min == max for a column the predicate does not mention while the filter's
    output mixes NULL and that value in one partition: where a constant derived from statistics alone would be wrong."""
    hz = collections.Counter()
    for r in runs:
        for nd in r.get("nodes", []):
            if nd["name"] != "FilterExec":
                continue
            kids = children(r, nd)
            if len(kids) != 1 or kids[0]["w"] != nd["w"]:
                continue
            for st in kids[0]["stats"]:
                if st["p"] != -1:
                    continue
                for ci, c in enumerate(st["cols"]):
                    if c["min"]["x"] == 1 and c["max"]["x"] == 1 and c["min"]["v"] == c["max"]["v"] and ci < nd["w"]:
                        name = kids[0]["exprs"][ci].split("@")[0]
                        if name in nd["detail"]:
                            continue
                        for s in nd["streams"]:
                            if {row[ci]["k"] for b in s["batches"] for row in b["rows"]} >= {"n", "i"}:
                                hz[r["cfg"] + ":" + name] += 1
                                break
    return dict(hz)


def fact_counts(runs):
    """How many declared facts met data (per kind), and how many had enough data to be falsifiable."""
    c = collections.Counter()
    for r in runs:
        for n in r.get("nodes", []):
            rows = [sum(len(b["rows"]) for b in s["batches"]) for s in n["streams"]]
            many = sum(1 for x in rows if x >= 2)
            c["orderings"] += len(n["ords"]) * len(rows)
            c["orderings_on_2+_rows"] += len(n["ords"]) * many
            c["equivalence_classes"] += sum(1 for k in n["classes"] if len(k) > 1) * len(rows)
            c["constants"] += len(n["consts"]) * len(rows)
            c["constants_on_2+_rows"] += len(n["consts"]) * many
            c["hash_partitionings"] += 1 if n["hash"] else 0
            c["hash_partitionings_2+_nonempty_partitions"] += 1 if n["hash"] and sum(1 for x in rows if x) >= 2 else 0
            c["exact_statistics"] += sum((s["rows"]["x"] + sum(k[f]["x"] for k in s["cols"] for f in ("nulls", "min", "max", "sum", "ndv")))
                                         for s in n["stats"])
            c["batches"] += sum(len(s["batches"]) for s in n["streams"])
            c["nodes_consumed_in_full"] += 1 if n["full"] else 0
            c["nodes_with_output_rows_metric"] += 1 if n["metrics"]["has"] else 0
            c["unevaluable_declared_exprs"] += len(n["uneval"])
    return dict(c)
