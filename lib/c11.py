"""C11 — hash partition index = hash mod partition count.

1. TLC checks spec/text/FastMod.tla (StrengthReducedU64 transcribed, parametric in the word width W):
   Index(d, n) = n % d, q = n div d, no underflow / truncation, M = ceil(2^2W / d) fits a double word, and the
   limb/carry expression equals the high half of the exact product -- exhaustively for every 0 < d < 2^W,
   0 <= n < 2^W, W = 1..8 (quick) / 1..10 (thorough).  Seeded transcription errors (MUT) must each produce a
   counterexample (the theorems are not vacuous).
2. Binding at W = 64 (the code): TLC-enumerated small-width cases, structured boundary values x structured
   divisors, seeded random pairs through the cfg accessor `verif_strength_reduced_remainder` (private
   `StrengthReducedU64::new` + `quotient`), the production `partition_indices` loop, and the production
   `BatchPartitioner` hash path end to end; oracle = the specification's top-level definition `%`.
"""
import json, os, re
from common import *

NAMED = "IndexIsMod MaskIsMod ReciprocalFits QuotientExact NoTruncation NoUnderflow LimbsAreHighHalf CarryIsBit Emit"
MUTANTS_Q = ["recip_floor", "recip_plus2", "no_carry"]
MUTANTS_T = ["recip_floor", "recip_plus2", "no_carry", "carry_low_only", "mask_d"]


def cfg(ctx, name, ws, inv, emit=False, mut="none"):
    p = ctx.path(name + ".cfg")
    open(p, "w").write(f"CONSTANTS WS = {{{','.join(map(str, ws))}}} EMIT = {'TRUE' if emit else 'FALSE'} MUT = \"{mut}\"\n"
                       f"SPECIFICATION Spec\nINVARIANTS {inv}\nCHECK_DEADLOCK FALSE\n")
    return p


def run(ctx):
    build("vtext")
    if ctx.replay:
        run_harness(ctx, "vtext", ["c11", "--replay", ctx.replay, "--out", ctx.path("res.json")])
        res = json.load(open(ctx.path("res.json")))
        for v in res["violations"]:
            report_violation(ctx, v)
        write_evidence(ctx, "model_checking", {"states": 1, "transitions": 1, "traces_validated_against_impl": res["evaluations"],
                                               "samples": [json.load(open(ctx.replay)).get("case")]})
        return
    # 1. the algorithm schema at small widths
    mc = []
    states = transitions = 0
    r = tlc_must_pass(ctx, "text/FastMod", cfg=cfg(ctx, "named", [1, 2, 3, 4, 5, 6], NAMED, emit=True), workers=4, timeout=900, tag="named")
    cases = tlc_cases(r.out)
    if len(cases) != sum((2 ** w - 1) * 2 ** w for w in range(1, 7)):
        raise ToolError(f"TLC printed {len(cases)} cases, expected every (d, n) pair of widths 1..6")
    mc.append({"widths": [1, 2, 3, 4, 5, 6], "invariants": NAMED.split()[:-1], "distinct_states": r.distinct, "generated": r.generated, "wall_s": round(r.wall, 1)})
    states += r.distinct
    transitions += r.generated
    big = [7, 8] if ctx.quick else [7, 8, 9, 10]
    r2 = tlc_must_pass(ctx, "text/FastMod", cfg=cfg(ctx, "all", big, "All"), workers=4 if ctx.quick else 8, timeout=3000, tag="all")
    want = sum((2 ** w - 1) * (2 ** w + 1) for w in big)
    if r2.distinct != want:
        raise ToolError(f"TLC explored {r2.distinct} states at widths {big}, expected {want}")
    mc.append({"widths": big, "invariants": ["All"], "distinct_states": r2.distinct, "generated": r2.generated, "wall_s": round(r2.wall, 1)})
    states += r2.distinct
    transitions += r2.generated
    # seeded transcription errors must be refuted by TLC
    selftest = {}
    for m in (MUTANTS_Q if ctx.quick else MUTANTS_T):
        rm = tlc(ctx, "text/FastMod", cfg=cfg(ctx, "mut-" + m, [2, 3, 4, 5, 6], "IndexIsMod", mut=m), workers=2, timeout=600, tag="mut-" + m)
        if "IndexIsMod" not in rm.invariant_violated:
            sys.stderr.write(rm.out[-3000:])
            raise ToolError(f"vacuity: the seeded transcription error '{m}' was not refuted by TLC")
        st = dict(re.findall(r"/\\ (\w+) = (\d+)", rm.out)[-3:])
        selftest[m] = {"counterexample": {k: int(v) for k, v in st.items()}}
    # 2. the code (W = 64)
    write_ndjson(ctx.path("cases.ndjson"), cases)
    summary, _ = run_harness(ctx, "vtext", ["c11", "--cases", ctx.path("cases.ndjson"), "--out", ctx.path("res.json")], timeout=3000)
    res = json.load(open(ctx.path("res.json")))
    for v in res["violations"][:10]:
        report_violation(ctx, v)
    if res["carry_one"] == 0 or res["carry_zero"] == 0 or res["power_of_two_divisor"] == 0:
        raise ToolError("vacuity: a branch of the algorithm (carry 0 / carry 1 / mask) was never driven")
    st = res["stats"]
    if not st.get("batch_partitioner_reuse_batches") or not st.get("partition_indices_rows") or not st.get("batch_partitioner_rows"):
        raise ToolError("vacuity: a production path (partition_indices / BatchPartitioner / reused BatchPartitioner) was never driven")
    sens = res["inputs_that_would_expose_a_transcribed_mutant"]
    if min(sens.values()) == 0:
        raise ToolError(f"the 64-bit input set would not expose one of the transcribed mutants: {sens}")
    write_evidence(ctx, "model_checking", {
        "states": states, "transitions": transitions,
        "traces_validated_against_impl": res["evaluations"],
        "samples": res["samples"][:3] + cases[-2:],
        "exhaustive": True,
        "model_checking_runs": mc,
        "model_selftest_seeded_errors_refuted": selftest,
        "evaluations": res["evaluations"],
        "distinct_nontrivial": res["distinct_nontrivial"],
        "rule": "a case is a pair (divisor, value) driven through the real StrengthReducedU64 (accessor, partition_indices loop or BatchPartitioner); non-trivial = divisor not a power of two and value >= divisor; distinct = distinct pairs",
        "branch_coverage_64bit": {"carry_one": res["carry_one"], "carry_zero": res["carry_zero"], "power_of_two_divisor": res["power_of_two_divisor"]},
        "inputs_that_would_expose_a_transcribed_mutant": sens,
        "harness_stats": res["stats"],
        "n_violations": res["n_violations"],
        "tlaps": "not attempted in this run",
    }, assumptions=[
        "TLC's integers are 32-bit: the algorithm schema is exhausted at W <= 8 (quick) / 10 (thorough); the 64-bit code is sampled against `%` (structured boundaries + seeded random), not proved",
        "verif_strength_reduced_remainder re-states `value - quotient * divisor` with wrapping arithmetic around the real `new` and `quotient`; the production subtraction/indexing is driven through verif_partition_indices and BatchPartitioner::partition_iter (a panic there is reported as a violation)",
        "a BatchPartitioner is also reused over six consecutive batches of different sizes (one of them empty), alternating partition_iter and the callback API partition: state carried between batches (index vectors, hash buffer) must be reset",
        "the row hash is taken from create_hashes(keys, REPARTITION_RANDOM_STATE): the property is about the index given the hash",
        "binding self-test: the harness also evaluates five transcribed mutants (reciprocal -1/+1, dropped carry, low-only carry, mask = d) on every generated input and requires each to be exposed by at least one input",
    ])
