"""C33 — expression evaluation strategies agree with row-by-row SQL semantics.

TLC (spec/sem/ExprGen.tla) generates typed expression ASTs — seeded random trees plus enumerated shapes that select
every InList strategy, every CaseExpr evaluation method, CASE-guarded failing branches and the LIKE/ILIKE/SIMILAR TO
family — and evaluates each with the TLA+ reference semantics (spec/lib/Expr.tla) on EVERY row of an exhaustive
small-scope table.  The Rust driver (harness/vexpr c33) builds the physical expression and evaluates it on the whole
table, on slices/chunks of many sizes, through evaluate_selection under many masks and on the selected rows alone;
every per-row result (value, NULL-ness, data type) must equal the reference; where the reference is ERR (division
by zero, checked overflow, failing cast) on a row in scope the engine may fail or succeed."""
import json, collections
from common import *
import exprcases


def plan_for(ctx):
    if ctx.quick:
        return [dict(fam="rand", tbl="A", n=240, d=3), dict(fam="rand", tbl="B", n=130, d=3),
                dict(fam="inlist", tbl="A", n=70), dict(fam="inlist", tbl="B", n=60),
                dict(fam="case", tbl="A", n=80), dict(fam="case", tbl="B", n=50),
                dict(fam="guard", tbl="A", n=40), dict(fam="guard", tbl="B", n=30),
                dict(fam="like", tbl="A", n=70), dict(fam="rxcore", tbl="C", n=100000), dict(fam="rx", tbl="C", n=40)]
    return [dict(fam="rand", tbl="A", n=2500, d=3), dict(fam="rand", tbl="A", n=1000, d=4), dict(fam="rand", tbl="A", n=500, d=2),
            dict(fam="rand", tbl="B", n=1500, d=3), dict(fam="rand", tbl="B", n=500, d=4),
            dict(fam="inlist", tbl="A", n=100000), dict(fam="inlist", tbl="B", n=100000),
            dict(fam="case", tbl="A", n=100000), dict(fam="case", tbl="B", n=100000),
            dict(fam="guard", tbl="A", n=100000), dict(fam="guard", tbl="B", n=100000),
            dict(fam="like", tbl="A", n=100000), dict(fam="rxcore", tbl="C", n=100000), dict(fam="rx", tbl="C", n=2500)]


def finding_key(case, r):
    """Narrow keys of genuine engine defects listed in known_findings.json (anything else raises)."""
    fails = r["fails"]
    if (all(f.get("batch_rows") == 0 and "Divide by zero" in (f.get("engine_error") or "") for f in fails)
            and "CASE WHEN" in (r.get("physical") or "") and all(x != ERRCODE for x in case["exp"])):
        return "case-then-evaluated-on-empty-batch"
    return None


ERRCODE = -999999


def run(ctx):
    build("vexpr")
    if ctx.replay:
        rp = json.load(open(ctx.replay))
        header, cases, states, generated = rp["header"], [rp["case"]], 1, 1
    else:
        header, cases, r = exprcases.generate(ctx, plan_for(ctx), ctx.seed, workers=4 if ctx.quick else 8)
        states, generated = r.distinct, r.generated
    inp, out = ctx.path("c33.in.ndjson"), ctx.path("c33.out.ndjson")
    write_ndjson(inp, [header] + cases)
    summary, _ = run_harness(ctx, "vexpr", ["c33", "--in", inp, "--out", out, "--threads", 4 if ctx.quick else 8], timeout=3000)
    res = read_ndjson(out)
    by = {(c["p"], c["id"]): c for c in cases}
    plan_errors = []
    for r in res:
        c = by[(r["p"], r["id"])]
        if "plan_error" in r:
            plan_errors.append({"expr": exprcases.show(c["e"], header), "error": r["plan_error"][:300]})
            continue
        report_violation(ctx, {"case": c, "header": header, "expr": exprcases.show(c["e"], header), "physical": r.get("physical"),
                               "string_encoding": r.get("string_encoding", "utf8"),
                               "fails": r["fails"],
                               "oracle": "per-row engine result differs from the TLA+ reference Expr.Eval (or the engine raised where no row in scope errs)"},
                         key=finding_key(c, r))
    if plan_errors and len(plan_errors) * 20 > len(cases):
        raise ToolError(f"{len(plan_errors)} of {len(cases)} generated expressions could not be planned: {plan_errors[:3]}")
    nontrivial = set()
    ops = collections.Counter()
    fams = collections.Counter()
    samples = []
    for c in cases:
        vals = {x for x in c["exp"] if x != header["errcode"]}
        fams[f"{c['fam']}/{c['tbl']}"] += 1
        for o in exprcases.node_ops(c["e"]):
            ops[o] += 1
        if len(vals) >= 2:
            key = json.dumps(c["e"], sort_keys=True)
            if key not in nontrivial and len(samples) < 3 and len(key) < 700:
                samples.append({"expr": exprcases.show(c["e"], header), "table": c["tbl"], "kind": c["k"],
                                "reference_first_rows": c["exp"][:25]})
            nontrivial.add(key)
    strategies = (summary or {}).get("strategies", {})
    if not ctx.replay:
        missing = [m for m in ("case:WithExprScalarLookupTable", "case:WithExpression", "case:InfallibleExprOrNull", "case:ScalarOrScalar",
                               "case:ExpressionOrExpression", "case:NoExpression", "inlist:static-filter", "inlist:dynamic", "like", "cast", "try_cast")
                   if strategies.get(m, 0) == 0]
        if missing:
            raise ToolError(f"vacuous run: evaluation strategies never exercised: {missing}")
    write_evidence(ctx, "exploration", {
        "evaluations": (summary or {}).get("evaluations", 0), "distinct_nontrivial": len(nontrivial),
        "rule": "case = expression AST generated by TLC from ExprGen (seeded random typed trees + enumerated IN-list / CASE / guard / LIKE shapes) with its "
                "reference value on every row of the exhaustive table computed by TLC (Expr.Eval); non-trivial = distinct AST whose reference column takes "
                ">= 2 distinct non-error values; evaluation = one evaluate()/evaluate_selection() call of the physical expression on one batch layout, "
                "all rows in scope compared",
        "samples": samples, "cases": len(cases), "cases_by_family": dict(fams), "rows_compared": (summary or {}).get("rows_compared"),
        "tlc_states": states, "tlc_generated": generated,
        "engine_errors_where_reference_errs": (summary or {}).get("engine_errors_where_reference_errs"),
        "engine_succeeded_where_reference_errs": (summary or {}).get("engine_succeeded_where_reference_errs"),
        "strategies_exercised": strategies, "node_coverage": dict(sorted(ops.items())),
        "unplannable_expressions": plan_errors[:5], "unplannable_count": len(plan_errors),
        "string_encoding_variant_cases": (summary or {}).get("string_encoding_variant_cases"),
        "string_encoding_variant_plan_errors": (summary or {}).get("string_encoding_variant_plan_errors"),
    }, assumptions=[
        "scope: table A = c1,c2 BIGINT {NULL,-1,0,1,2} x c3 VARCHAR {NULL,a,ab,b} x c4 BOOLEAN (300 rows, exhaustive); table B = c1,c2 TINYINT "
        "{NULL,-128,-1,0,1,127} x c3 SMALLINT {NULL,-32768,1,32767} x c4 INT {NULL,1,300} (432 rows, exhaustive)",
        "where the reference value of a row in scope is ERR (division by zero, checked overflow of the expression's integer width incl. MIN/-1, MIN%-1, "
        "-MIN, abs(MIN), failing CAST) the engine may fail or succeed; unselected rows are not compared",
        "the AST->Expr converter (harness/vexpr/src/ast.rs) is trusted; physical expressions are built with SessionContext::create_physical_expr "
        "(type coercion only, no simplification)",
    ])
