"""C41 — bound query parameters behave like the equivalent literals.

Cases come from the TLC program generator (spec/gen/PlanGen.tla via sqlcases.generate).  Literals of each plan (in
filters, projections, IN lists, join conditions, aggregate arguments, subqueries) and LIMIT/OFFSET counts are replaced
by placeholders, the removed values (NULL included, and with some probability a different value of the same type than
the one written in the query) become the parameter vector.  The specification defines binding as substitution
(spec/sem/Subst.tla): TLC (spec/sem/ParamTrace.tla) evaluates EvalPlan(Subst(plan, params)) and prints the reference
result.  The engine runs the query (a) as SQL text with the values written as literals, (b) PREPARE (declared and
inferred parameter types) + EXECUTE, (c) ctx.sql(..).with_param_values(..) positional and named; every bound execution
must satisfy the reference under the comparison mode the query admits.  Witness confirmation (DESIGN.md §6): a
violation is raised only if the literal execution of the same query does satisfy the reference (otherwise the
disagreement is C01's subject)."""
import json, copy, collections, random
from common import *
import sqlcases

CMP = {"=", "<>", "<", "<=", ">", ">=", "isdistinct", "isnotdistinct"}
SQLT = {"i": "BIGINT", "s": "VARCHAR", "b": "BOOLEAN"}
POOL = {"i": [{"k": "i", "v": v} for v in (-1, 0, 1, 2)], "s": [{"k": "s", "v": v} for v in (1, 2, 3)],
        "b": [{"k": "b", "v": v} for v in (0, 1)]}


def parametrize(case, rng):
    """Returns (pplan, params) — pplan carries `param` nodes (with their SQL text in "ph"/"ph_named") and
    pskip/pfetch on limit nodes; the literal query is Subst(pplan, params)."""
    plan = copy.deepcopy(case["plan"])
    params = []

    def new_param(kind, value, infer_ok):
        # mostly keep the value written in the query, sometimes bind another value of the type (incl. NULL)
        r = rng.random()
        v = value if r < 0.55 else ({"k": "n", "v": 0} if r < 0.70 else rng.choice(POOL[kind]))
        params.append({"v": v, "t": kind})
        n = len(params)
        bare = infer_ok and rng.random() < 0.6
        return {"op": "param", "i": n, "t": kind,
                "ph": f"${n}" if bare else f"CAST(${n} AS {SQLT[kind]})",
                "ph_named": f"$p{n}" if bare else f"CAST($p{n} AS {SQLT[kind]})", "bare": bare}

    def kind_of(e):
        return e.get("t") or {"i": "i", "s": "s", "b": "b"}.get(e["v"]["k"])

    def walk_e(e, infer_ok=False):
        op = e["op"]
        if op == "lit":
            k = kind_of(e)
            if k in SQLT and rng.random() < 0.7:
                return new_param(k, e["v"], infer_ok)
            return e
        if op in ("col", "outer"):
            return e
        if op == "bin":
            cmp_ = e["f"] in CMP
            l_lit, r_lit = e["l"]["op"] == "lit", e["r"]["op"] == "lit"
            e["l"] = walk_e(e["l"], cmp_ and not r_lit)
            e["r"] = walk_e(e["r"], cmp_ and not l_lit)
            return e
        if op == "un":
            e["e"] = walk_e(e["e"])
            return e
        if op == "in":
            needle_lit = e["e"]["op"] == "lit"
            e["e"] = walk_e(e["e"])
            e["list"] = [walk_e(x, not needle_lit) for x in e["list"]]
            return e
        if op == "between":
            needle_lit = e["e"]["op"] == "lit"
            e["e"] = walk_e(e["e"])
            e["lo"] = walk_e(e["lo"], not needle_lit)
            e["hi"] = walk_e(e["hi"], not needle_lit)
            return e
        if op == "case":
            e["whens"] = [[walk_e(c), walk_e(t)] for c, t in e["whens"]]
            e["else"] = walk_e(e["else"])
            return e
        if op == "coalesce":
            e["args"] = [walk_e(x) for x in e["args"]]
            return e
        if op == "nullif":
            e["l"], e["r"] = walk_e(e["l"]), walk_e(e["r"])
            return e
        if op == "insub":
            e["e"] = walk_e(e["e"])
            e["sub"] = walk_p(e["sub"])
            return e
        if op in ("exists", "scalarsub"):
            e["sub"] = walk_p(e["sub"])
            return e
        raise ToolError(f"parametrize: unknown expression node {op}")

    def walk_p(p):
        op = p["op"]
        if op == "scan":
            return p
        if op == "filter":
            p["src"] = walk_p(p["src"])
            p["p"] = walk_e(p["p"])
        elif op == "project":
            p["src"] = walk_p(p["src"])
            p["es"] = [walk_e(x) for x in p["es"]]
        elif op == "join":
            p["l"], p["r"] = walk_p(p["l"]), walk_p(p["r"])
            p["on"] = walk_e(p["on"])
        elif op == "agg":
            p["src"] = walk_p(p["src"])
            p["keys"] = [walk_e(x) for x in p["keys"]]
            for a in p["aggs"]:
                if a["f"] != "countstar":
                    a["e"] = walk_e(a["e"])
        elif op in ("distinct", "sort"):
            p["src"] = walk_p(p["src"])
        elif op == "setop":
            p["l"], p["r"] = walk_p(p["l"]), walk_p(p["r"])
        elif op == "limit":
            p["src"] = walk_p(p["src"])
            p["pskip"] = p["pfetch"] = 0
            if p["fetch"] >= 0 and rng.random() < 0.6:
                v = p["fetch"] if rng.random() < 0.6 else rng.choice([0, 1, 2, 3])
                params.append({"v": {"k": "i", "v": v}, "t": "i"})
                p["pfetch"] = len(params)
                p["fetch_sql"], p["fetch_named"] = f"${len(params)}", f"$p{len(params)}"
            if rng.random() < 0.5:
                v = p["skip"] if rng.random() < 0.6 else rng.choice([0, 1, 2])
                params.append({"v": {"k": "i", "v": v}, "t": "i"})
                p["pskip"] = len(params)
                p["skip_sql"], p["skip_named"] = f"${len(params)}", f"$p{len(params)}"
        else:
            raise ToolError(f"parametrize: unknown plan node {op}")
        return p

    return walk_p(plan), params


def subst_py(x, params):
    """The literal query = the parameterised plan with values written back (rendering only; the reference result
    comes from TLC's Subst.EvalBound)."""
    if isinstance(x, dict):
        if x.get("op") == "param":
            return {"op": "lit", "v": params[x["i"] - 1]["v"], "t": x["t"]}
        y = {k: subst_py(v, params) for k, v in x.items() if k not in ("fetch_sql", "skip_sql", "fetch_named", "skip_named")}
        if x.get("op") == "limit":
            if x["pfetch"]:
                y["fetch"] = params[x["pfetch"] - 1]["v"]["v"]
            if x["pskip"]:
                y["skip"] = params[x["pskip"] - 1]["v"]["v"]
        return y
    if isinstance(x, list):
        return [subst_py(v, params) for v in x]
    return x


def named(x):
    if isinstance(x, dict):
        y = {k: named(v) for k, v in x.items()}
        if x.get("op") == "param":
            y["ph"] = x["ph_named"]
        if "fetch_named" in x:
            y["fetch_sql"] = x["fetch_named"]
        if "skip_named" in x:
            y["skip_sql"] = x["skip_named"]
        return y
    if isinstance(x, list):
        return [named(v) for v in x]
    return x


def render_plan(case, plan):
    c = dict(case, plan=plan)
    sqlcases.render(c)
    return c["sql"], c["tables"]


def strip(x):
    """Plan as handed to TLC: only the fields the specification knows."""
    if isinstance(x, dict):
        return {k: strip(v) for k, v in x.items() if k not in ("ph", "ph_named", "bare", "fetch_sql", "skip_sql", "fetch_named", "skip_named")}
    if isinstance(x, list):
        return [strip(v) for v in x]
    return x


def run(ctx):
    build("vexpr")
    if ctx.replay:
        rp = json.load(open(ctx.replay))
        pcases = [rp["case"]]
        gen_states = 0
    else:
        n = 360 if ctx.quick else 3000
        gens = [(2, 2, ctx.seed + 4100), (3, 1, ctx.seed + 5100)] if ctx.quick else \
               [(2, 2, ctx.seed + 4100), (3, 2, ctx.seed + 5100), (4, 1, ctx.seed + 6100), (1, 3, ctx.seed + 7100)]
        pcases, gen_states = [], 0
        rng = random.Random(ctx.seed * 7919 + 41)
        for gi, (d, ed, sd) in enumerate(gens):
            cs, r = sqlcases.generate(ctx, n // len(gens), sd, depth=d, edepth=ed, tag=f"gen{gi}", workers=4 if ctx.quick else 8)
            gen_states += r.distinct
            for c in cs:
                pplan, params = parametrize(c, rng)
                if not params:
                    continue
                lit_plan = subst_py(pplan, params)
                sql_lit, tables = render_plan(c, lit_plan)
                sql_pos, _ = render_plan(c, pplan)
                sql_named, _ = render_plan(c, named(pplan))
                pcases.append({"id": f"g{gi}-{c['id']}", "db": c["db"], "schemas": c["schemas"], "tables": tables, "plan": strip(pplan),
                               "params": params, "sql": sql_lit, "sql_pos": sql_pos, "sql_named": sql_named,
                               "exec_args": [sqlcases.lit_sql(p["v"], p["t"]) for p in params],
                               "bare_params": sum(1 for x in _nodes(pplan) if x.get("op") == "param" and x.get("bare")),
                               "literal_plan": lit_plan, "orig_expect": c["expect"]})
    if not pcases:
        raise ToolError("no parameterised case was generated")
    # ---- reference: TLC evaluates the parameterised plan under binding = substitution
    trace = ctx.path("c41.cases.ndjson")
    write_ndjson(trace, [{"id": c["id"], "db": c["db"], "plan": c["plan"], "params": [p["v"] for p in c["params"]],
                          "expect": c["orig_expect"]} for c in pcases])
    tr = tlc(ctx, "sem/ParamTrace", cfg="sem/ParamTrace.cfg", workers=4 if ctx.quick else 8, env={"TRACE": trace}, xss="64m",
             deadlock=False, timeout=3000, tag="paramtrace")
    if not tr.ok:
        sys.stderr.write(tr.out[-4000:])
        raise ToolError("ParamTrace failed (specification-level)")
    ref = {v["id"]: v for v in tlc_cases(tr.out)}
    if len(ref) != len(pcases):
        raise ToolError(f"ParamTrace evaluated {len(ref)} of {len(pcases)} cases")
    # ---- engine
    inp, out = ctx.path("c41.in.ndjson"), ctx.path("c41.out.ndjson")
    write_ndjson(inp, [{k: c[k] for k in ("id", "tables", "sql", "sql_pos", "sql_named", "params", "exec_args")} for c in pcases])
    summary, _ = run_harness(ctx, "vexpr", ["c41", "--in", inp, "--out", out], timeout=3000)
    res = {r["id"]: r for r in read_ndjson(out)}
    stats = collections.Counter()
    nontrivial = set()
    samples = []
    same_as_original = 0
    for c in pcases:
        r = res[c["id"]]
        rf = ref[c["id"]]
        same_as_original += 1 if rf["same"] else 0
        cc = {"expect": rf["expect"], "universe": rf["universe"], "mode": sqlcases.Mode(c["literal_plan"]) if hasattr(sqlcases, "Mode") else mode_of(c["literal_plan"]),
              "plan": c["literal_plan"]}
        if "panic" in r:
            report_violation(ctx, {"case": c, "reference": rf, "oracle": "engine panicked: " + r["panic"][:300]})
            continue
        lit = r["modes"]["literal"]
        lit_msg = sqlcases.compare(cc, lit.get("rows", []), lit.get("err"))
        if lit_msg:
            stats["literal_query_disagrees_with_reference(C01 matter)"] += 1
            continue
        for mode, m in r["modes"].items():
            if mode == "literal":
                continue
            stats["executions"] += 1
            err = m.get("err")
            if err and mode == "prepare-inferred" and err.startswith("prepare:") and \
                    any(s_ in err for s_ in ("Prepare specifies", "Placeholder type", "placeholder type", "Cannot infer")):
                # PREPARE without declared types: the planner does not infer a type for every placeholder of this query
                # (e.g. a placeholder under CAST or in a select list) — no prepared statement exists; counted, not raised
                stats["prepare_inferred:types_not_inferable"] += 1
                continue
            msg = sqlcases.compare(cc, m.get("rows", []), err)
            if msg:
                key = None
                if mode.startswith("prepare-") and err and err.startswith("prepare: plan: Optimizer rule"):
                    key = "prepare-optimizes-unanalyzed-plan"
                report_violation(ctx, {"case": c, "mode": mode, "engine": m, "literal_execution": lit, "reference": rf,
                                       "oracle": f"{mode}: {msg} (the same query with the values written as literals satisfies the reference)"}, key=key)
            else:
                stats[f"ok:{mode}"] += 1
        if not rf["expect"]["err"] and rf["expect"]["rows"]:
            nontrivial.add(c["sql_pos"] + json.dumps(c["params"]))
            if len(samples) < 2 and len(c["sql_pos"]) < 600:
                samples.append({"sql": c["sql_pos"], "params": c["exec_args"], "reference": rf["expect"]})
    feats = collections.Counter()
    for c in pcases:
        for f in sqlcases.features_of(c["plan"]):
            feats[f] += 1
    write_evidence(ctx, "exploration", {
        "evaluations": stats["executions"], "distinct_nontrivial": len(nontrivial),
        "rule": "case = <database, parameterised plan, parameter vector>: a PlanGen case whose literals / LIMIT / OFFSET counts are replaced by placeholders; "
                "reference result = TLC's EvalPlan(Subst(plan, params)); evaluation = one bound execution (PREPARE typed / PREPARE inferred + EXECUTE, "
                "with_param_values positional / named); non-trivial = distinct <SQL, params> whose reference result is non-empty and not an error",
        "samples": samples or [{"note": "no short non-trivial case"}], "cases": len(pcases), "generator_states": gen_states,
        "tlc_states": tr.distinct, "tlc_generated": tr.generated,
        "params_total": sum(len(c["params"]) for c in pcases), "null_params": sum(1 for c in pcases for p in c["params"] if p["v"]["k"] == "n"),
        "bare_placeholders": sum(c["bare_params"] for c in pcases),
        "limit_offset_params": sum(1 for c in pcases for x in _nodes(c["plan"]) if x.get("op") == "limit" and (x["pskip"] or x["pfetch"])),
        "bound_result_equals_original_query_result": same_as_original,
        "outcomes": dict(stats), "operator_coverage": dict(sorted(feats.items())),
    }, assumptions=[
        "binding = substitution (spec/sem/Subst.tla); the parameter vector keeps the written value (55%), NULL (15%) or another value of the type (30%)",
        "placeholders are written bare ($n, type inferred from the comparison / IN / BETWEEN context) or as CAST($n AS type); PREPARE without declared "
        "types that the planner rejects because it cannot infer every placeholder type is counted, not raised (PREPARE with declared types and both "
        "with_param_values forms must succeed)",
        "a violation is raised only if the literal execution of the same query satisfies the reference (otherwise C01's subject)",
        "where the reference result is an evaluation error the engine may fail or succeed",
    ])


def _nodes(x):
    if isinstance(x, dict):
        yield x
        for v in x.values():
            yield from _nodes(v)
    elif isinstance(x, list):
        for v in x:
            yield from _nodes(v)


def mode_of(p):
    if p["op"] == "sort":
        return "ordered"
    if p["op"] == "limit":
        return "topk" if p["src"]["op"] == "sort" else "subset"
    return "bag"
