"""C23 -- interval arithmetic and constraint propagation are sound.

1. TLC model-checks a transcription of the intended interval rules (spec/facts/IntervalRules.tla) against
   the value-level meaning in Interval.tla on a 4-bit toy type, all interval pairs, all operators.
2. Inputs: TLC enumerates interval pairs over the edge-endpoint set (IntervalGen.tla, seeded sample in the
   quick tier, all pairs in the thorough tier); the driver adds seeded random small / near-edge / mixed-type
   intervals and random expression trees (depth <= 3, 1-2 columns).
3. The Rust driver (vfacts c23) calls the real API (Interval::*, apply_operator, satisfy_greater,
   propagate_arithmetic/comparison, PhysicalExpr::{evaluate_bounds,propagate_constraints},
   ExprIntervalGraph::{evaluate_bounds,update_ranges}, analysis::analyze) and records <op, inputs, result>.
4. B2, semantic form: TLC (IntervalTrace.tla) decides every event exhaustively over all values of the
   input intervals (Int8/UInt8 full grid; Int16/UInt16 on bounded intervals).  A rejection carries a witness
   pair, which the driver re-evaluates with the engine's own expression evaluator before VIOLATION is raised.
"""
import json, os, concurrent.futures as cf
from common import *

TYS = {"i8": (-128, 127), "u8": (0, 255), "i16": (-32768, 32767), "u16": (0, 65535)}
ARITH = ["add", "sub", "mul", "div"]
CMP = ["gt", "gt_eq", "lt", "lt_eq", "eq", "neq"]
BOOLS = [(0, 0), (1, 1), (0, 1)]


def iv(ty, lo, hi):
    return {"ty": ty, "lu": lo is None, "lo": 0 if lo is None else lo, "hu": hi is None, "hi": 0 if hi is None else hi}


def biv(p):
    return iv("b", p[0], p[1])


def size(i):
    tmin, tmax = TYS.get(i["ty"], (0, 1))
    return (tmax if i["hu"] else i["hi"]) - (tmin if i["lu"] else i["lo"]) + 1


def rand_iv(rng, ty, mode):
    tmin, tmax = TYS[ty]
    if mode == "small":          # around zero, products stay representable
        c = rng.randint(max(tmin, -9), 9)
        w = rng.choice([0, 0, 1, 2, 3, 5, 8])
        lo, hi = max(tmin, c - rng.randint(0, w)), min(tmax, c + rng.randint(0, w))
    elif mode == "nearedge":     # hugging an end of the type
        w = rng.choice([0, 1, 2, 4, 7])
        if rng.random() < 0.5:
            lo = tmin + rng.randint(0, 3); hi = lo + w
        else:
            hi = tmax - rng.randint(0, 3); lo = hi - w
    elif mode == "medium":
        lo = rng.randint(max(tmin, -40), 40); hi = min(tmax, lo + rng.randint(0, 40))
    else:                        # wide: anything, possibly unbounded (8-bit types only)
        lo = rng.randint(tmin, tmax); hi = rng.randint(lo, tmax)
    lo, hi = max(tmin, lo), min(tmax, hi)
    if ty in ("i8", "u8") and mode in ("wide", "nearedge", "medium"):
        r = rng.random()
        if r < 0.12:
            lo = None
        elif r < 0.24:
            hi = None
    return iv(ty, lo, hi)


def pick_mode(rng, heavy_ok=True):
    r = rng.random()
    if r < 0.55:
        return "small"
    if r < 0.75:
        return "nearedge"
    if r < 0.92 or not heavy_ok:
        return "medium"
    return "wide"


# ----------------------------------------------------------------------------- expressions

def gen_expr(rng, cols, clean=False):
    """cols: list of column types.  Returns node list (post-order); root is boolean or numeric.
    clean (update_ranges / analyze): the shapes intervals::utils::check_support admits minus integer mul/div (whose
    node-level findings they would merely inherit): + - neg cast, comparisons, AND.  Otherwise (evaluate_bounds only):
    additionally multiplication by a non-zero literal, <>, OR, NOT."""
    nodes = []
    cmps = CMP[:5]

    def add(op, l=0, r=0, v=0, ty=""):
        nodes.append({"op": op, "l": l, "r": r, "v": v, "ty": ty})
        return len(nodes)

    def num(ty, depth):
        r = rng.random()
        if depth == 0 or r < 0.25:
            if rng.random() < 0.7:
                c = rng.randrange(len(cols))
                n = add("col", v=c + 1, ty=cols[c])
                if cols[c] != ty:
                    n = add("cast", l=n, ty=ty)
                return n
            tmin, tmax = TYS[ty]
            v = rng.choice([0, 1, 2, 3, 5, 10, tmax, tmin, -1, -2, -7, tmax - 1, tmin + 1])
            return add("lit", v=max(tmin, min(tmax, v)), ty=ty)
        if r < 0.85:
            if not clean and rng.random() < 0.3:
                l = num(ty, depth - 1)
                tmin, tmax = TYS[ty]
                rr = add("lit", v=rng.choice([2, 3, 5] + ([-1, -2, -3] if tmin < 0 else [])), ty=ty)
                return add("mul", l=l, r=rr, ty=ty) if rng.random() < 0.5 else add("mul", l=rr, r=l, ty=ty)
            l = num(ty, depth - 1); rr = num(ty, depth - 1)
            return add(rng.choice(["add", "sub"]), l=l, r=rr, ty=ty)
        if r < 0.93 and ty in ("i8", "i16"):
            return add("neg", l=num(ty, depth - 1), ty=ty)
        t2 = rng.choice([t for t in ("i8", "u8", "i16") if t != ty])
        return add("cast", l=num(t2, depth - 1), ty=ty)

    def boolean(depth):
        r = rng.random()
        if depth <= 1 or r < 0.55:
            ty = rng.choice(cols + ["i16"]) if rng.random() < 0.3 else cols[0]
            l = num(ty, max(0, depth - 1)); rr = num(ty, max(0, depth - 1))
            return add(rng.choice(cmps if clean or rng.random() < 0.75 else CMP), l=l, r=rr, ty="b")
        if r < 0.9 or clean:
            l = boolean(depth - 1); rr = boolean(depth - 1)
            return add("and" if clean or rng.random() < 0.7 else "or", l=l, r=rr, ty="b")
        return add("not", l=boolean(depth - 1), ty="b")

    return nodes, (boolean, num)


def expr_case(rng, kind):
    ncol = rng.choice([1, 2, 2])
    cols = [rng.choice(["i8", "i8", "u8"]) for _ in range(ncol)]
    clean = kind == "update"
    nodes, (boolean, num) = gen_expr(rng, cols, clean)
    depth = rng.choice([1, 2, 2, 3])
    if kind == "bounds" and rng.random() < 0.5:
        num(cols[0], depth)
    else:
        boolean(depth)
    # column ranges; keep the assignment grid moderate
    while True:
        ranges = [rand_iv(rng, t, pick_mode(rng)) for t in cols]
        g = 1
        for r in ranges:
            g *= size(r)
        if g <= 8000:
            break
    c = {"cls": kind, "nodes": nodes, "ranges": ranges}
    if kind == "update":
        if nodes[-1]["ty"] == "b":
            c["given"] = biv((1, 1))      # the target every caller (analyze, symmetric hash join) passes
        c["via"] = "analyze" if rng.random() < 0.25 else "graph"
        if c["via"] == "analyze":
            c["given"] = biv((1, 1))
    return c


# ----------------------------------------------------------------------------- case generation

def gen_cases(ctx, edge_pairs):
    rng = ctx.rng
    q = ctx.quick
    m = 1 if q else 5
    cases = []

    def emit(c):
        c["id"] = len(cases)
        cases.append(c)

    vias = ["method", "apply", "pexpr"]
    # 1. binary operators on intervals
    for op in ARITH:
        for k in range(100 * m):
            ty = rng.choice(["i8", "i8", "u8", "i16", "u16"])
            mode = rng.choice(["small", "small", "small", "nearedge", "medium"]) if ty in ("i8", "u8") else rng.choice(["small", "nearedge"])
            emit({"cls": "bin", "op": op, "via": vias[k % 3], "a": rand_iv(rng, ty, mode), "b": rand_iv(rng, ty, rng.choice(["small", mode]))})
        for k in range(25 * m if op in ("mul", "div") else 0):     # mixed types: only mul/div document operand coercion
            ta, tb = rng.choice([("i8", "i16"), ("i16", "i8"), ("u8", "u16"), ("u8", "i16"), ("i8", "u8")])
            emit({"cls": "bin", "op": op, "via": rng.choice(["method", "apply"]), "a": rand_iv(rng, ta, "small"), "b": rand_iv(rng, tb, "small")})
    for op in CMP:
        for k in range(40 * m):
            ty = rng.choice(["i8", "u8", "i16"])
            emit({"cls": "bin", "op": op, "via": vias[k % 3], "a": rand_iv(rng, ty, pick_mode(rng, ty != "i16")), "b": rand_iv(rng, ty, pick_mode(rng, ty != "i16"))})
    for (pa, pb) in edge_pairs:
        ops = (ARITH + CMP) if not q else rng.sample(ARITH, 2) + rng.sample(CMP, 1)
        for op in ops:
            emit({"cls": "bin", "op": op, "via": rng.choice(vias), "a": pa, "b": pb})
    for op in ("and", "or"):
        for x in BOOLS:
            for y in BOOLS:
                for via in vias:
                    emit({"cls": "bin", "op": op, "via": via, "a": biv(x), "b": biv(y)})
    # 2. unary
    for x in BOOLS:
        for via in ("method", "pexpr"):
            emit({"cls": "un", "op": "not", "via": via, "a": biv(x)})
    for k in range(60 * m):
        ty = rng.choice(["i8", "i8", "i16"])
        emit({"cls": "un", "op": "neg", "via": ("method", "pexpr")[k % 2], "a": rand_iv(rng, ty, pick_mode(rng, ty == "i8"))})
    for k in range(160 * m):
        ta = rng.choice(["i8", "u8", "i16", "u16"])
        to = rng.choice([t for t in ("i8", "u8", "i16", "u16") if t != ta])
        a = rand_iv(rng, ta, pick_mode(rng, ta in ("i8", "u8")))
        if ta in ("i16", "u16") and rng.random() < 0.5:      # straddle the target type's ends
            tmin, tmax = TYS[to]
            edge = rng.choice([tmin, tmax])
            lo = max(TYS[ta][0], edge - rng.randint(0, 5)); hi = min(TYS[ta][1], edge + rng.randint(0, 5))
            a = iv(ta, lo, max(lo, hi))
        emit({"cls": "un", "op": "cast", "via": ("method", "pexpr")[k % 2], "to": to, "a": a})
    # 3. set operations, membership, width, cardinality
    for op in ("intersect", "union", "contains"):
        for k in range(90 * m):
            ta = rng.choice(["i8", "i8", "u8", "i16"])
            tb = ta if rng.random() < 0.85 else rng.choice(["i8", "i16"])
            a, b = rand_iv(rng, ta, pick_mode(rng, ta != "i16")), rand_iv(rng, tb, pick_mode(rng, tb != "i16"))
            if ta != tb:
                # an unbounded end of the narrower type becomes unbounded in the common type after coercion; "superset" claims
                # about it are a matter of reading, not of soundness: mixed-type set cases use bounded intervals only
                for x in (a, b):
                    tmin, tmax = TYS[x["ty"]]
                    if x["lu"]:
                        x["lu"], x["lo"] = False, tmin
                    if x["hu"]:
                        x["hu"], x["hi"] = False, tmax
            emit({"cls": "set", "op": op, "a": a, "b": b})
        for (pa, pb) in edge_pairs[: (40 if q else len(edge_pairs))]:
            emit({"cls": "set", "op": op, "a": pa, "b": pb})
    for k in range(120 * m):
        ty = rng.choice(["i8", "u8", "i16"])
        a = rand_iv(rng, ty, pick_mode(rng, ty != "i16"))
        tmin, tmax = TYS[ty]
        lo = tmin if a["lu"] else a["lo"]; hi = tmax if a["hu"] else a["hi"]
        n = rng.choice([lo, hi, lo - 1, hi + 1, rng.randint(tmin, tmax), tmin, tmax])
        emit({"cls": "cv", "a": a, "n": max(tmin, min(tmax, n)), "nty": ty})
    for k in range(80 * m):
        ty = rng.choice(["i8", "u8", "i16", "u16"])
        emit({"cls": rng.choice(["width", "card"]), "a": rand_iv(rng, ty, pick_mode(rng, ty in ("i8", "u8")))})
    # 4. propagation through one node
    for op in ARITH:
        for k in range(80 * m):
            ty = rng.choice(["i8", "i8", "u8", "i16"])
            mode = rng.choice(["small", "small", "nearedge", "medium"]) if ty != "i16" else "small"
            emit({"cls": "prop2", "op": op, "via": ("fn", "pexpr")[k % 2], "p": rand_iv(rng, ty, rng.choice(["small", mode])),
                  "a": rand_iv(rng, ty, mode), "b": rand_iv(rng, ty, rng.choice(["small", mode]))})
    for op in CMP[:5]:
        for k in range(55 * m):
            ty = rng.choice(["i8", "i8", "u8", "i16"])
            via = ("fn", "pexpr", "satisfy")[k % 3] if op in ("gt", "gt_eq") else ("fn", "pexpr")[k % 2]
            p = (1, 1) if via == "satisfy" or op == "eq" else rng.choice([(1, 1), (1, 1), (0, 0)])
            if rng.random() < 0.5:       # overlapping / touching operands
                a = rand_iv(rng, ty, pick_mode(rng, False)); tmin, tmax = TYS[ty]
                lo = (tmin if a["lu"] else a["lo"]); hi = (tmax if a["hu"] else a["hi"])
                blo = max(tmin, min(tmax, rng.choice([lo, hi, lo - 1, hi + 1, hi - 1, lo + 1])))
                b = iv(ty, blo, min(tmax, blo + rng.choice([0, 0, 1, 3, 9])))
                if rng.random() < 0.5:
                    a, b = b, a
            else:
                a = rand_iv(rng, ty, pick_mode(rng, ty != "i16")); b = rand_iv(rng, ty, pick_mode(rng, ty != "i16"))
            emit({"cls": "prop2", "op": op, "via": via, "p": biv(p), "a": a, "b": b})
    for (pa, pb) in edge_pairs[: (60 if q else len(edge_pairs))]:
        for op in (CMP[:5] if not q else rng.sample(CMP[:5], 2)):
            via = rng.choice(["fn", "pexpr"] + (["satisfy"] if op in ("gt", "gt_eq") else []))
            emit({"cls": "prop2", "op": op, "via": via, "p": biv((1, 1) if via == "satisfy" or op == "eq" else rng.choice([(1, 1), (0, 0)])), "a": pa, "b": pb})
    for op in ("and", "or"):
        for p in BOOLS:
            for x in BOOLS:
                for y in BOOLS:
                    emit({"cls": "prop2", "op": op, "via": "pexpr", "p": biv(p), "a": biv(x), "b": biv(y)})
    for p in BOOLS:
        for x in BOOLS:
            emit({"cls": "prop1", "op": "not", "p": biv(p), "a": biv(x)})
    for k in range(50 * m):
        ty = rng.choice(["i8", "i16"])
        emit({"cls": "prop1", "op": "neg", "p": rand_iv(rng, ty, pick_mode(rng, ty == "i8")), "a": rand_iv(rng, ty, pick_mode(rng, ty == "i8"))})
    for k in range(80 * m):
        ta = rng.choice(["i8", "u8", "i16"])
        tp = rng.choice([t for t in ("i8", "u8", "i16", "u16") if t != ta])
        emit({"cls": "prop1", "op": "cast", "p": rand_iv(rng, tp, pick_mode(rng, tp in ("i8", "u8"))), "a": rand_iv(rng, ta, pick_mode(rng, ta in ("i8", "u8")))})
    # 4b. NullableInterval (three-valued): apply_operator, not, is_true / is_false / is_unknown
    def niv(nk, i):
        return {"nk": nk, "iv": i}
    truth = [niv("null", biv((0, 0)))] + [niv(nk, biv(x)) for nk in ("maybe", "notnull") for x in BOOLS]
    for op in ("and", "or", "isdistinct", "isnotdistinct", "eq"):
        for x in truth:
            for y in truth:
                emit({"cls": "nbin", "op": op, "a": x, "b": y})
    for op in ("not", "is_true", "is_false", "is_unknown"):
        for x in truth:
            emit({"cls": "nun", "op": op, "a": x})
    for op in ARITH + CMP + ["isdistinct", "isnotdistinct"]:
        for k in range(22 * m):
            ty = rng.choice(["i8", "i8", "u8", "i16"])
            a, b = rand_iv(rng, ty, rng.choice(["small", "small", "nearedge"])), rand_iv(rng, ty, rng.choice(["small", "small", "nearedge"]))
            if rng.random() < 0.3:          # single points make "certainly equal" reachable
                b = dict(a) if rng.random() < 0.5 and not (a["lu"] or a["hu"]) and a["lo"] == a["hi"] else iv(ty, *([rng.choice([0, 1, 5])] * 2))
            emit({"cls": "nbin", "op": op, "a": niv(rng.choice(["null", "maybe", "notnull", "notnull"]), a),
                  "b": niv(rng.choice(["null", "maybe", "notnull", "notnull"]), b)})
    # 5. expression graphs
    for k in range(200 * m):
        emit(expr_case(rng, "bounds"))
    for k in range(260 * m):
        c = expr_case(rng, "update")
        if "given" not in c:
            continue
        emit(c)
    return cases


# ----------------------------------------------------------------------------- known findings

KF_DIV0 = "Interval::div on a signed integer operand interval [negative, 0] (zero as upper endpoint)"
KF_MULOV = "Interval::mul, both operands contain zero and a corner product overflows"
KF_PDIV = "propagate_arithmetic(Divide) on integer types (truncating division inverted by multiplication)"
KF_PMUL0 = "propagate_arithmetic(Multiply) dividing by a factor interval with zero as an endpoint (or a [negative, 0] parent)"
KF_SWAP = "propagate_comparison with a certainly-false parent returns the children in swapped order"
KF_PDIV0 = "propagate_arithmetic(Divide) with zero as an endpoint of an operand (inherits the integer zero-endpoint division defect)"


def lo_hi(i):
    tmin, tmax = TYS.get(i["ty"], (0, 1))
    return (tmin if i["lu"] else i["lo"]), (tmax if i["hu"] else i["hi"])


def neg_to_zero(i):
    lo, hi = lo_hi(i)
    return i["ty"] in ("i8", "i16") and hi == 0 and lo < 0


def has0(i):
    lo, hi = lo_hi(i)
    return lo <= 0 <= hi


def finding_key(ev, swap_ok=False):
    """Narrow key of a confirmed rejection (compared with known_findings.json)."""
    cls, op = ev.get("cls"), ev.get("op", "")
    if cls == "nbin" and op in ARITH and ev["a"]["nk"] != "null" and ev["b"]["nk"] != "null" and ev.get("rk") == "niv" and ev["r"]["nk"] != "null":
        # NullableInterval::apply_operator delegates to the Interval operator: the same two node-level findings apply
        return finding_key(dict(ev, cls="bin", a=ev["a"]["iv"], b=ev["b"]["iv"], r=ev["r"]["iv"]), swap_ok)
    if cls == "bin" and op == "div" and (neg_to_zero(ev["a"]) or neg_to_zero(ev["b"])):
        return KF_DIV0
    if cls == "bin" and op == "mul" and has0(ev["a"]) and has0(ev["b"]):
        tmin, tmax = TYS[ev["r"]["ty"]]
        (al, ah), (bl, bh) = lo_hi(ev["a"]), lo_hi(ev["b"])
        if any(not (tmin <= x * y <= tmax) for x in (al, ah) for y in (bl, bh)):
            return KF_MULOV
    if cls == "prop2" and op == "div":
        return div_prop_key(ev)
    if cls == "prop2" and op == "mul":
        mid = ev.get("mid")
        divisors = [ev["a"], ev["b"]] + ([mid] if isinstance(mid, dict) else [])
        if any(0 in lo_hi(x) for x in divisors) or neg_to_zero(ev["p"]):
            return KF_PMUL0
    if cls == "prop2" and op in CMP[:4] and (ev["p"]["lo"], ev["p"]["hi"]) == (0, 0) and swap_ok:
        return KF_SWAP
    return None


def tdiv(x, y):
    q = abs(x) // abs(y)
    return q if (x >= 0) == (y > 0) else -q


def div_prop_key(ev):
    """classify a rejected propagate_arithmetic(Divide) event by the satisfying pairs it removed: every removed pair divides
    inexactly -> the truncation finding; otherwise only the zero-endpoint finding can explain it (some interval involved has 0
    as an endpoint), else no key (VIOLATION)."""
    (al, ah), (bl, bh), (pl, ph) = lo_hi(ev["a"]), lo_hi(ev["b"]), lo_hi(ev["p"])
    tmin, tmax = TYS[ev["rt"]]
    if (ah - al + 1) * (bh - bl + 1) > 80000:
        pairs = [(ev["wa"], ev["wb"])]
    else:
        pairs = [(x, y) for x in range(al, ah + 1) for y in range(bl, bh + 1)]
    keep = (lambda x, y: False) if ev["rk"] == "none" else \
        (lambda x, y, r1=lo_hi(ev["r1"]), r2=lo_hi(ev["r2"]): r1[0] <= x <= r1[1] and r2[0] <= y <= r2[1])
    removed = [(x, y) for (x, y) in pairs if y != 0 and tmin <= tdiv(x, y) <= tmax and pl <= tdiv(x, y) <= ph and not keep(x, y)]
    if removed and all(x % y != 0 for (x, y) in removed):
        return KF_PDIV
    ivs = [ev["a"], ev["b"], ev["p"]] + ([ev["r1"], ev["r2"]] if ev["rk"] == "pair" else [])
    if any(0 in lo_hi(x) for x in ivs):
        return KF_PDIV0
    return None


# ----------------------------------------------------------------------------- run

CFG = "SPECIFICATION Spec\nINVARIANT Emit\nCHECK_DEADLOCK FALSE\n"


def swap_twins(events):
    """for the known swap defect: twin events (id = -id-1) with the two returned intervals exchanged"""
    return [dict(e, id=-e["id"] - 1, r1=e["r2"], r2=e["r1"]) for e in events
            if e["cls"] == "prop2" and e.get("rk") == "pair" and e["op"] in CMP[:4] and (e["p"]["lo"], e["p"]["hi"]) == (0, 0)]


def validate(ctx, events, procs, tag="val"):
    """Decide every event with TLC (parallel single-worker TLC processes). Returns verdicts by id, states, generated."""
    events = events + swap_twins(events)
    cfg = ctx.path("trace.cfg")
    open(cfg, "w").write(CFG)
    # balance chunks by estimated grid size
    def cost(e):
        c = 50
        for k in ("a", "b"):
            if k in e and e["cls"] in ("bin", "prop2", "nbin"):
                c *= max(1, size(e[k]["iv"] if e["cls"] == "nbin" else e[k]))
        if e["cls"] in ("bounds", "update"):
            for r in e["ranges"]:
                c *= size(r)
            c *= max(1, len(e["nodes"]))
        if e["cls"] in ("un", "set", "prop1"):
            c *= size(e["a"])
        return c
    order = sorted(events, key=cost, reverse=True)
    chunks = [[] for _ in range(procs)]
    load = [0] * procs
    for e in order:
        j = load.index(min(load))
        chunks[j].append(e); load[j] += cost(e)
    chunks = [c for c in chunks if c]

    def one(j):
        p = ctx.path(f"{tag}-{j}.ndjson")
        write_ndjson(p, chunks[j])
        r = tlc(ctx, "facts/IntervalTrace", cfg=cfg, workers=1, env={"TRACE": p}, timeout=3000, xmx="2g", tag=f"{tag}-{j}", deadlock=False)
        if not r.ok:
            sys.stderr.write(r.out[-3000:])
            raise ToolError("TLC failed while deciding recorded events")
        return r
    with cf.ThreadPoolExecutor(max_workers=procs) as ex:
        rs = list(ex.map(one, range(len(chunks))))
    verdicts = {}
    for r in rs:
        for v in tlc_cases(r.out):
            verdicts[v["id"]] = v
    missing = [e["id"] for e in events if e["id"] not in verdicts]
    if missing:
        raise ToolError(f"TLC produced no verdict for {len(missing)} events (first ids {missing[:5]})")
    return verdicts, sum(r.distinct for r in rs), sum(r.generated for r in rs)


def handle_rejections(ctx, events, verdicts):
    rej = []
    for e in events:
        v = verdicts[e["id"]]
        if not v["ok"]:
            rej.append(dict(e, wa=v["wa"], wb=v["wb"], why=v["why"]))
    if not rej:
        return 0, 0, []
    write_ndjson(ctx.path("rejected.ndjson"), rej)
    summary, _ = run_harness(ctx, "vfacts", ["c23", "--confirm", "--in", ctx.path("rejected.ndjson"), "--out", ctx.path("confirmed.ndjson")])
    if summary is None or summary.get("harness_errors"):
        raise ToolError(f"confirmation run failed: {summary}")
    res = read_ndjson(ctx.path("confirmed.ndjson"))
    unconfirmed = [r for r in res if not r.get("confirmed")]
    if unconfirmed:
        write_ndjson(ctx.path("unconfirmed.ndjson"), unconfirmed)
        raise ToolError(f"{len(unconfirmed)} TLC rejections were not reproduced by the engine's evaluator "
                        f"(specification/harness disagreement, not a verdict); first: {json.dumps(unconfirmed[0])[:600]}")
    # known swap defect: the same event with the two returned intervals exchanged must be accepted by TLC
    swap_ok = {r["id"] for r in res if (-r["id"] - 1) in verdicts and verdicts[-r["id"] - 1]["ok"]}
    raised = 0
    for r in res:
        key = finding_key(r, r["id"] in swap_ok)
        before = len(ctx.violations)
        report_violation(ctx, {"case": {k: r[k] for k in r if k not in ("confirmed", "observed", "why", "wa", "wb")},
                               "witness": {"a": r["wa"], "b": r["wb"]}, "oracle": r["why"], "observed": r["observed"]}, key=key)
        raised += len(ctx.violations) - before
        if raised >= 10:
            break
    return len(rej), len(res) - len(unconfirmed), res[:3]


RULE_INVS = "AddSound SubSound MulSound GtSound GtEqSound EqSound IntersectSound PropSound"


def rules_check(ctx):
    """TLC: the transcribed (intended) rules are sound for all interval pairs of the toy types; in the thorough tier
    also that the rules as written at the pinned commit (FAITHFUL) are refuted by TLC (the known findings)."""
    class Acc:
        distinct = 0; generated = 0; wall = 0.0; runs = []
    acc = Acc()
    for ty in (("t3", "w3") if ctx.quick else ("t4", "w4")):
        cfg = ctx.path(f"rules-{ty}.cfg")
        open(cfg, "w").write(f'CONSTANTS TY = "{ty}"  FAITHFUL = FALSE\nSPECIFICATION Spec\nINVARIANTS {RULE_INVS}\nCHECK_DEADLOCK FALSE\n')
        r = tlc_must_pass(ctx, "facts/IntervalRules", cfg=cfg, workers=2 if ctx.quick else 6, timeout=1800, tag=f"rules-{ty}", deadlock=False)
        acc.distinct += r.distinct; acc.generated += r.generated; acc.wall += r.wall
        acc.runs.append({"type": ty, "faithful": False, "distinct_states": r.distinct, "wall_s": round(r.wall, 1)})
    if not ctx.quick:
        cfg = ctx.path("rules-faithful.cfg")
        open(cfg, "w").write(f'CONSTANTS TY = "t3"  FAITHFUL = TRUE\nSPECIFICATION Spec\nINVARIANTS {RULE_INVS}\nCHECK_DEADLOCK FALSE\n')
        r = tlc(ctx, "facts/IntervalRules", cfg=cfg, workers=1, timeout=600, tag="rules-faithful", deadlock=False, mode_args=["-continue"])
        acc.runs.append({"type": "t3", "faithful": True, "invariants_refuted_by_tlc": sorted(set(r.invariant_violated))})
    return acc


def run(ctx):
    build("vfacts")
    procs = 4 if ctx.quick else 8
    if ctx.replay:
        rp = json.load(open(ctx.replay))
        case = dict(rp["case"], id=0)
        for k in ("rk", "r", "r1", "r2", "rr", "flag", "rn", "rt", "msg", "mid"):    # recorded results are recomputed
            case.pop(k, None)
        write_ndjson(ctx.path("cases.ndjson"), [case])
        run_harness(ctx, "vfacts", ["c23", "--in", ctx.path("cases.ndjson"), "--out", ctx.path("events.ndjson")])
        events = read_ndjson(ctx.path("events.ndjson"))
        verdicts, st, gen = validate(ctx, events, 1)
        nrej, nconf, _ = handle_rejections(ctx, events, verdicts)
        write_evidence(ctx, "model_checking", {"states": st, "transitions": max(gen, 1), "traces_validated_against_impl": len(events),
                                               "samples": events[:1], "rejected": nrej})
        return
    # 1. design-level check of the transcribed rules on the toy width
    bg = cf.ThreadPoolExecutor(max_workers=1)
    rules_future = bg.submit(rules_check, ctx)        # runs concurrently with the conformance pipeline
    # 2. spec-enumerated edge pairs
    edge_pairs = []
    for ty in ("i8", "u8"):
        cfg = ctx.path(f"gen-{ty}.cfg")
        k = 45 if ctx.quick else 0
        open(cfg, "w").write(f"CONSTANTS K = {k}\n TY = \"{ty}\"\n" + CFG)
        r = tlc(ctx, "facts/IntervalGen", cfg=cfg, workers=1, deadlock=False, tag=f"gen-{ty}", mode_args=["-seed", str(ctx.seed)])
        if not r.ok:
            sys.stderr.write(r.out[-3000:])
            raise ToolError("TLC case generation failed")
        ps = [(c["a"], c["b"]) for c in tlc_cases(r.out)]
        if not ctx.quick:
            ctx.rng.shuffle(ps)
            ps = ps[:700]
        edge_pairs += ps
    if len(edge_pairs) < 60:
        raise ToolError("too few generated edge pairs")
    ctx.rng.shuffle(edge_pairs)
    cases = gen_cases(ctx, edge_pairs)
    write_ndjson(ctx.path("cases.ndjson"), cases)
    # 3. real code
    summary, _ = run_harness(ctx, "vfacts", ["c23", "--in", ctx.path("cases.ndjson"), "--out", ctx.path("events.ndjson")])
    if summary is None or summary["harness_errors"]:
        raise ToolError(f"harness errors: {summary}")
    events = read_ndjson(ctx.path("events.ndjson"))
    if len(events) != len(cases):
        raise ToolError("event count differs from case count")
    # 4. TLC decides every event
    verdicts, st, gen = validate(ctx, events, procs)
    nrej, nconf, conf_samples = handle_rejections(ctx, events, verdicts)
    r0 = rules_future.result()
    # evidence
    by_cls = {}
    decided = [e for e in events if e["rk"] not in ("err", "panic")]
    for e in decided:
        k = e["cls"] + ":" + e.get("op", "") + (":" + e["via"] if "via" in e else "")
        by_cls[k] = by_cls.get(k, 0) + 1
    nontrivial = [e for e in decided if not (e["cls"] in ("bin", "un", "bounds") and e.get("r", {}).get("lu") and e.get("r", {}).get("hu"))]
    required = ["bin:add:method", "bin:mul:apply", "bin:div:pexpr", "bin:gt:method", "set:intersect", "prop2:gt:satisfy", "prop2:add:fn",
                "prop2:mul:pexpr", "bounds:", "update::graph", "update::analyze", "un:cast:method", "prop1:cast"]
    for k in required:
        if by_cls.get(k, 0) == 0:
            raise ToolError(f"vacuity: no decided event of kind {k}")
    samples = [e for e in events if e["cls"] == "bin" and e["op"] == "mul"][:1] + [e for e in events if e["cls"] == "update" and e["rk"] == "success"][:1]
    write_evidence(ctx, "model_checking", {
        "states": st + r0.distinct, "transitions": gen + r0.generated,
        "traces_validated_against_impl": len(decided),
        "samples": samples,
        "exhaustive": True,
        "rules_model_check": r0.runs,
        "events_recorded": len(events), "events_decided_by_tlc": len(decided),
        "engine_errors_accepted": summary["engine_errors"], "engine_panics_accepted": summary["engine_panics"],
        "distinct_nontrivial": distinct_count([{k: e[k] for k in e if k != "id"} for e in nontrivial]),
        "events_by_kind": dict(sorted(by_cls.items())),
        "edge_pairs_from_tlc": len(edge_pairs),
        "tlc_rejections": nrej, "rejections_confirmed_in_engine": nconf, "confirmed_samples": conf_samples,
        "rule": "one event = one call of the real API on spec-enumerated / seeded random intervals or expression trees; "
                "TLC decides it over every value (pair) of the input intervals; non-trivial = result not the whole type",
    }, assumptions=[
        "integer types only (Int8/UInt8 full grid incl. unbounded ends, Int16/UInt16 on bounded intervals, mixed-type coercions); "
        "float endpoints / directed rounding and temporal types are not covered (TLA+ has no floats)",
        "'representable' = the exact integer result lies in the result type and no division by zero; assignments on which any "
        "sub-expression is not representable carry no obligation",
        "an Err / panic returned by the library is accepted (counted); cardinality is checked as the exact point count, width as an upper bound of the spread",
    ])
