"""C05 — every join operator computes exactly its join type's result.

1. TLC enumerates / samples join cases from spec/ops/JoinGen.tla: two small relations (<= 3 rows x
   (key, payload) over {NULL,0,1}, int or string keys; empty sides; 4-6 row skewed inputs), join type
   (all ten), NULL-equality mode, number of key columns (0 = keyless, 1, 2), residual filter, null-aware
   anti join.  The expected rows and the declared nullability of the output columns are computed by
   TLC with the reference definition spec/lib/Join.tla (nested loop), independent of the engine.
2. B3: harness/vops c05 executes every case on every real join operator that supports it
   (HashJoinExec CollectLeft / Partitioned, dense array-map and chained hash-map paths, null-aware;
   SortMergeJoinExec (both stream implementations) on pre-sorted inputs in all four sort directions;
   NestedLoopJoinExec; SymmetricHashJoinExec single / partitioned / with pruning on sorted inputs;
   CrossJoinExec; PiecewiseMergeJoinExec classic + existence) x input batch sizes {1,2,8192} x session
   batch sizes {1,2,8192} x partition counts {1,3} x ample / tight memory budget.
3. Oracle: output bag = expected bag; column names, types; declared nullability; no NULL in a column
   declared non-nullable; no panic; an error only as ResourcesExhausted under a tight budget.
"""
import json, os
from common import *

QUICK = dict(NCA=400, NLA=2, NRA=2, NCB=80, NLB=2, NRB=2, NCC=60, NRC=2, NCD=20, ND=1, NLE=8, NRE=4, XR=0)
THOROUGH = dict(NCA=400, NLA=6, NRA=5, NCB=80, NLB=6, NRB=5, NCC=484, NRC=4, NCD=120, ND=2, NLE=40, NRE=10, XR=1)
SANITY = dict(NCA=0, NLA=0, NRA=0, NCB=0, NLB=0, NRB=0, NCC=0, NRC=0, NCD=0, ND=0, NLE=0, NRE=0, XR=1)


def cfg_text(c):
    return ("CONSTANTS " + "  ".join(f"{k} = {v}" for k, v in c.items()) +
            "\nSPECIFICATION Spec\nINVARIANTS Emit Sane\nCHECK_DEADLOCK FALSE\n")


def run_driver(ctx, sub, args, timeout=3000):
    """Run the vops driver; a progress-watchdog trip (exit 3: one evaluation of a tiny input made no
    progress for 150 s) is confirmed by re-running exactly that evaluation once; only a confirmed hang is
    reported (the property demands a result), an unconfirmed one is a machinery error."""
    out = args[args.index("--out") + 1]
    summary, p = run_harness(ctx, "vops", [sub] + args, timeout=timeout, check=False)
    if p.returncode == 0:
        return
    hung = out + ".hung"
    if p.returncode == 3 and os.path.exists(hung):
        rec = json.load(open(hung))
        write_ndjson(ctx.path("hung.ndjson"), [rec])
        _, p2 = run_harness(ctx, "vops", [sub, "--in", ctx.path("hung.ndjson"), "--out", ctx.path("hung.res.json"),
                                          "--replay", "--threads", 1], timeout=600, check=False)
        if p2.returncode == 3:
            report_violation(ctx, {"case": rec["case"], "variant": rec["variant"],
                                   "message": "operator did not terminate: no progress for 150 s on a tiny input, twice (normal: milliseconds)",
                                   "observed": None, "key": "hang"}, key="hang")
            write_evidence(ctx, "exploration", {"evaluations": 1, "distinct_nontrivial": 2, "rule": "aborted by a confirmed hang",
                                                "samples": [rec["case"]]})
            raise SystemExit(1)
        raise ToolError("driver watchdog tripped but the hang did not reproduce")
    sys.stderr.write(p.stderr[-4000:])
    raise ToolError(f"harness vops {sub} exited {p.returncode}")


def report(ctx, res):
    for v in res["violations"]:
        report_violation(ctx, {"case": v["case"], "variant": v["variant"], "variant_name": v["variant_name"],
                               "message": v["message"], "observed": v["observed"], "key": v["key"],
                               "replay_cmd": "bin/check C05 --replay <this file>"}, key=v["key"])


def run(ctx):
    build("vops")
    if ctx.replay:
        rp = json.load(open(ctx.replay))
        write_ndjson(ctx.path("replay.ndjson"), [{"case": rp["case"], "variant": rp["variant"]}])
        run_driver(ctx, "c05", ["--in", ctx.path("replay.ndjson"), "--out", ctx.path("res.json"), "--replay",
                                  "--threads", 1])
        res = json.load(open(ctx.path("res.json")))
        report(ctx, res)
        write_evidence(ctx, "exploration", {"evaluations": max(1, res["evaluations"]), "distinct_nontrivial": 2,
                                            "rule": "replay of one recorded case", "samples": [rp["case"]]})
        return
    consts = QUICK if ctx.quick else THOROUGH
    cfg = ctx.path("joingen.cfg")
    open(cfg, "w").write(cfg_text(consts))
    r = tlc(ctx, "ops/JoinGen", cfg=cfg, workers=4 if ctx.quick else 8, mode_args=["-seed", str(ctx.seed)],
            timeout=1500, deadlock=False, tag="joingen")
    if not r.ok or r.invariant_violated:
        sys.stderr.write(r.out[-3000:])
        raise ToolError("TLC failed on ops/JoinGen (specification-level)")
    cases = tlc_cases(r.out)
    if len(cases) < 500:
        raise ToolError(f"JoinGen produced only {len(cases)} cases")
    # vacuity: every section, join type, null mode, filter and key arity must occur
    seen = {k: {str(c[k]) for c in cases} for k in ("sec", "jt", "nen", "nk", "f", "kt", "na")}
    need = {"sec": {"A", "B", "C", "D", "E"} | (set() if ctx.quick else {"X"}),
            "jt": {"Inner", "Left", "Right", "Full", "LeftSemi", "RightSemi", "LeftAnti", "RightAnti", "LeftMark", "RightMark"},
            "nen": {"True", "False"}, "nk": {"0", "1", "2"}, "na": {"True", "False"}, "kt": {"i", "s"},
            "f": {"none", "lt", "le", "gt", "ge", "lnull", "rnull", "ne"}}
    for k, want in need.items():
        if not want <= seen[k]:
            raise ToolError(f"vacuity: generator never produced {k} in {sorted(want - seen[k])}")
    write_ndjson(ctx.path("cases.ndjson"), cases)
    picks = 6 if ctx.quick else 10
    run_driver(ctx, "c05", ["--in", ctx.path("cases.ndjson"), "--out", ctx.path("res.json"),
                                           "--threads", 8 if ctx.quick else 14, "--picks", picks])
    res = json.load(open(ctx.path("res.json")))
    st = res["stats"]
    ops = {k[3:]: v for k, v in st.items() if k.startswith("op:")}
    for op in ["hash_collect", "hash_partitioned", "smj", "nlj", "shj_single", "shj_partitioned", "shj_pruning", "cross", "pwmj"]:
        if ops.get(op, 0) == 0:
            raise ToolError(f"vacuity: operator {op} was never driven")
    spilled = {k[8:]: v for k, v in st.items() if k.startswith("spilled:")}
    for op in ("smj", "nlj"):
        if spilled.get(op, 0) == 0:
            raise ToolError(f"vacuity: {op} never spilled under the tight memory budgets (buffered-side spill / memory-limited fallback not reached)")
    report(ctx, res)
    nontrivial_cases = sum(1 for c in cases if c["l"] and c["r"] and c["expect"])
    write_evidence(ctx, "exploration", {
        "evaluations": res["evaluations"],
        "distinct_nontrivial": res["distinct_nontrivial"],
        "rule": "a case = <L, R, join type, NULL-equality, key arity, filter, key type, null-aware> generated by TLC "
                "(JoinGen.tla) with the expected bag from Join.tla; an evaluation = one case executed on one real operator "
                "in one physical configuration; distinct non-trivial = distinct (case, configuration) pairs with both inputs "
                "non-empty whose result matched",
        "samples": res["samples"][:2],
        "tlc_cases": len(cases), "tlc_distinct_states": r.distinct, "tlc_wall_s": round(r.wall, 1),
        "cases_by_section": {s: sum(1 for c in cases if c["sec"] == s) for s in sorted(seen["sec"])},
        "cases_with_nonempty_inputs_and_output": nontrivial_cases,
        "evaluations_by_operator": ops,
        "evaluations_by_join_type": {k[3:]: v for k, v in st.items() if k.startswith("jt:")},
        "evaluations_by_operator_and_join_type": {k[6:]: v for k, v in st.items() if k.startswith("op_jt:")},
        "multi_partition_evaluations": st.get("multi_partition", 0),
        "tight_memory_evaluations": st.get("tight_memory", 0),
        "resources_exhausted_accepted": st.get("resources_exhausted_accepted", 0),
        "tight_memory_evaluations_that_spilled_and_matched": spilled,
        "spilled_by_operator_and_join_type": {k[11:]: v for k, v in st.items() if k.startswith("spilled_jt:")},
        "results_matching": st.get("ok", 0),
        "grid_picks_per_operator": f"{picks} seeded picks per operator out of the 18-point grid (3 input batch sizes x 3 session batch sizes x 2 partition counts; 9 points for single-partition operators)",
    }, assumptions=[
        "join keys are Int32 (dense array-map path), Int64 (hash-map path forced through the perfect-hash options) and Utf8; payload Int32",
        "co-partitioned operators get inputs partitioned by the first key column by the driver (no RepartitionExec); merge-join inputs are sorted by the driver",
        "binding demonstrated during development: flipping one expected mark bit / dropping one expected row in the case file is reported as a result-bag difference; "
        "the tight-memory lane found two genuine defects of NestedLoopJoinExec's memory-limited fallback (known_findings.json)",
        "non-termination is judged only by the progress watchdog: one evaluation of these tiny inputs stuck for 150 s, confirmed by re-running that evaluation alone",
    ])
