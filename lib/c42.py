"""C42 — tree traversal and rewriting follow their recursion contract.

1. spec/adt/TreeWalk.tla defines apply / visit / transform_down / transform_up / transform_down_up / rewrite /
   map_children / exists on all ordered trees (pre-order numbered) for every decision vector (Continue / Jump / Stop
   per node and phase) and change vector; TLC checks the documented contract on every enumerated case (pre/post
   order, Jump prunes exactly the subtree / bypasses the parent's f_up, Stop ends the walk, result tree = reported
   replacements, flag = their disjunction) and prints each case with the expected callback log, result marks, flag
   and final recursion state.
2. B3: `vadt c42` replays each case on Expr, LogicalPlan and Arc<dyn PhysicalExpr> trees.
"""
import json
from concurrent.futures import ThreadPoolExecutor
from common import *
from adtutil import cfg_text


def run(ctx):
    build("vadt")
    if ctx.replay:
        run_harness(ctx, "vadt", ["c42", "--replay", ctx.replay, "--out", ctx.path("res.json")])
        res = json.load(open(ctx.path("res.json")))
        for v in res["violations"]:
            report_violation(ctx, v)
        write_evidence(ctx, "model_checking", {"states": 1, "transitions": 1, "traces_validated_against_impl": res["evaluations"],
                                               "samples": [json.load(open(ctx.replay)).get("case")]})
        return
    if ctx.quick:
        runs = [("exh", dict(MAXN=3, MAXNC=1, SAMPLE=0)), ("exh2", dict(MAXN=2, MAXNC=4, SAMPLE=0)), ("smp", dict(MAXN=5, MAXNC=2, SAMPLE=12))]
    else:
        runs = [("exh", dict(MAXN=3, MAXNC=2, SAMPLE=0)), ("exh2", dict(MAXN=2, MAXNC=4, SAMPLE=0)), ("exh4", dict(MAXN=4, MAXNC=1, SAMPLE=0)),
                ("smp", dict(MAXN=5, MAXNC=2, SAMPLE=150)), ("smp3", dict(MAXN=5, MAXNC=4, SAMPLE=150))]

    def one(job):
        tag, c = job
        cfg = ctx.path(tag + ".cfg")
        open(cfg, "w").write(cfg_text(c, ["SpecOK", "Emit"]))
        return tag, c, tlc(ctx, "adt/TreeWalk", cfg=cfg, workers=2, deadlock=False, tag=tag, timeout=3000, mode_args=["-seed", str(ctx.seed)])

    with ThreadPoolExecutor(max_workers=2) as ex:
        results = list(ex.map(one, runs))
    cases, gen, states, transitions = [], [], 0, 0
    for tag, c, r in results:
        if not r.ok or r.invariant_violated:
            sys.stderr.write("\n".join(l for l in r.out.splitlines() if not l.startswith("<<"))[-3000:])
            raise ToolError(f"TLC run {tag} of TreeWalk failed (specification-level)")
        cs = tlc_cases(r.out)
        uniq = list({json.dumps(x, sort_keys=True): x for x in cs}.values())
        gen.append({"run": tag, "constants": c, "cases": len(uniq), "distinct_states": r.distinct})
        cases += uniq
        states += r.distinct
        transitions += max(r.generated, 1)
    cases = list({json.dumps(x, sort_keys=True): x for x in cases}.values())
    methods = {c["method"] for c in cases}
    shapes = {json.dumps(c["size"]) for c in cases}
    if len(methods) != 8 or len(shapes) < 20 or len(cases) < 2000:
        raise ToolError(f"vacuity: methods {methods}, tree shapes {len(shapes)}, cases {len(cases)}")
    write_ndjson(ctx.path("cases.ndjson"), cases)
    summary, _ = run_harness(ctx, "vadt", ["c42", "--in", ctx.path("cases.ndjson"), "--out", ctx.path("res.json")], timeout=3000)
    res = json.load(open(ctx.path("res.json")))
    for v in res["violations"][:5]:
        report_violation(ctx, v)
    if len(res["per_tree_type"]) != 3:
        raise ToolError("not every tree type was driven")
    sample = [c for c in cases if len(c["size"]) >= 4 and c["method"] == "rewrite" and "J" in json.dumps(c["dec"]) and c["tr"] == 1][:1] or cases[:1]
    write_evidence(ctx, "model_checking", {
        "states": states, "transitions": transitions,
        "traces_validated_against_impl": res["evaluations"],
        "samples": sample, "exhaustive": True,
        "case_generation": gen, "cases": len(cases), "methods": sorted(methods), "tree_shapes": len(shapes),
        "per_tree_type": res["per_tree_type"], "callbacks_compared": res["callbacks_compared"],
        "distinct_nontrivial": res["distinct_nontrivial"], "violations_total": res["violations_total"],
        "contract_invariants": ["OrderOK", "OnceOK", "JumpOK", "UpJumpOK", "StopOK", "StopTnr", "MarksOK", "NestOK", "ExistsOK"],
        "rule": "a case = tree shape x method x decision vector x change vector; non-trivial = some Jump/Stop decision or a reported change; distinct = distinct cases",
    }, assumptions=[
        "real nodes: Expr = Column / Alias / ScalarFunction(udf); LogicalPlan = EmptyRelation / SubqueryAlias / Extension; Arc<dyn PhysicalExpr> = a harness PhysicalExpr node (DynTreeNode path); other Expr / LogicalPlan variants' child enumeration and Arc<dyn ExecutionPlan> are not driven",
        "a reported replacement keeps the children and re-labels the node; callbacks that change the tree shape are out of scope",
        "LogicalPlan subquery traversal (apply_with_subqueries etc.) is not driven",
        "binding demonstrated while building: the first version of the Jump invariant (f_down Jump also skips the node's own f_up) was rejected by TLC against the transcribed semantics and corrected from the documentation of TreeNodeRecursion::Jump",
    ])
