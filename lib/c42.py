"""C42 — tree traversal and rewriting follow their recursion contract.

1. spec/adt/TreeWalk.tla defines apply / visit / transform_down / transform_up / transform_down_up / rewrite /
   map_children / exists on all ordered trees (pre-order numbered) for every decision vector (Continue / Jump / Stop
   per node and phase) and change vector; TLC checks the documented contract on every enumerated case (pre/post
   order, Jump prunes exactly the subtree / bypasses the parent's f_up, Stop ends the walk, result tree = reported
   replacements, flag = their disjunction) and prints each case with the expected callback log, result marks, flag
   and final recursion state.
2. B3: `vadt c42` replays each case on Expr, LogicalPlan and Arc<dyn PhysicalExpr> trees.
"""
import json
from concurrent.futures import ThreadPoolExecutor
from common import *
from adtutil import cfg_text


def run(ctx):
    build("vadt")
    if ctx.replay:
        run_harness(ctx, "vadt", ["c42", "--replay", ctx.replay, "--out", ctx.path("res.json")])
        res = json.load(open(ctx.path("res.json")))
        for v in res["violations"]:
            report_violation(ctx, v, key=v.get("known_key"))
        write_evidence(ctx, "model_checking", {"states": 1, "transitions": 1, "traces_validated_against_impl": res["evaluations"],
                                               "samples": [json.load(open(ctx.replay)).get("case")]})
        return
    T = dict(STAR="FALSE", SUBQ="FALSE")
    if ctx.quick:
        runs = [("exh", "tree", dict(T, MAXN=3, MAXNC=1, SAMPLE=0)), ("exh2", "tree", dict(T, MAXN=2, MAXNC=4, SAMPLE=0)),
                ("smp", "tree", dict(T, MAXN=5, MAXNC=2, SAMPLE=10)),
                ("subq", "subq", dict(T, MAXN=5, MAXNC=2, SAMPLE=10, SUBQ="TRUE")),
                ("star", "star", dict(T, MAXN=7, MAXNC=2, SAMPLE=8, STAR="TRUE"))]
    else:
        runs = [("exh", "tree", dict(T, MAXN=3, MAXNC=2, SAMPLE=0)), ("exh2", "tree", dict(T, MAXN=2, MAXNC=4, SAMPLE=0)),
                ("exh4", "tree", dict(T, MAXN=4, MAXNC=1, SAMPLE=0)),
                ("smp", "tree", dict(T, MAXN=5, MAXNC=2, SAMPLE=150)), ("smp3", "tree", dict(T, MAXN=5, MAXNC=4, SAMPLE=150)),
                ("subq", "subq", dict(T, MAXN=5, MAXNC=3, SAMPLE=150, SUBQ="TRUE")),
                ("subq4", "subq", dict(T, MAXN=4, MAXNC=2, SAMPLE=200, SUBQ="TRUE")),
                ("star", "star", dict(T, MAXN=7, MAXNC=3, SAMPLE=60, STAR="TRUE"))]

    def one(job):
        tag, mode, c = job
        cfg = ctx.path(tag + ".cfg")
        open(cfg, "w").write(cfg_text(c, ["SpecOK", "Emit"]))
        return tag, mode, c, tlc(ctx, "adt/TreeWalk", cfg=cfg, workers=2, deadlock=False, tag=tag, timeout=3000, mode_args=["-seed", str(ctx.seed)])

    with ThreadPoolExecutor(max_workers=2) as ex:
        results = list(ex.map(one, runs))
    cases, gen, states, transitions = [], [], 0, 0
    SUBQ_METHODS = {"apply", "visit", "transform_down", "transform_up", "transform_down_up", "rewrite"}
    for tag, mode, c, r in results:
        if not r.ok or r.invariant_violated:
            sys.stderr.write("\n".join(l for l in r.out.splitlines() if not l.startswith("<<"))[-3000:])
            raise ToolError(f"TLC run {tag} of TreeWalk failed (specification-level)")
        cs = tlc_cases(r.out)
        uniq = list({json.dumps(x, sort_keys=True): x for x in cs}.values())
        if mode == "subq":
            # the *_with_subqueries family exists for these methods; keep the cases that contain an embedded subquery
            uniq = [x for x in uniq if x["method"] in SUBQ_METHODS and x["subs"]]
        for x in uniq:
            x["mode"] = mode
        gen.append({"run": tag, "mode": mode, "constants": c, "cases": len(uniq), "distinct_states": r.distinct})
        cases += uniq
        states += r.distinct
        transitions += max(r.generated, 1)
    cases = list({json.dumps(x, sort_keys=True): x for x in cases}.values())
    methods = {c["method"] for c in cases}
    shapes = {json.dumps(c["size"]) for c in cases if c["mode"] == "tree"}
    nsub = sum(1 for c in cases if c["mode"] == "subq")
    nstar = sum(1 for c in cases if c["mode"] == "star")
    if len(methods) != 9 or len(shapes) < 20 or len(cases) < 2000 or nsub < 100 or nstar < 100:
        raise ToolError(f"vacuity: methods {methods}, tree shapes {len(shapes)}, cases {len(cases)}, subquery cases {nsub}, star cases {nstar}")
    write_ndjson(ctx.path("cases.ndjson"), cases)
    summary, _ = run_harness(ctx, "vadt", ["c42", "--in", ctx.path("cases.ndjson"), "--out", ctx.path("res.json")], timeout=3000)
    res = json.load(open(ctx.path("res.json")))
    n_unknown = 0
    for v in res["violations"]:
        if v.get("known_key"):
            report_violation(ctx, v, key=v["known_key"])
        elif n_unknown < 5:
            n_unknown += 1
            report_violation(ctx, v)
    want = ["Expr", "LogicalPlan", "Arc<dyn PhysicalExpr>", "Arc<dyn ExecutionPlan>", "ExprContext<String>", "PlanContext<String>",
            "LogicalPlan+subqueries"]
    missing = [t for t in want if t not in res["per_tree_type"]]
    missing += [p + "/*" + suf for p, suf in res["expected_variants"]
                if not any(k.startswith(p + "/") and k.endswith(suf) for k in res["per_tree_type"])]
    if missing:
        raise ToolError(f"vacuity: tree types / node variants never driven: {missing}")
    sample = [c for c in cases if len(c["size"]) >= 4 and c["method"] == "rewrite" and "J" in json.dumps(c["dec"]) and c["tr"] == 1][:1] or cases[:1]
    write_evidence(ctx, "model_checking", {
        "states": states, "transitions": transitions,
        "traces_validated_against_impl": res["evaluations"],
        "samples": sample, "exhaustive": True,
        "case_generation": gen, "cases": len(cases), "methods": sorted(methods), "tree_shapes": len(shapes),
        "per_tree_type_or_variant": res["per_tree_type"], "node_variants_driven": len(res["expected_variants"]),
        "distinct_nontrivial": res["distinct_nontrivial"], "violations_total": res["violations_total"],
        "subquery_cases": nsub, "star_cases": nstar, "contract_invariants": ["OrderOK", "OnceOK", "JumpOK", "UpJumpOK", "StopOK", "StopTnr", "MarksOK", "NestOK", "ExistsOK"],
        "rule": "a case = tree shape x method x decision vector x change vector; non-trivial = some Jump/Stop decision or a reported change; distinct = distinct cases",
    }, assumptions=[
        "general trees use labelled nodes: Expr = Column / Alias / ScalarFunction(udf); LogicalPlan = EmptyRelation / SubqueryAlias / Extension; Arc<dyn PhysicalExpr> and Arc<dyn ExecutionPlan> = harness nodes (DynTreeNode path); ExprContext / PlanContext (ConcreteTreeNode path, payload kept in sync is checked)",
        "child enumeration of the other variants is driven by STAR cases (root + k leaves): every Expr variant with children except HigherOrderFunction, 16 LogicalPlan variants for inputs, 15 for apply_expressions / map_expressions; the expected node is rebuilt independently in documented field order and compared with ==",
        "*_with_subqueries: one-child model nodes listed in `subs` are LogicalPlan::Subquery nodes embedded through Exists / InSubquery / ScalarSubquery in an Extension node's or a Filter's expressions; a Jump returned from an embedded subquery is absorbed at the expression boundary (the engine's expression walk turns it into Continue) - modelled by SUBQ",
        "not driven: Expr::HigherOrderFunction, LogicalPlan variants Explain / Dml / Copy / Ddl / Unnest / Statement / TableScan filters, map_uncorrelated_subqueries",
        "a reported replacement keeps the children and re-labels the node; callbacks that change the tree shape are out of scope",
        "LogicalPlan subquery traversal (apply_with_subqueries etc.) is not driven",
        "binding demonstrated while building: the first version of the Jump invariant (f_down Jump also skips the node's own f_up) was rejected by TLC against the transcribed semantics and corrected from the documentation of TreeNodeRecursion::Jump",
    ])
