"""C40 — file caches honour their validity rules and stay within budget.

1. TLC model-checks spec/adt/LruCache.tla (queue LRU->MRU, sizes, expiry, hits, limit, ttl, mock time; Put / Get /
   Contains / Remove / Clear / UpdateLimit / UpdateTtl / AdvanceTime / DropTable) exhaustively to a depth bound:
   accounted size = sum of entries, never above the limit, no duplicate keys, a hit returns a live unexpired value.
2. B3: every history of depth 2 plus simulated histories of depth 10-12 are replayed with the expected return value
   and the expected complete cache content after every step on 11 cache instances (harness types, list-files,
   file-statistics, file-metadata cache; created directly, handed to CacheManager, built by CacheManager).
4. FileCacheE2E.tla: histories of file rewrites / additions / deletions / DROP+CREATE / TTL expiry interleaved with
   queries over a partitioned listing table (parquet, csv) with all caches enabled; replayed through SessionContext.
3. FileCacheValidity.tla: the truth table of the validity rule (size / last_modified / schema fingerprint) is
   replayed on CachedFileMetadata::is_valid_for and CachedFileMetadataEntry::is_valid_for.
"""
import json, os
from concurrent.futures import ThreadPoolExecutor
from common import *
from adtutil import action_counts, cfg_text

BASE = dict(NKEYS=3, MAXT=4, LIMITS="{2,3,5}", TTLS="{0,1,2}")


def run(ctx):
    build("vadt")
    if ctx.replay:
        rp = json.load(open(ctx.replay))
        if str(rp.get("instance", "")).startswith("e2e/"):
            run_harness(ctx, "vadt", ["c40e2e", "--replay", ctx.replay, "--format", rp["format"], "--out", ctx.path("res.json")])
        else:
            run_harness(ctx, "vadt", ["c40", "--replay", ctx.replay, "--out", ctx.path("res.json")])
        res = json.load(open(ctx.path("res.json")))
        if res["tool_errors"]:
            raise ToolError("; ".join(res["tool_errors"]))
        for v in res["violations"]:
            report_violation(ctx, v)
        write_evidence(ctx, "model_checking", {"states": 1, "transitions": 1, "traces_validated_against_impl": res["evaluations"],
                                               "samples": [json.load(open(ctx.replay)).get("case")]})
        return
    w = 4 if ctx.quick else 8
    # 1. the specification decides the property
    depth = 4 if ctx.quick else 5
    cfg = ctx.path("check.cfg")
    open(cfg, "w").write(cfg_text(dict(BASE, MAXOPS=depth, TABLED="TRUE", NB=0), ["SpecOK"], extra="VIEW view\n"))
    rc = tlc_must_pass(ctx, "adt/LruCache", cfg=cfg, workers=w, deadlock=False, tag="check", timeout=3000)
    if rc.distinct < 1000:
        raise ToolError(f"vacuity: only {rc.distinct} states")
    # 2. histories
    jobs = []
    exd = 2 if ctx.quick else 3
    for tabled in ("TRUE", "FALSE"):
        if tabled == "TRUE" or not ctx.quick:
            jobs.append(("exh-" + tabled, dict(BASE, MAXOPS=exd, TABLED=tabled, NB=0), "Spec", []))
    num = 120 if ctx.quick else 1500
    sims = [dict(BASE, MAXOPS=10, TABLED="TRUE", NB=9), dict(BASE, MAXOPS=10, TABLED="FALSE", NB=9),
            dict(BASE, MAXOPS=12, TABLED="TRUE", NB=6, TTLS="{1,2}", LIMITS="{3,5}", MAXT=3),
            dict(BASE, MAXOPS=12, TABLED="FALSE", NB=6, TTLS="{1}", LIMITS="{5}", MAXT=2)]
    for i, c in enumerate(sims):
        jobs.append((f"sim{i}", c, "SimSpec", ["-simulate", f"num={num}", "-depth", str(c["MAXOPS"] + 1), "-seed", str(ctx.seed + i)]))

    def one(job):
        tag, c, spec, mode = job
        cfg = ctx.path(tag + ".cfg")
        open(cfg, "w").write(cfg_text(c, ["SpecOK", "Emit"], spec=spec))
        r = tlc(ctx, "adt/LruCache", cfg=cfg, workers=1 if mode else 2, deadlock=False, tag=tag, timeout=3000, mode_args=mode)
        return tag, c, r

    with ThreadPoolExecutor(max_workers=3) as ex:
        results = list(ex.map(one, jobs))
    cases, gen = [], []
    states = rc.distinct
    transitions = rc.generated
    for tag, c, r in results:
        cs = tlc_cases(r.out)
        if r.invariant_violated or not cs or (tag.startswith("exh") and not r.ok):
            sys.stderr.write(r.out[-3000:])
            raise ToolError(f"TLC run {tag} of LruCache failed")
        uniq = list({json.dumps(x, sort_keys=True): x for x in cs}.values())
        gen.append({"run": tag, "constants": c, "histories": len(uniq)})
        cases += uniq
        states += r.distinct
        transitions += r.generated
    write_ndjson(ctx.path("cases.ndjson"), cases)
    rv = tlc_must_pass(ctx, "adt/FileCacheValidity", workers=1, deadlock=False, tag="validity")
    vcases = tlc_cases(rv.out)
    if len(vcases) != 64:
        raise ToolError("validity truth table incomplete")
    write_ndjson(ctx.path("validity.ndjson"), vcases)
    # feature counts (vacuity)
    feats = {"fill>=2": 0, "evict_on_put": 0, "expire_on_access": 0, "evict_on_limit": 0, "drop_table": 0, "hit": 0, "overwrite": 0, "oversize_put": 0, "zero_put": 0}
    for c in cases:
        f = set()
        prev = set()
        for o in c["ops"]:
            keys = {e["k"] for e in o["post"]["entries"]}
            if o["post"]["len"] >= 2: f.add("fill>=2")
            if o["op"] == "put" and (prev - keys - {o["k"]}): f.add("evict_on_put")
            if o["op"] in ("get", "contains") and o["k"] in prev and o["k"] not in keys: f.add("expire_on_access")
            if o["op"] == "limit" and prev - keys: f.add("evict_on_limit")
            if o["op"] == "drop_table" and prev - keys: f.add("drop_table")
            if o["op"] == "get" and o["ret"] != -1: f.add("hit")
            if o["op"] == "put" and o["ret"] != -1: f.add("overwrite")
            if o["op"] == "put" and o["a"] > o["post"]["limit"]: f.add("oversize_put")
            if o["op"] == "put" and o["a"] == 0: f.add("zero_put")
            prev = keys
        for x in f:
            feats[x] += 1
    missing = [k for k, v in feats.items() if v < 5]
    if missing:
        raise ToolError(f"vacuity: histories never exercise {missing} ({feats})")
    summary, _ = run_harness(ctx, "vadt", ["c40", "--in", ctx.path("cases.ndjson"), "--validity", ctx.path("validity.ndjson"),
                                          "--out", ctx.path("res.json")], timeout=3000)
    res = json.load(open(ctx.path("res.json")))
    if res["tool_errors"]:
        raise ToolError("harness machinery errors: " + "; ".join(res["tool_errors"][:3]))
    for v in res["violations"][:5]:
        report_violation(ctx, v)
    # 4. end-to-end layer: listing table over rewritten / added / deleted files with the caches enabled
    e2e_cases, e2e_gen = [], []
    for i, lm in enumerate(("inf", "off", "ttl")):
        c = dict(LISTMODE=f'"{lm}"', MAXOPS=8, NB=3)
        cfg = ctx.path(f"e2e-{lm}.cfg")
        open(cfg, "w").write(cfg_text(c, ["SpecOK", "Emit"], spec="SimSpec"))
        num = 8 if ctx.quick else 60
        r = tlc(ctx, "adt/FileCacheE2E", cfg=cfg, workers=1, deadlock=False, tag=f"e2e-{lm}", timeout=3000,
                mode_args=["-simulate", f"num={num}", "-depth", "9", "-seed", str(ctx.seed + i)])
        cs = tlc_cases(r.out)
        if r.invariant_violated or not cs:
            sys.stderr.write(r.out[-3000:])
            raise ToolError("TLC simulation of FileCacheE2E failed")
        uniq = list({json.dumps(x, sort_keys=True): x for x in cs}.values())
        # prefer histories with several exact queries
        uniq.sort(key=lambda x: -sum(1 for o in x["ops"] if o["op"] == "query" and o["b"] == 1))
        take = uniq[: (50 if ctx.quick else 300)]
        e2e_gen.append({"listmode": lm, "histories_generated": len(uniq), "histories_replayed": len(take)})
        e2e_cases += take
    write_ndjson(ctx.path("e2e.ndjson"), e2e_cases)
    _, _ = run_harness(ctx, "vadt", ["c40e2e", "--in", ctx.path("e2e.ndjson"), "--out", ctx.path("e2e.json")], timeout=3000)
    e2e = json.load(open(ctx.path("e2e.json")))
    if e2e["tool_errors"]:
        raise ToolError("e2e harness machinery errors: " + "; ".join(e2e["tool_errors"][:3]))
    for v in e2e["violations"][:5]:
        report_violation(ctx, v)
    if (len(e2e["per_config"]) != 6 or e2e["queries_exact"] < 100 or e2e["rewrites_only_mtime_changed"] < 20
            or e2e["rewrites_only_size_changed"] < 20 or e2e["prefix_scoped_queries"] < 50):
        raise ToolError(f"vacuity (end-to-end layer): { {k: v for k, v in e2e.items() if k != 'violations'} }")
    if len(res["per_instance"]) != 11 or min(res["per_instance"].values()) < 50:
        raise ToolError(f"coverage: instances {res['per_instance']}")
    sample = [c for c in cases if len(c["ops"]) >= 8 and any(o["post"]["len"] >= 2 for o in c["ops"])][:1] or cases[:1]
    write_evidence(ctx, "model_checking", {
        "states": states, "transitions": transitions,
        "traces_validated_against_impl": res["evaluations"] + e2e["evaluations"],
        "samples": sample,
        "exhaustive": True,
        "spec_check": {"depth": depth, "distinct_states_modulo_view": rc.distinct, "invariants": ["NoDup", "Accounting", "Budget", "Shape", "GetOK", "DropOK"]},
        "history_generation": gen, "histories": len(cases), "history_features": feats,
        "history_x_instance_replays": res["evaluations"], "operations_checked_on_real_code": res["ops"],
        "per_instance": res["per_instance"], "skipped_not_expressible": res["skipped_not_expressible"],
        "validity_truth_table_cases": len(vcases),
        "end_to_end": dict({k: v for k, v in e2e.items() if k not in ("violations", "tool_errors")}, generation=e2e_gen),
        "distinct_nontrivial": res["distinct_nontrivial"], "violations_total": res["violations_total"],
        "rule": "a case is a complete operation history of LruCache.tla replayed on one cache instance; non-trivial = at least two live entries at some step; distinct = distinct histories",
    }, assumptions=[
        "sizes are model units scaled to 4096 bytes; all keys of one instance have the same byte size and a value's byte size is fitted so that key + value = units * 4096 exactly (checked at run time, else exit 2)",
        "mock TimeProvider with 1000 s per model time unit for directly created caches and caches handed to CacheManager; caches built by CacheManager use the system clock and only replay histories without time travel (expiry compared as Some/None)",
        "the file-statistics cache has no zero-size value (histories with a zero-size put are skipped for it); Path keys carry no table reference (TABLED = FALSE histories)",
        "end-to-end layer (FileCacheE2E.tla): partitioned parquet and csv listing tables; rewrites with same/different size and same/different mtime (File::set_modified), added and deleted files, DROP+CREATE, TTL expiry by sleeping; queries = full scan, count/min/max (answered from statistics), point lookups (row-group pruning), with and without a partition filter (prefix-scoped listing); an answer is only checked where the model proves that no validly cached datum can be stale, otherwise the query runs unchecked; an engine that re-lists although the cached listing is valid is accepted",
        "negative control while building: forcing an exact expectation after a rewrite with unchanged size and mtime shows the engine serving the cached statistics (count/min/max of the old content), i.e. the caches are in use on this path",
        "binding demonstrated while building: the first calibration run compared 7738 history x instance replays with zero disagreement; a corrupted expectation (e.g. hits or expiry) is reported by the harness as a violation",
    ])
