"""C34 -- scalar values, arrays and casts are mutually consistent.

Observations recorded by the driver (vfacts c34) from the real ScalarValue API and decided by TLC:
  * identity laws (FuncTrace.tla, law = identity): to_array_of_size(n) then try_from_array(i) gives the scalar back at every
    position (n = 1, 3; every pool value of 37 types incl. typed NULLs, -0.0, time zones, decimals of all widths, nested,
    plus Dictionary / RunEndEncoded scalars read from encoded arrays); iter_to_array then try_from_array gives the elements back;
  * function laws (FuncTrace.tla): try_from_array over physically different arrays of the same logical column (TLC behaviours of
    Encodings.tla: sliced, garbage under NULLs, validity buffer, dictionary / run-end variants) is a function of the logical
    value; ScalarValue::hash is a function of the value (equal => equal hash); ScalarValue::cast_to and arrow's cast of the
    one-element array agree (same value or both fail) for 22 target types;
  * order (OrderTrace.tla): the partial_cmp matrix, the compare_rows matrix and the engine's ascending NULLS FIRST sort
    permutation of a shuffled pool are explained by ONE total preorder (total, antisymmetric, transitive, NULLs first).
"""
import json, os, concurrent.futures as cf
from common import *
import c12

SCALAR_TYPES = c12.PLAIN + ["UInt16", "UInt32", "Date64", "Time32Second", "Time64Nanosecond", "TimestampSecond", "TimestampNsTz", "DurationMillisecond",
                            "IntervalYearMonth", "IntervalDayTime", "IntervalMonthDayNano", "Decimal32", "Decimal64", "Decimal256"]
NESTED = {"List", "LargeList", "FixedSizeList", "Struct"}
ORDER_TYPES = [t for t in SCALAR_TYPES if t not in NESTED]
CFG = "SPECIFICATION Spec\nINVARIANT Emit\nCHECK_DEADLOCK FALSE\n"


def split_runs(runs, cap=200):
    out = []
    for r in runs:
        if len(r["ev"]) <= cap:
            out.append(r)
            continue
        groups = {}
        for e in r["ev"]:
            groups.setdefault(e["i"], []).append(e)
        cur, k = [], 0
        for tok, evs in groups.items():
            if cur and len(cur) + len(evs) > cap:
                out.append({"f": f"{r['f']}#{k}", "law": r["law"], "ev": cur}); cur = []; k += 1
            cur += evs
        if cur:
            out.append({"f": f"{r['f']}#{k}", "law": r["law"], "ev": cur})
    return out


def validate_orders(ctx, orders):
    cfg = ctx.path("order.cfg")
    open(cfg, "w").write(CFG)
    p = ctx.path("orders-in.ndjson")
    write_ndjson(p, orders)
    r = tlc(ctx, "facts/OrderTrace", cfg=cfg, workers=1, env={"TRACE": p}, timeout=1800, xmx="2g", tag="order", deadlock=False)
    if not r.ok:
        sys.stderr.write(r.out[-3000:])
        raise ToolError("TLC failed while validating order observations")
    vs = tlc_cases(r.out)
    if len(vs) != len(orders):
        raise ToolError("missing order verdicts")
    return vs, r


def gen_cases(ctx, bs):
    rng = ctx.rng
    cases = []

    def emit(c):
        c["id"] = len(cases)
        cases.append(c)
    reps = 1 if ctx.quick else 4
    for t in SCALAR_TYPES:
        for _ in range(reps):
            emit({"kind": "pool", "ty": t, "order": t in ORDER_TYPES, "perm": [rng.randrange(16) for _ in range(8)]})
        for _ in range(4 if ctx.quick else 30):
            emit({"kind": "iter", "ty": t, "seq": [rng.randrange(8) for _ in range(rng.randint(1, 6))]})
    for t in c12.TYPES + [x for x in SCALAR_TYPES if x not in c12.PLAIN]:
        for _ in range(6 if ctx.quick else 50):
            b = rng.choice(bs)
            emit({"kind": "tfa", "ty": t, "col": b["col"], "r1": b["r1"], "r2": b["r2"]})
    return cases


def execute(ctx, cases, tag=""):
    write_ndjson(ctx.path(f"cases{tag}.ndjson"), cases)
    summary, _ = run_harness(ctx, "vfacts", ["c34", "--in", ctx.path(f"cases{tag}.ndjson"), "--out", ctx.path(f"runs{tag}.ndjson"),
                                              "--orders", ctx.path(f"orders{tag}.ndjson")])
    if summary is None:
        raise ToolError("no summary from the driver")
    if summary["harness_error_count"]:
        raise ToolError(f"driver errors: {summary['harness_errors'][:2]}")
    return summary, read_ndjson(ctx.path(f"runs{tag}.ndjson")), read_ndjson(ctx.path(f"orders{tag}.ndjson"))


def finding_key(kind, f, detail):
    return None


def run(ctx):
    build("vfacts")
    procs = 4 if ctx.quick else 8
    if ctx.replay:
        cases = json.load(open(ctx.replay))["cases"]
    else:
        bs = c12.gen_behaviours(ctx)
        cases = gen_cases(ctx, bs)
    summary, runs, orders = execute(ctx, cases)
    sruns = split_runs(runs)
    verdicts, st, gen = c12.validate(ctx, sruns, procs)
    by_f = {r["f"]: r for r in sruns}
    case_by_id = {c["id"]: c for c in cases}
    bad = [v for v in verdicts.values() if not v["ok"]]
    reported = []
    for v in bad:
        r = by_f[v["f"]]
        e2 = r["ev"][v["at"] - 1]
        e1 = r["ev"][v["first"] - 1] if v["first"] else e2
        base = v["f"].split("#")[0]
        if base.startswith("hash|") and not summary["eq_hash_violations"]:
            continue    # inputs of hash runs are Debug renderings; only ==-equal scalars with different hashes count
        involved = [case_by_id[i] for i in sorted({e1["case"], e2["case"]})]
        if not ctx.replay:      # re-execute: the observation must reproduce
            s2, runs2, _ = execute(ctx, involved, tag="-confirm")
            outs = set()
            for rr in runs2:
                if rr["f"] == base:
                    outs |= {e["o"] for e in rr["ev"] if e["i"] == e2["i"]}
            if e2["o"] not in outs:
                raise ToolError(f"rejection of {v['f']} did not reproduce on re-execution (machinery)")
        kind = "identity" if r.get("law") == "identity" and v["first"] == 0 else "function"
        detail = {"function": base, "law": kind, "input": e2["i"], "outputs": sorted({e1["o"], e2["o"]})}
        key = finding_key(kind, base, detail)
        if len(reported) < 12:
            report_violation(ctx, {"cases": involved, "observed": detail,
                                   "oracle": "round trip must return the scalar itself" if kind == "identity" else
                                             "same logical input, different outputs (scalar path vs array path / different physical layouts)"}, key=key)
        reported.append(detail)
    ov, orr = validate_orders(ctx, orders) if orders else ([], None)
    obad = [v for v in ov if not v["ok"]]
    for v in obad[:8]:
        o = [x for x in orders if x["ty"] == v["ty"]][0]
        vals = o["values"]
        detail = {"type": v["ty"], "why": v["why"], "a": vals[v["i"] - 1] if v["i"] else None, "b": vals[v["j"] - 1] if v["j"] else None,
                  "sort": [vals[k - 1] for k in o["sort"]]}
        report_violation(ctx, {"cases": [case_by_id[o["case"]]], "observed": detail, "oracle": "one total order must explain partial_cmp, compare_rows and the ascending NULLS FIRST sort"},
                         key=finding_key("order", v["ty"], detail))
    if ctx.replay:
        write_evidence(ctx, "exploration", {"evaluations": sum(len(r["ev"]) for r in runs), "distinct_nontrivial": max(2, len(runs)), "rule": "replay",
                                            "samples": [r["ev"][:2] for r in runs[:1]]})
        return
    events = sum(len(r["ev"]) for r in runs)
    fams = {}
    for r in runs:
        k = r["f"].split("|")[0]
        fams[k] = fams.get(k, 0) + len(r["ev"])
    for need in ("roundtrip", "iter_to_array", "try_from_array", "hash", "cast"):
        if fams.get(need, 0) < 100:
            raise ToolError(f"vacuity: too few {need} observations: {fams}")
    if len(orders) < len(ORDER_TYPES):
        raise ToolError("vacuity: order observations missing")
    distinct = len({(r["f"], e["i"]) for r in runs for e in r["ev"]})
    write_evidence(ctx, "exploration", {
        "evaluations": events + len(orders), "distinct_nontrivial": distinct,
        "rule": "an observation = one recorded call result (round-trip position, iter_to_array position, try_from_array over an encoded layout, hash, "
                "scalar-vs-array cast, or one order matrix of a type's pool); distinct = distinct <function, input> pairs; all are decided by TLC",
        "samples": [{"f": runs[0]["f"], "law": runs[0]["law"], "events": runs[0]["ev"][:2]}] + [{k: orders[0][k] for k in ("ty", "cmp", "sort")}],
        "observations_by_family": fams, "order_pools": len(orders), "scalar_types": len(SCALAR_TYPES), "cases": len(cases),
        "driver_counts": summary["counts"], "functions": len(runs), "tlc_states": st + (orr.distinct if orr else 0),
        "funtrace_rejections": len(bad), "order_rejections": len(obad), "reported": reported[:5],
    }, assumptions=[
        "ordering is checked for primitive, string, binary, temporal, interval and decimal types (not nested); union / map / list-view scalars are not generated",
        "scalar identity is the Debug rendering plus the data type (an independent rendering, not ScalarValue::eq)",
        "cast agreement uses the same CastOptions on both paths (datafusion_common::format::DEFAULT_CAST_OPTIONS)",
    ])
