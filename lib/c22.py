"""C22 -- statistics-based pruning never skips a container with a matching row; literal guarantees hold.

1. TLC checks the specification-level lemma of Prune.tla (first-position enumeration = whole-container enumeration).
2. Inputs: seeded random predicates (comparisons, IN / NOT IN, LIKE / NOT LIKE over the string pool, IS [NOT] NULL,
   IS [NOT] DISTINCT FROM, NOT, AND/OR, casts, negation, column arithmetic, boolean columns, 1-2 columns) and statistics:
   (a) free-standing statistics, (b) B3: containers drawn by TLC (PruneGen.tla), their exact statistics weakened
   (bounds loosened, any statistic unknown, per call or per container, membership sets for contained()).
3. The driver (vfacts c22) builds the real PruningPredicate, answers min/max/null_count/row_count/contained from the
   generated statistics and records every decision and every LiteralGuarantee.
4. B2, semantic form: TLC (PruneTrace.tla) accepts a `skip` iff no container over the scope that the statistics admit
   has a row on which the predicate is TRUE (three-valued Expr.tla semantics), a guarantee iff it holds on every row of
   the scope where the predicate is TRUE.  Witness containers are materialised and evaluated in the engine first.
"""
import json, os, concurrent.futures as cf
from common import *

POOL = ["", "a", "ab", "abc", "ac", "b", "ba", "c"]
INTS = list(range(-2, 4))
NULL = {"k": "n", "v": 0}
CMPS = ["=", "<>", "<", "<=", ">", ">="]


def I(n): return {"k": "i", "v": n}
def S(n): return {"k": "s", "v": n}
def Bv(b): return {"k": "b", "v": 1 if b else 0}
def col(i): return {"op": "col", "i": i}
def lit(v): return {"op": "lit", "v": v}
def bin_(f, l, r): return {"op": "bin", "f": f, "l": l, "r": r}
def un(f, e): return {"op": "un", "f": f, "e": e}


def cls_of(t):
    return {"i": "i", "l": "i", "s": "s", "v": "s", "b": "b"}[t]


def dom(t):
    c = cls_of(t)
    if c == "i":
        return [I(n) for n in INTS]
    if c == "s":
        return [S(n) for n in range(1, len(POOL) + 1)]
    return [Bv(False), Bv(True)]


def pat(s):
    return [{"a": 1, "b": 2, "c": 3, "%": 100, "_": 101, "\\": 102}[ch] for ch in s]


PATTERNS = ["a%", "ab%", "b%", "abc%", "c%", "%", "ab", "a_", "a_%", "%b", "a%c", "", "ba%", "ac%", "b_", "aa%",
            "a\\%%", "a\\_%", "ab\\", "\\a%", "a\\%", "_", "__%", "c", "abc", "ab_", "%a%"]


def atom(rng, cols):
    i = rng.randrange(len(cols)) + 1
    t = cols[i - 1]["ty"]
    c = cls_of(t)
    r = rng.random()
    if r < 0.08:
        return un("isnull" if rng.random() < 0.5 else "isnotnull", col(i))
    if c == "i":
        n = rng.choice([-3, -2, -1, 0, 1, 2, 3, 4])
        if r < 0.45:
            e = bin_(rng.choice(CMPS), col(i), lit(I(n)))
            if rng.random() < 0.25:
                e = bin_({"<": ">", "<=": ">=", ">": "<", ">=": "<=", "=": "=", "<>": "<>"}[e["f"]], lit(I(n)), col(i))
            return e
        if r < 0.55:
            return bin_(rng.choice(CMPS), un("neg", col(i)), lit(I(n)))
        if r < 0.65 and t == "i":
            return bin_(rng.choice(CMPS), {"op": "cast", "e": col(i), "to": "l", "try": rng.random() < 0.4}, lit(I(n)))
        if r < 0.72:
            return bin_(rng.choice(CMPS), bin_(rng.choice(["+", "-"]), col(i), lit(I(rng.choice([1, 2])))), lit(I(n)))
        if r < 0.86:
            k = rng.choice([1, 1, 2, 3])
            lst = [lit(I(rng.choice([-3, -2, -1, 0, 1, 2, 3, 4]))) for _ in range(k)]
            if rng.random() < 0.12:
                lst.append(lit(NULL))
            return {"op": "in", "e": col(i), "list": lst, "neg": rng.random() < 0.45}
        if r < 0.94:
            return bin_(rng.choice(["isdistinct", "isnotdistinct"]), col(i), lit(NULL if rng.random() < 0.25 else I(n)))
        others = [j + 1 for j, cc in enumerate(cols) if cls_of(cc["ty"]) == "i" and j + 1 != i and cc["ty"] == t]
        if others:
            return bin_(rng.choice(CMPS), col(i), col(others[0]))
        return bin_(rng.choice(CMPS), col(i), lit(I(n)))
    if c == "s":
        n = rng.randrange(1, len(POOL) + 1)
        if r < 0.40:
            return bin_(rng.choice(CMPS), col(i), lit(S(n)))
        if r < 0.78:
            return {"op": "like", "e": col(i), "pat": pat(rng.choice(PATTERNS)), "neg": rng.random() < 0.45}
        if r < 0.92:
            lst = [lit(S(rng.randrange(1, len(POOL) + 1))) for _ in range(rng.choice([1, 2, 3]))]
            return {"op": "in", "e": col(i), "list": lst, "neg": rng.random() < 0.45}
        return bin_(rng.choice(["isdistinct", "isnotdistinct"]), col(i), lit(S(n)))
    # boolean column
    if r < 0.35:
        return col(i)
    if r < 0.6:
        return un("not", col(i))
    if r < 0.8:
        return bin_(rng.choice(["=", "<>"]), col(i), lit(Bv(rng.random() < 0.5)))
    return bin_(rng.choice(["=", "<>"]), un("not", col(i)), lit(Bv(rng.random() < 0.5)))


def same_class_cols(cols, i):
    return [j + 1 for j, cc in enumerate(cols) if j + 1 != i and cc["ty"] == cols[i - 1]["ty"]]


def rand_lit(rng, t, wide=True):
    c = cls_of(t)
    if c == "i":
        return lit(I(rng.choice([-3, -2, -1, 0, 1, 2, 3, 4] if wide else INTS)))
    if c == "s":
        return lit(S(rng.randrange(1, len(POOL) + 1)))
    return lit(Bv(rng.random() < 0.5))


def in_atom(rng, cols, i=None, literal_only=False, big=False):
    """[NOT] IN lists: literals, NULL entries, column references and small expressions; tested expression a column or a small expression"""
    i = i or rng.randrange(len(cols)) + 1
    t = cols[i - 1]["ty"]
    c = cls_of(t)
    k = rng.choice([1, 2, 2, 3, 4]) if not big else rng.randint(21, 24)
    items = [rand_lit(rng, t) for _ in range(k)]
    if not literal_only:
        r = rng.random()
        others = same_class_cols(cols, i)
        if r < 0.45:
            items.insert(rng.randrange(len(items) + 1), col(rng.choice(others)) if others and rng.random() < 0.7 else col(i))
        elif r < 0.6 and c == "i":
            items.append(bin_("+", col(rng.choice(others) if others else i), lit(I(1))))
        elif r < 0.7 and c == "i":
            items.append(un("neg", col(rng.choice(others) if others else i)))
    if rng.random() < 0.15:
        items.insert(rng.randrange(len(items) + 1), lit(NULL))
    e = col(i)
    if not literal_only and c == "i" and rng.random() < 0.12:
        e = bin_("+", col(i), lit(I(1))) if rng.random() < 0.5 else {"op": "cast", "e": col(i), "to": "l" if t == "i" else "i", "try": False}
    return {"op": "in", "e": e, "list": items, "neg": rng.random() < 0.45}


def eq_term(rng, cols, i=None, ops=("=", "=", "<>")):
    i = i or rng.randrange(len(cols)) + 1
    l = rand_lit(rng, cols[i - 1]["ty"], wide=False)
    f = rng.choice(ops)
    return bin_(f, col(i), l) if rng.random() < 0.75 else bin_(f, l, col(i))


def guar_pred(rng, cols):
    """shapes LiteralGuarantee::analyze reasons about: conjunctions of col =/<> literal and [NOT] IN, disjunctions of equalities,
    disjunctions of conjunctions, and the near misses that must NOT produce a guarantee"""
    def term(i=None):
        r = rng.random()
        if r < 0.45:
            return eq_term(rng, cols, i)
        if r < 0.9:
            return in_atom(rng, cols, i, literal_only=rng.random() < 0.45, big=rng.random() < 0.06)
        return atom(rng, cols)

    def conj(n, i=None):
        e = term(i)
        for _ in range(n - 1):
            e = bin_("and", e, term(i if rng.random() < 0.6 else None))
        return e
    r = rng.random()
    i = rng.randrange(len(cols)) + 1
    if r < 0.25:                       # conjunction, often on one column (intersection / invalidation of guarantees)
        return conj(rng.choice([1, 2, 2, 3]), i if rng.random() < 0.7 else None)
    if r < 0.5:                        # disjunction of equalities, possibly spoiled by another operator / column / <>
        ts = [eq_term(rng, cols, i, ops=("=",)) for _ in range(rng.choice([2, 2, 3]))]
        x = rng.random()
        if x < 0.2:
            ts.append(atom(rng, cols))
        elif x < 0.35:
            ts.append(eq_term(rng, cols, None))
        elif x < 0.45:
            ts.append(in_atom(rng, cols, i))
        rng.shuffle(ts)
        e = ts[0]
        for t in ts[1:]:
            e = bin_("or", e, t)
        return e if rng.random() < 0.6 else bin_("and", e, term())
    if r < 0.8:                        # (a = 1 AND c = 2) OR (a = 2 AND c IN (..)) ...
        ts = []
        for _ in range(rng.choice([2, 2, 3])):
            parts = [eq_term(rng, cols, j + 1, ops=("=", "=", "=", "<>")) if rng.random() < 0.65 else in_atom(rng, cols, j + 1, literal_only=rng.random() < 0.5)
                     for j in range(len(cols)) if rng.random() < 0.85]
            if rng.random() < 0.15:
                parts.append(eq_term(rng, cols, i))           # the same column twice in a termset
            if rng.random() < 0.15:
                parts.append(atom(rng, cols))
            if not parts:
                parts = [eq_term(rng, cols, i)]
            e = parts[0]
            for q in parts[1:]:
                e = bin_("and", e, q)
            ts.append(e)
        e = ts[0]
        for t in ts[1:]:
            e = bin_("or", e, t)
        return e if rng.random() < 0.7 else bin_("and", e, term())
    return bin_(rng.choice(["and", "or"]), conj(2), conj(2))


def extra_atom(rng, cols):
    """branches of build_predicate_expression / rewrite_expr_to_prunable the basic atoms do not reach"""
    i = rng.randrange(len(cols)) + 1
    t = cols[i - 1]["ty"]
    c = cls_of(t)
    r = rng.random()
    if r < 0.12:
        return lit(Bv(rng.random() < 0.5))                                   # constant predicates (is_always_true / is_always_false)
    if r < 0.2:
        return lit(NULL) if False else bin_("=", lit(I(1)), lit(I(rng.choice([1, 2]))))   # literal op literal
    if c == "s":
        if r < 0.5:
            to = "v" if t == "s" else "s"
            return bin_(rng.choice(CMPS), {"op": "cast", "e": col(i), "to": to, "try": rng.random() < 0.3}, lit(S(rng.randrange(1, len(POOL) + 1))))
        if r < 0.75:
            return in_atom(rng, cols, i)
        return {"op": "like", "e": col(i) if rng.random() < 0.8 else {"op": "cast", "e": col(i), "to": "v" if t == "s" else "s", "try": False},
                "pat": pat(rng.choice(PATTERNS)), "neg": rng.random() < 0.5}
    if c == "i":
        n = rng.choice([-3, -2, -1, 0, 1, 2, 3, 4])
        others = same_class_cols(cols, i)
        if r < 0.35:
            to = "l" if t == "i" else "i"
            inner = {"op": "cast", "e": col(i), "to": to, "try": rng.random() < 0.4}
            if rng.random() < 0.3:
                inner = un("neg", inner)
            elif rng.random() < 0.2:
                inner = {"op": "cast", "e": inner, "to": t, "try": False}
            return bin_(rng.choice(CMPS + ["isdistinct", "isnotdistinct"]), inner, lit(I(n)))
        if r < 0.5 and others:
            return bin_(rng.choice(CMPS), bin_(rng.choice(["+", "-", "*"]), col(i), col(others[0])), lit(I(n)))
        if r < 0.6:
            return bin_(rng.choice(CMPS), un("neg", un("neg", col(i))), lit(I(n)))
        if r < 0.7:
            return bin_(rng.choice(CMPS), lit(I(n)), un("neg", col(i)))
        if r < 0.85:
            return in_atom(rng, cols, i, big=rng.random() < 0.3)
        return bin_(rng.choice(["isdistinct", "isnotdistinct"]), lit(NULL if rng.random() < 0.3 else I(n)), col(i))
    # boolean
    if r < 0.4:
        return bin_(rng.choice(["isdistinct", "isnotdistinct", "=", "<>"]), un("not", col(i)), lit(Bv(rng.random() < 0.5) if rng.random() < 0.8 else NULL))
    if r < 0.6:
        return un("not", un("not", col(i)))
    if r < 0.8:
        return in_atom(rng, cols, i)
    return bin_(rng.choice(["and", "or"]), col(i), un("not", col(i)))


def gen_pred(rng, cols, depth):
    if depth == 0 or rng.random() < 0.35:
        x = rng.random()
        return atom(rng, cols) if x < 0.6 else extra_atom(rng, cols) if x < 0.85 else in_atom(rng, cols)
    r = rng.random()
    if r < 0.47:
        return bin_("and", gen_pred(rng, cols, depth - 1), gen_pred(rng, cols, depth - 1))
    if r < 0.92:
        return bin_("or", gen_pred(rng, cols, depth - 1), gen_pred(rng, cols, depth - 1))
    return un("not", gen_pred(rng, cols, depth - 1))


def exact_stats(rows, cols):
    st = []
    for i, cdef in enumerate(cols):
        nn = [r[i] for r in rows if r[i]["k"] != "n"]
        d = dom(cdef["ty"])
        lo = min((v["v"] for v in nn), default=None)
        hi = max((v["v"] for v in nn), default=None)
        proto = d[0]
        st.append({"minK": lo is not None, "min": dict(proto, v=lo if lo is not None else proto["v"]),
                   "maxK": hi is not None, "max": dict(proto, v=hi if hi is not None else proto["v"]),
                   "ncK": True, "nc": len(rows) - len(nn), "kK": False, "kset": [proto],
                   "_vals": nn})
    return {"cols": st, "rcK": True, "rc": len(rows)}


def weaken(rng, stats, cols, level, p_k=0.3):
    """loosen / forget statistics; every result stays valid for the container the exact statistics came from"""
    for i, st in enumerate(stats["cols"]):
        d = dom(cols[i]["ty"])
        vals = st.pop("_vals")
        lo_all, hi_all = d[0]["v"], d[-1]["v"]
        if st["minK"] and rng.random() < 0.3 * level:
            st["min"] = dict(st["min"], v=rng.randint(lo_all, st["min"]["v"]))
        if st["maxK"] and rng.random() < 0.3 * level:
            st["max"] = dict(st["max"], v=rng.randint(st["max"]["v"], hi_all))
        for k in ("minK", "maxK", "ncK"):
            if rng.random() < 0.15 * level:
                st[k] = False
        if rng.random() < p_k:       # what a bloom filter / dictionary page knows: a superset of the values present
            ks = {json.dumps(v, sort_keys=True) for v in vals}
            for v in d:
                if rng.random() < 0.2:
                    ks.add(json.dumps(v, sort_keys=True))
            if ks:
                st["kK"] = True
                st["kset"] = [json.loads(x) for x in sorted(ks)]
    if rng.random() < 0.15 * level:
        stats["rcK"] = False
    return stats


def free_stats(rng, cols, p_k=0.25):
    n = rng.randint(0, 3)
    st = []
    for cdef in cols:
        d = dom(cdef["ty"])
        a, b = rng.choice(d), rng.choice(d)
        if a["v"] > b["v"] and rng.random() < 0.9:
            a, b = b, a
        nc = rng.randint(0, n)
        ks = [v for v in d if rng.random() < 0.4] or [d[0]]
        st.append({"minK": rng.random() < 0.8, "min": a, "maxK": rng.random() < 0.8, "max": b, "ncK": rng.random() < 0.8, "nc": nc,
                   "kK": rng.random() < p_k, "kset": ks})
    return {"cols": st, "rcK": rng.random() < 0.85, "rc": n}


COLSETS = [[("a", "i")], [("a", "i")], [("s", "s")], [("s", "v")], [("b", "b")], [("a", "l")], [("a", "i"), ("c", "i")], [("a", "i"), ("s", "s")],
           [("s", "s"), ("b", "b")], [("a", "i"), ("b", "b")], [("s", "v"), ("a", "l")], [("s", "s"), ("t", "s")], [("a", "i"), ("c", "i")],
           [("a", "l"), ("c", "l")], [("b", "b"), ("e", "b")]]


def gen_cases(ctx, containers_by_tys):
    rng = ctx.rng
    n = 900 if ctx.quick else 7000
    cases = []
    for k in range(n):
        cs = rng.choice(COLSETS)
        cols = [{"name": nm, "ty": ty} for nm, ty in cs]
        family = "guar" if k % 3 == 0 else "general"
        pred = guar_pred(rng, cols) if family == "guar" else gen_pred(rng, cols, rng.choice([0, 1, 1, 2, 2, 3]))
        via = "direct" if family == "guar" or rng.random() < 0.7 else rng.choice(["prunable", "file"])
        key = tuple(cls_of(c["ty"]) for c in cols)
        conts = []
        for _ in range(rng.choice([1, 2, 3])):
            pool = containers_by_tys.get(key, [])
            if pool and rng.random() < 0.6:
                rows = [r[:len(cols)] for r in rng.choice(pool)]
                st = weaken(rng, exact_stats(rows, cols), cols, rng.choice([0, 1, 1, 2]), 0.75 if family == "guar" else 0.3)
                st["rows"] = [r + [NULL] * (2 - len(r)) for r in rows]
            else:
                st = free_stats(rng, cols, 0.7 if family == "guar" else 0.25)
            if via != "direct":           # an unknown statistic may be reported as a misleading Inexact value
                for i, c in enumerate(st["cols"]):
                    d = dom(cols[i]["ty"])
                    if not c["minK"]:
                        c["min"] = rng.choice(d)
                    if not c["maxK"]:
                        c["max"] = rng.choice(d)
                    if not c["ncK"]:
                        c["nc"] = rng.randint(0, 3)
                if not st["rcK"]:
                    st["rc"] = rng.randint(0, 3)
            conts.append(st)
        p_abs = 0.15 if rng.random() < 0.3 else 0.04
        absent = {w: [rng.random() < p_abs for _ in cols] for w in ("min", "max", "nc")}
        absent["rc"] = rng.random() < p_abs
        cases.append({"id": k, "cols": cols, "pred": pred, "containers": conts, "absent": absent, "family": family, "via": via,
                      "inexact": rng.random() < 0.6, "simplify": rng.random() < 0.2})
    return cases


CFG = "SPECIFICATION Spec\nINVARIANT Emit\nCHECK_DEADLOCK FALSE\n"


def validate(ctx, events, procs):
    cfg = ctx.path("trace.cfg")
    open(cfg, "w").write(CFG)
    chunks = [events[j::procs] for j in range(procs)]
    chunks = [c for c in chunks if c]

    def one(j):
        p = ctx.path(f"val-{j}.ndjson")
        write_ndjson(p, chunks[j])
        r = tlc(ctx, "facts/PruneTrace", cfg=cfg, workers=1, env={"TRACE": p}, timeout=3000, xmx="2g", tag=f"val-{j}", deadlock=False)
        if not r.ok:
            sys.stderr.write(r.out[-3000:])
            raise ToolError("TLC failed while deciding recorded pruning events")
        return r
    with cf.ThreadPoolExecutor(max_workers=procs) as ex:
        rs = list(ex.map(one, range(len(chunks))))
    verdicts = {}
    for r in rs:
        for v in tlc_cases(r.out):
            verdicts[v["id"]] = v
    missing = [e["id"] for e in events if e["id"] not in verdicts]
    if missing:
        raise ToolError(f"TLC produced no verdict for {len(missing)} events (first {missing[:3]})")
    return verdicts, sum(r.distinct for r in rs), sum(r.generated for r in rs)


def gen_containers(ctx):
    res = {}
    k = 12 if ctx.quick else 60
    cfg = ctx.path("gen.cfg")
    open(cfg, "w").write(f"CONSTANTS K = {k}\n" + CFG)
    r = tlc(ctx, "facts/PruneGen", cfg=cfg, workers=1, deadlock=False, tag="gen", mode_args=["-seed", str(ctx.seed)])
    if not r.ok:
        sys.stderr.write(r.out[-3000:])
        raise ToolError("TLC container generation failed")
    for c in tlc_cases(r.out):
        key = (c["t1"],) if c["t2"] == "-" else (c["t1"], c["t2"])
        res.setdefault(key, []).append([list(row) for row in c["rows"]])
    if len(res) < 8 or min(len(v) for v in res.values()) < 4:
        raise ToolError("too few generated containers")
    return res


def finding_key(ev):
    return None


def run(ctx):
    build("vfacts")
    procs = 4 if ctx.quick else 8
    if ctx.replay:
        rp = json.load(open(ctx.replay))
        cases = [rp["case"]]
    else:
        bg = cf.ThreadPoolExecutor(max_workers=1)
        lemma_cfg = ctx.path("lemma.cfg")
        open(lemma_cfg, "w").write(f"CONSTANT K = {2 if ctx.quick else 40}\nSPECIFICATION Spec\nINVARIANT FirstLemma\nCHECK_DEADLOCK FALSE\n")
        lemma = bg.submit(lambda: tlc_must_pass(ctx, "facts/PruneLemma", cfg=lemma_cfg, workers=2, timeout=1800, tag="lemma", deadlock=False,
                                                mode_args=["-seed", str(ctx.seed)]))
        conts = gen_containers(ctx)
        cases = gen_cases(ctx, conts)
    write_ndjson(ctx.path("cases.ndjson"), cases)
    summary, _ = run_harness(ctx, "vfacts", ["c22", "--in", ctx.path("cases.ndjson"), "--out", ctx.path("events.ndjson")])
    if summary is None or summary["harness_errors"]:
        raise ToolError(f"harness errors: {str(summary)[:800]}")
    events = read_ndjson(ctx.path("events.ndjson"))
    verdicts, st, gen = validate(ctx, events, procs)
    rej = [dict(e, wrows=verdicts[e["id"]]["rows"], why=verdicts[e["id"]]["why"]) for e in events if not verdicts[e["id"]]["ok"]]
    confirmed = []
    if rej:
        write_ndjson(ctx.path("rejected.ndjson"), rej)
        s2, _ = run_harness(ctx, "vfacts", ["c22", "--confirm", "--in", ctx.path("rejected.ndjson"), "--cases", ctx.path("cases.ndjson"),
                                             "--out", ctx.path("confirmed.ndjson")])
        if s2 is None or s2.get("harness_errors"):
            raise ToolError(f"confirmation run failed: {s2}")
        res = read_ndjson(ctx.path("confirmed.ndjson"))
        un_ = [r for r in res if not r.get("confirmed")]
        if un_:
            write_ndjson(ctx.path("unconfirmed.ndjson"), un_)
            raise ToolError(f"{len(un_)} TLC rejections were not reproduced in the engine (specification/harness disagreement, not a verdict); "
                            f"first: {json.dumps(un_[0])[:700]}")
        case_by_id = {c["id"]: c for c in cases}
        for r in res:
            confirmed.append(r)
            if len(ctx.violations) < 10:
                report_violation(ctx, {"case": case_by_id[r["case"]], "event": {k: r[k] for k in ("id", "cls", "pred", "tys", "skip", "stats", "g", "rows") if k in r},
                                       "witness_container": r["wrows"], "oracle": r["why"], "observed": r["observed"]}, key=finding_key(r))
    if ctx.replay:
        write_evidence(ctx, "model_checking", {"states": st, "transitions": max(gen, 1), "traces_validated_against_impl": len(events),
                                               "samples": events[:1], "rejected": len(rej)})
        return
    lm = lemma.result()
    by = {}
    for e in events:
        k = e["cls"] + (":skip" if e.get("skip") else "")
        by[k] = by.get(k, 0) + 1
    skips = [e for e in events if e["cls"] == "prune" and e["skip"]]
    if len(skips) < 20 or by.get("guar", 0) < 20 or by.get("b3", 0) < 20:
        raise ToolError(f"vacuity: too few skip decisions / guarantees / generated containers decided: {by}")

    def shape(e):
        return json.dumps(e["pred"], sort_keys=True)
    ops = {}
    def walk(e):
        if isinstance(e, dict) and "op" in e:
            k = e["op"] + (":" + e["f"] if "f" in e else "") + (":neg" if e.get("neg") else "")
            ops[k] = ops.get(k, 0) + 1
            for v in e.values():
                if isinstance(v, dict):
                    walk(v)
                elif isinstance(v, list):
                    for x in v:
                        walk(x)
    for e in skips:
        walk(e["pred"])
    write_evidence(ctx, "model_checking", {
        "states": st + lm.distinct, "transitions": gen + lm.generated,
        "traces_validated_against_impl": len(events),
        "samples": skips[:2] + [e for e in events if e["cls"] == "guar"][:1],
        "exhaustive": True,
        "prune_calls": summary["cases"], "events_by_kind": by, "driver_counts": summary["counts"],
        "distinct_nontrivial": len({shape(e) + json.dumps(e["stats"], sort_keys=True) for e in skips}),
        "distinct_predicates_with_a_skip": len({shape(e) for e in skips}),
        "operators_in_skipped_predicates": dict(sorted(ops.items())),
        "tlc_rejections": len(rej), "rejections_confirmed_in_engine": len(confirmed),
        "lemma_check": {"distinct_states": lm.distinct, "wall_s": round(lm.wall, 1)},
        "rule": "one event = one container decision of PruningPredicate::prune (or one LiteralGuarantee); non-trivial = a skip decision, "
                "decided by TLC over every container (<= 3 rows, ints -2..3, 8-string pool, booleans, NULLs) the statistics admit",
    }, assumptions=[
        "scope: 1-2 columns (Int32/Int64/Utf8/Utf8View/Boolean), <= 3 rows per container, integer values -2..3, string pool " + json.dumps(POOL),
        "statistics semantics as in the property text: min/max bound the non-NULL values, null/row counts exact, contained() answers derived from a "
        "superset of the values present; truncated / inexact-but-flagged statistics and nested columns are not modelled",
        "errors from try_build / prune are accepted (counted in driver_counts)",
    ])
