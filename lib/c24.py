"""C24 — Parquet scans with pruning and pushdown return exactly the matching rows.

spec/files/ParquetScan.tla: file = rows <<a, b, s>> with row index, cut into row groups / pages;
meaning of a scan = Filter(p, rows) whatever sound selection of containers the reader makes (laws
checked by TLC per case: minimal sound selections reproduce Filter; dropping a needed row group loses
a matching row).  TLC samples <data (random / sorted / clustered / NULL-heavy), writer layout (row
group size, page row limit, statistics level, bloom filter, dictionary), predicate>; the Rust driver
writes the file with ArrowWriter and scans it under reader-switch combinations from a strength-2
orthogonal array over pushdown_filters, reorder_filters, enable_page_index, pruning,
bloom_filter_on_read, force_filter_selections, schema_force_view_types (+ predicate cache off, 1-2
target partitions): full rows with file_row_index(), a projection without the filter columns, LIMIT k,
and ORDER BY a LIMIT k (TopK dynamic filter) are compared with the specification.
"""
import json
from common import *
from fexpr import render, OA7, has_notin_or, NOTIN_KEY

POOL = ["a", "ab", "b", "ba", "c"]
SW = ["pushdown_filters", "reorder_filters", "enable_page_index", "pruning", "bloom_filter_on_read", "force_filter_selections", "schema_force_view_types"]


def config(bits, cache0, tp):
    c = {s: bits[i] == "1" for i, s in enumerate(SW)}
    c["predicate_cache_zero"] = cache0
    c["tp"] = tp
    return c


def known_key(v):
    cf = v.get("config") or {}
    c = v.get("case") or {}
    # racy: declared file order + ORDER BY .. LIMIT + >1 file group + work stealing (default on)
    if v.get("query_kind") == "topk" and cf.get("declare_order") and cf.get("work_stealing", True) and cf.get("tp", 1) >= 2 \
            and c.get("n_files", 1) >= 2 and all(a in ("sorted", "clustered") for a in (c.get("arrange") or [])[:c.get("n_files", 1)]) \
            and not v.get("error"):
        return "declared-file-order:order-by-limit:limit-pushdown-clears-preserve-order:work-stealing-race"
    if "Invalid offset in sparse column chunk data" in (v.get("error") or "") and cf.get("pushdown_filters") \
            and not cf.get("force_filter_selections") and not cf.get("predicate_cache_zero"):
        return "pushdown-row-filter:mask-selection-over-sparsely-fetched-pages:invalid-offset"
    # the simplifier defect keeps rows (never loses them): full/proj report "missing []", limit/topk report extra rows / keys
    if not v.get("error") and has_notin_or((v.get("case") or {}).get("filter")) and "missing [\"" not in v.get("message", ""):
        return NOTIN_KEY
    return None


def run(ctx):
    build("vfiles")
    if ctx.replay:
        run_harness(ctx, "vfiles", ["c24", "--replay", os.path.abspath(ctx.replay), "--out", ctx.path("res.json")])
        res = json.load(open(ctx.path("res.json")))
        for v in res["violations"]:
            report_violation(ctx, v, key=known_key(v))
        write_evidence(ctx, "exploration", {"evaluations": max(1, res["evaluations"]), "distinct_nontrivial": 2, "rule": "replay of one recorded case",
                                            "samples": res["samples"] or [{"replay": ctx.replay}]})
        return
    rounds = 4 if ctx.quick else 8
    ncases = 22 if ctx.quick else 110
    cases, states = [], 0
    for r in range(rounds):
        n = [12, 16, 9, 20][r % 4]
        av = sorted(ctx.rng.sample([1, 2, 3, 5, 8, 9], 4))
        svs = sorted(ctx.rng.sample(range(1, len(POOL) + 1), 3))
        cfg = ctx.path(f"pq{r}.cfg")
        open(cfg, "w").write(f"CONSTANTS N = {n}  AV = {{{', '.join(map(str, av))}}}  SVs = {{{', '.join(map(str, svs))}}}  NCases = {ncases}\n"
                             "SPECIFICATION Spec\nINVARIANTS Emit\n")
        t = tlc_must_pass(ctx, "files/ParquetScan", cfg=cfg, workers=1, tag=f"pq{r}", mode_args=["-seed", str(ctx.seed * 1000 + r)], timeout=1800)
        states += t.distinct
        got = tlc_cases(t.out)
        for j, c in enumerate(got):
            c["pool"] = POOL
            c["sql"] = render(c["filter"], ["a", "b", "s", "st['p']"], POOL)
            c["k"] = ctx.rng.choice([1, 2, 3, 5])
            c["j"] = ctx.rng.choice([0, 1, 2, 3, 5, n - 1])
            c["desc"] = ctx.rng.random() < 0.5
            i = ctx.rng.randrange(len(OA7))
            extra = lambda: dict(collect_statistics=ctx.rng.random() < 0.75, small_metadata_hint=ctx.rng.random() < 0.3,
                                 declare_order=ctx.rng.random() < 0.6)
            c["configs"] = [dict(config("1111111", False, 1), **extra()),
                            dict(config(OA7[i], i % 2 == 1, 1 + (i // 2) % 2), **extra()),
                            dict(config("".join(ctx.rng.choice("01") for _ in SW), ctx.rng.random() < 0.3, ctx.rng.choice([1, 2])), **extra())]
            c["origin"] = f"ParquetScan.tla N={n} AV={av} SVs={svs} seed={ctx.seed * 1000 + r}"
        cases += got
    if len(cases) < 40:
        raise ToolError(f"too few cases from TLC: {len(cases)}")
    write_ndjson(ctx.path("cases.ndjson"), cases)
    summary, _ = run_harness(ctx, "vfiles", ["c24", "--cases", ctx.path("cases.ndjson"), "--out", ctx.path("res.json")], timeout=3000)
    res = json.load(open(ctx.path("res.json")))
    if res["tool_errors"]:
        raise ToolError("harness machinery errors: " + "; ".join(res["tool_errors"][:3]))
    for v in res["violations"]:
        report_violation(ctx, v, key=known_key(v))
    cnt = res["counters"]
    def msum(name):
        return sum(v for k, v in cnt.items() if k.startswith(f"metric_{name}/"))
    paths = {
        "row filter pruned rows (pushdown_filters)": msum("pushdown_rows_pruned"),
        "row groups pruned by statistics": msum("row_groups_pruned_statistics"),
        "row groups pruned by bloom filter": msum("row_groups_pruned_bloom_filter"),
        "pages pruned by page index": msum("page_index_pages_pruned"),
        "rows pruned by page index": msum("page_index_rows_pruned"),
        "files pruned by file statistics": msum("files_ranges_pruned_statistics"),
        "row groups pruned by LIMIT over fully matched row groups": msum("limit_pruned_row_groups"),
        "predicate cache used": msum("predicate_cache_records"),
        "page index load skipped": msum("page_index_load_skipped"),
        "reverse_row_groups plans (ORDER BY .. DESC pushdown)": cnt.get("plans_with_reverse_row_groups", 0),
        "sort_order_for_reorder plans (row-group reorder by statistics)": cnt.get("plans_with_sort_order_for_reorder", 0),
        "scans with declared file order": cnt.get("declared_order_scans", 0),
        "ORDER BY answered without SortExec (Exact sort pushdown)": cnt.get("sorted_queries_without_sortexec", 0),
        "TopK dynamic filter plans": cnt.get("plans_with_dynamic_filter", 0),
        "two-file tables": sum(1 for c in cases if c["n_files"] == 2),
        "tables where a file holds no matching row": sum(1 for c in cases if c["need_files"] < c["n_files"]),
    }
    optional = {"row groups pruned by dynamic filter": msum("row_groups_pruned_dynamic_filter"),
                "pages skipped as fully matched": msum("page_index_pages_skipped_by_fully_matched"),
                "file_row_index() in WHERE rejected by the engine": cnt.get("rowidx_filter_rejected_by_engine", 0),
                "file_row_index() not pushed into the scan (documented error; rows still compared)": cnt.get("row_index_not_pushed_into_scan", 0)}
    never = [k for k, v in paths.items() if v == 0]
    if never:
        raise ToolError(f"vacuity: reader paths never exercised in this run: {never}")
    pairs = set()
    for c in cases:
        for cf in c["configs"]:
            for x in range(len(SW)):
                for y in range(x + 1, len(SW)):
                    pairs.add((x, y, cf[SW[x]], cf[SW[y]]))
    write_evidence(ctx, "exploration", {
        "evaluations": res["evaluations"],
        "distinct_nontrivial": res["distinct_nontrivial"],
        "rule": "a case is <rows, writer layout, predicate, reader switch combination, query shape (full+row index / projection / LIMIT / ORDER BY..LIMIT)>; non-trivial = the predicate selects some but not all rows; distinct = distinct such tuples",
        "samples": res["samples"][:2],
        "tlc_states": states, "cases_from_tlc": len(cases),
        "cases_where_some_row_group_is_unneeded": sum(1 for c in cases if c["need_rg"] < c["n_rg"]),
        "switch_value_pairs_covered": len(pairs), "switch_value_pairs_total": 4 * len(SW) * (len(SW) - 1) // 2,
        "paths_exercised": paths, "optional_paths": optional,
        "counters": cnt,
    }, assumptions=[
        "Parquet encoding/decoding itself is outside the model (observed end to end)",
        "row-group / page pruning is observed through its effect on the result (a wrongly pruned container loses rows) and through scan metrics (non-vacuity), not per container",
        "integers are small, strings come from a 5-element pool; INT96 / coerce_int96, binary_as_string and encrypted files are not generated (ArrowWriter does not produce INT96)",
    ])
