"""C28 — declared output orderings, equivalences, constants and partitionings hold on the data.

The real planner + physical optimiser build plans for TLC-generated queries (spec/gen/PlanGen.tla) and a corpus of
shapes (windows, monotonic projections, unions of sorted inputs, ordered aggregation, ...) under several session
configurations (1/3/4 target partitions, hash vs sort-merge joins, partitioned joins forced, sorted MemTables declared
with_sort_order, Parquet listing tables with a declared file sort order, repartition switches, Utf8View).  Every node of every plan is wrapped in a transparent observer
(harness/vcontract); the declared facts are read before execution, the emitted batches are projected on the declared
expressions, and TLC validates each event log against spec/contract/OperatorContract.tla (sortedness under each
declared ordering with the specification's own comparator, class members equal row by row, constants constant within
/ across partitions, equal hash keys never in two partitions).  Every rejection is re-checked directly on the
recorded data before it is reported."""
import json
from common import *
import contract, sqlcases

QUICK_CFG = ["A1", "B4", "P4", "M4", "S3", "Q4"]
ALL_CFG = ["A1", "B4", "P4", "M4", "S3", "R2", "V4", "Q4"]


def known_key(run, node, k):
    """Narrow keys of genuine engine defects (known_findings.json); anything else raises."""
    _, p, f, idx = k
    o = contract.origin(run, node, "C28", ("ordering", "outord", "const", "equiv"))
    d = o.get("detail", "")
    if (o["name"] == "DataSourceExec" and "file_groups=" in d and "predicate=" in d and "file_type=parquet" in d
            and not any(kv[0] == "datafusion.execution.parquet.pushdown_filters" and kv[1] == "true"
                        for kv in contract.CONFIGS[run["cfg"]].get("settings", []))
            and (o["consts"] or any(len(c) > 1 for c in o["classes"]))):
        # the scan declares what its predicate implies although the predicate only prunes row groups / pages
        return "file-scan-declares-equivalences-of-a-pruning-only-predicate"
    if f in ("ordering", "outord"):
        o = contract.origin(run, node, "C28", ("ordering", "outord"))
        if o["name"] in ("BoundedWindowAggExec", "WindowAggExec") and f == "ordering":
            kids = contract.children(run, o)
            last = o["ords"][idx - 1][-1] if o["id"] == node["id"] else None
            bad = [b for b in run["rust_bad"]["C28"] if b["n"] == o["id"] and b["f"] == "ordering"]
            if kids and bad and all(o["ords"][b["k"] - 1][-1]["i"] > kids[0]["w"] and not o["ords"][b["k"] - 1][-1]["nf"]
                                    and any(r[o["ords"][b["k"] - 1][-1]["i"] - 1]["k"] == "n" for s in o["streams"] for bt in s["batches"] for r in bt["rows"])
                                    for b in bad):
                return "window-running-aggregate-ordering-ignores-leading-nulls"
        if o["name"] in ("HashJoinExec", "SortMergeJoinExec", "NestedLoopJoinExec", "PiecewiseMergeJoinExec", "SymmetricHashJoinExec") and joined_suffix(run, o):
            return "join-appends-other-side-ordering-after-probe-ordering"
        kids = contract.children(run, o)
        if (o["name"] == "SortPreservingMergeExec" and o["own_ord"] and o["own_sorted"] and len(kids) == 1 and kids[0]["np"] > 1):
            # the merged output IS sorted by the merge ordering; what fails is an ordering inherited from the input
            inherited = [x for x in o["ords"] if x != o["own_ord"] and x in kids[0]["ords"]]
            if inherited:
                return "spm-keeps-per-partition-input-orderings"
    return None


def sorted_by(rows, keys):
    return all(not sqlcases.row_before(rows[i + 1], rows[i], keys) for i in range(len(rows) - 1))


def joined_suffix(run, o):
    """Every violated ordering of join node `o` is <ordering of the order-preserved (probe / streamed) input> followed by
    keys of the other input, and the order-preserved part alone DOES hold on every partition."""
    kids = contract.children(run, o)
    if len(kids) != 2:
        return False
    lw = kids[0]["w"]
    bad = [b for b in run["rust_bad"]["C28"] if b["n"] == o["id"] and b["f"] == "ordering"]
    if not bad:
        return False
    for b in bad:
        ordering = o["ords"][b["k"] - 1]
        side = lambda key: 0 if key["i"] <= lw else 1
        first = side(ordering[0])
        cut = next((j for j, key in enumerate(ordering) if side(key) != first), None)
        if cut is None:
            return False
        prefix = ordering[:cut]
        # the prefix is an ordering the order-preserved child declares (shifted by the left width for the right child)
        shifted = [dict(key, i=key["i"] - (lw if first == 1 else 0)) for key in prefix]
        if not any(co[:len(shifted)] == shifted for co in kids[first]["ords"]):
            return False
        for s in o["streams"]:
            rows = [r for bt in s["batches"] for r in bt["rows"]]
            if not sorted_by(rows, prefix):
                return False
    return True


def differential(ctx, runs, meta):
    """Information only: results per configuration against the TLA+ reference (where the baseline agrees)."""
    by = {r["id"]: r for r in runs}
    checked, noted = 0, []
    for rid, m in meta.items():
        c = m["case"]
        if c is None or m["cfg"] == "A1":
            continue
        r, b = by.get(rid), by.get(f"{c['id']}/A1")
        if not r or not b or r["status"] != "ok" or b["status"] != "ok":
            continue
        if sqlcases.compare(c, b["result"], None) is not None:
            continue        # baseline itself disagrees with the reference: C01's subject, not this property's
        checked += 1
        msg = sqlcases.compare(c, r["result"], None)
        if msg:
            # Not a verdict of this check: a configuration also switches join / aggregation algorithms, so a
            # disagreement may be an operator defect (C01/C05...'s subject).  A false declaration that changes a
            # result is visible at the declaring node in the same run and is judged there.  Reported as information.
            noted.append({"run": rid, "cfg": m["cfg"], "sql": m["sql"], "message": msg, "plan": r["plan"][:1500]})
    return checked, noted


def run(ctx):
    build("vcontract")
    if ctx.replay:
        rp = json.load(open(ctx.replay))
        line = rp["line"]
        runs, _ = contract.record(ctx, [line])
        meta = {line["id"]: {"sql": line["sql"], "tables": line["tables"], "cfg": line["cfg"]["name"], "case": None}}
        res = contract.judge(ctx, "C28", runs, meta, known_key=known_key)
        write_evidence(ctx, "exploration", {"evaluations": 1, "distinct_nontrivial": 2, "rule": "replay of one recorded run",
                                            "samples": [{"sql": line["sql"]}], **res})
        return
    cfgs = QUICK_CFG if ctx.quick else ALL_CFG
    lines, meta, tlcruns = contract.build_runs(ctx, n_tlc=50 if ctx.quick else 500, n_big=2 if ctx.quick else 8, configs=cfgs, corpus=1 if ctx.quick else 4,
                                               gens=None if ctx.quick else [(2, 2, ctx.seed), (3, 1, ctx.seed + 1000), (4, 1, ctx.seed + 2000), (1, 3, ctx.seed + 3000)],
                                               corpus_tlc_db=not ctx.quick, corpus_cfgs=3 if ctx.quick else None)
    contract.matrix_runs(ctx, lines, meta, thorough=not ctx.quick)
    runs, summary = contract.record(ctx, lines)
    res = contract.judge(ctx, "C28", runs, meta, known_key=known_key)
    judged_ops = contract.require_operators([r for r in runs if r["status"] == "ok"], contract.REQUIRED_OPERATORS)
    hazards = contract.filter_singleton_hazards([r for r in runs if r["status"] == "ok"])
    if not hazards:
        raise ToolError("vacuity: no FilterExec over an input with Exact singleton min/max statistics on an unmentioned column containing NULLs")
    diff, noted = differential(ctx, runs, meta)
    ok = [r for r in runs if r["status"] == "ok"]
    fc = contract.fact_counts(ok)
    nontrivial = {r["plan"] + meta[r["id"]]["cfg"] for r in ok
                  if any((n["ords"] or n["consts"] or n["hash"] or any(len(c) > 1 for c in n["classes"]))
                         and any(sum(len(b["rows"]) for b in s["batches"]) >= 2 for s in n["streams"]) for n in r["nodes"])}
    sample = next((r for r in ok if any(n["ords"] and n["hash"] for n in r["nodes"])), ok[0])
    sn = next((n for n in sample["nodes"] if n["ords"]), sample["nodes"][0])
    write_evidence(ctx, "exploration", {
        "evaluations": len(ok), "distinct_nontrivial": len(nontrivial),
        "rule": "case = one query (TLC-generated plan rendered to SQL, or a corpus shape) over one database (TLC-generated or larger random) under one "
                "session configuration, planned and executed by the real engine with an observer above every plan node; non-trivial = distinct "
                "<physical plan, configuration> in which some node declares an ordering / constant / equivalence / hash partitioning and emits >= 2 rows "
                "in a partition, so that the declaration is falsifiable",
        "samples": [{"sql": meta[sample["id"]]["sql"], "cfg": meta[sample["id"]]["cfg"], "plan": sample["plan"],
                     "node": sn["detail"], "declared_orderings": sn["ords"], "exprs": sn["exprs"],
                     "observed": [{"p": s["p"], "rows": [r for b in s["batches"] for r in b["rows"]][:6]} for s in sn["streams"]][:3]}],
        "configurations": cfgs + sorted({c for f in contract.FAMILIES.values() for c in f[1]}), "operator_coverage": contract.coverage(ok),
        "operators_judged_output_consumed_in_full": judged_ops, "operator_types_not_reached": contract.NOT_REACHED, "facts_checked": fc,
        "filters_over_singleton_statistics_with_nulls": hazards, "results_compared_with_reference": diff, "reference_disagreements_not_judged_here": noted[:3], "sources": dict(__import__("collections").Counter(meta[r["id"]]["src"] for r in ok)),
        "tlc_generated_cases": sum(t.distinct for t in tlcruns), **res,
    }, assumptions=[
        "observers are shown inert on every run: the un-instrumented plan (planned separately from the same optimised logical plan) gives the same result bag "
        "(queries with LIMIT/OFFSET and no total order are exempt from that comparison)",
        "values outside the specification's universe (non-pool strings, large integers, other types) are rank-encoded per data type by the harness using the "
        "type's natural order; NULL placement, direction and lexicographic composition are always judged by Rel.tla's comparator",
        "declared expressions the engine itself marks unknown (UnKnownColumn) cannot be evaluated and are skipped (counted in facts_checked)",
        "self-test on every run: recorded logs are corrupted (rows swapped, NULLS FIRST flipped, constant changed, equivalence broken, row moved to another "
        "partition) and TLC must reject each at the corrupted node",
    ])
