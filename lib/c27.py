"""C27 — partition-value pruning of listing tables never drops matching files.

spec/files/Listing.tla defines, for a Hive-partitioned layout (1..3 partition columns, string values
needing escapes, an integer column, decoy files with a wrong extension / outside the glob) and a
predicate (Expr.tla AST over partition and data columns, SQL three-valued logic): the covered files,
Result(filter), Need(filter) and NeedP(filter).  TLC samples <layout, filter> pairs (seeded) and
checks the specification's own laws on each; the Rust driver materialises every case in an in-memory
object store and (1) runs SELECT .. WHERE filter through a real ListingTable: result bag must equal
Result and every file of Need must have been opened (recording store); (2) parse_partitions_for_path
must return the values each path was built from; (3) pruned_partition_list must return exactly the
covered files without a filter and at least NeedP for partition-only filters.
"""
import json, os
from common import *

# single characters of the escape set and of the neighbouring printable ASCII, two-character combinations,
# and longer values needing escapes
ESC1 = [" ", "%", "/", "?", "#", "\t"]
SPECIAL1 = ESC1 + ["=", "'", '"', ".", "..", "+", "&", "a"]
SPECIAL2 = ["% ", " %", "//", "?#", "#?", "==", "''", "a ", " a", "%2", "%%", "/a", "a/", "+&", ". ", "%25"]
LONG = ["__HIVE_DEFAULT_PARTITION__", "a b", "a%20b", "a%b", "a/b", "b", "b=c", "é", "a?b#"]
POOL = SPECIAL1 + SPECIAL2 + LONG
assert len(set(POOL)) == len(POOL)
# pool order must be the byte-wise lexicographic order (string comparisons in filters)
POOL_SORTED = sorted(POOL, key=lambda s: s.encode())


def date_string(v):
    d = v + 1
    for m, ln in ((1, 31), (2, 29), (3, 31), (4, 30), (5, 31)):
        if d <= ln:
            return f"2024-{m:02d}-{d:02d}"
        d -= ln
    raise ToolError("date out of range")


def sql_lit(v, pool, date=False):
    k = v["k"]
    if k == "n":
        return "NULL"
    if k == "i":
        return f"DATE '{date_string(v['v'])}'" if date else str(v["v"])
    if k == "s":
        return "'" + pool[v["v"] - 1].replace("'", "''") + "'"
    raise ToolError(f"literal kind {k}")


def colname(i, np):
    return f"c{i}" if i <= np else ("d" if i == np + 1 else "e")


def render(x, np, pool, c2type="i32", ctxcol=0):
    """ctxcol: the column a literal is compared with (decides how an integer is written for a DATE column)"""
    op = x["op"]
    if op == "col":
        return colname(x["i"], np)
    if op == "lit":
        return sql_lit(x["v"], pool, date=(c2type == "date" and ctxcol == 2 and np >= 2))
    if op == "bin":
        f = {"and": "AND", "or": "OR"}.get(x["f"], x["f"])
        c = x["l"]["i"] if x["l"]["op"] == "col" else (x["r"]["i"] if x["r"]["op"] == "col" else 0)
        return f"({render(x['l'], np, pool, c2type, c)} {f} {render(x['r'], np, pool, c2type, c)})"
    if op == "un":
        e = render(x["e"], np, pool, c2type)
        return {"not": f"(NOT {e})", "isnull": f"({e} IS NULL)", "isnotnull": f"({e} IS NOT NULL)"}[x["f"]]
    if op == "in":
        c = x["e"]["i"]
        return f"({render(x['e'], np, pool, c2type)} {'NOT ' if x['neg'] else ''}IN ({', '.join(render(l, np, pool, c2type, c) for l in x['list'])}))"
    raise ToolError(f"node {op}")


def conjuncts(x):
    if x["op"] == "bin" and x["f"] == "and":
        return conjuncts(x["l"]) + conjuncts(x["r"])
    return [x]


def eq_leaves(x):
    """x is an equality atom on a string column, or an OR-tree of such atoms: list of (col, value, orientation)."""
    if x["op"] == "bin" and x["f"] == "or":
        l, r = eq_leaves(x["l"]), eq_leaves(x["r"])
        return None if l is None or r is None else l + r
    if x["op"] == "bin" and x["f"] == "=":
        if x["l"]["op"] == "col" and x["r"]["op"] == "lit" and x["r"]["v"]["k"] == "s":
            return [(x["l"]["i"], x["r"]["v"]["v"], "fwd")]
        if x["r"]["op"] == "col" and x["l"]["op"] == "lit" and x["l"]["v"]["k"] == "s":
            return [(x["r"]["i"], x["l"]["v"]["v"], "rev")]
    return None


OS_ONLY_ESCAPED = set('"\\{}^`[]<>~|')


def raw_os_escape_key(v):
    """findings/C27-prefix-listing-raw-spelling-object-store-escapes.md: rows/files missing only (never unexpected), an
    equality on a partition string column whose literal contains a character escaped by object_store but not by the
    partition encode set, and the lost file lives in a directory that spells that character raw."""
    c = v.get("case") or {}
    if v.get("unexpected_rows") or v.get("opened_but_not_covered") or v.get("not_covered") or v.get("bad_partition_values") or v.get("error"):
        return None
    lost = (v.get("need_not_opened") or []) + (v.get("dropped") or [])
    if not lost or not all(any(ch in p for ch in OS_ONLY_ESCAPED) for p in lost):
        return None
    pool = c.get("pool") or []
    def lits(x):
        if not isinstance(x, dict):
            return []
        r = []
        lv = eq_leaves(x) if x.get("op") == "bin" and x.get("f") == "=" else None
        if lv:
            r.append(pool[lv[0][1] - 1])
        if x.get("op") == "in" and not x.get("neg"):       # c IN ('v', 'v') is simplified to c = 'v'
            r += [pool[e["v"]["v"] - 1] for e in x["list"] if e.get("op") == "lit" and e["v"]["k"] == "s"]
        for k in ("l", "r", "e"):
            r += lits(x.get(k))
        return r
    if any(set(s) & OS_ONLY_ESCAPED for s in lits(c.get("filter"))):
        return "prefix-listing:raw-spelled-directory:value-with-character-escaped-by-object-store-only"
    return None


def known_key(v):
    k = raw_os_escape_key(v)
    if k:
        return k
    """The one known engine defect this check runs into (findings/C27-mixed-orientation-...md):
    dictionary partition column; two conjuncts that both reduce to the same equality col = 'v' (an atom,
    or an OR of such atoms, which the simplifier collapses) but in different orientations; rows missing
    (never unexpected rows)."""
    c = v.get("case") or {}
    if not c.get("dict") or v.get("unexpected_rows") or v.get("opened_but_not_covered") or not v.get("missing_rows"):
        return None
    seen = {}
    for a in conjuncts(c["filter"]):
        lv = eq_leaves(a)
        if not lv or len({(c_, val) for (c_, val, _) in lv}) != 1:
            continue
        orient = "rev" if all(o == "rev" for (_, _, o) in lv) else "fwd"
        seen.setdefault((lv[0][0], lv[0][1]), set()).add(orient)
    if any(len(o) == 2 for o in seen.values()):
        return "dictionary-partition-column:same-equality-in-both-orientations-folded-to-false"
    return None


def run(ctx):
    build("vfiles")
    pool = POOL_SORTED
    if ctx.replay:
        run_harness(ctx, "vfiles", ["c27", "--replay", os.path.abspath(ctx.replay), "--out", ctx.path("res.json")])
        res = json.load(open(ctx.path("res.json")))
        for v in res["violations"]:
            report_violation(ctx, v, key=known_key(v))
        write_evidence(ctx, "exploration", {"evaluations": max(1, res["evaluations"]), "distinct_nontrivial": 2, "rule": "replay of one recorded case",
                                            "samples": res["samples"] or [{"replay": ctx.replay}]})
        return
    rounds = 6 if ctx.quick else 24
    nlay, nflt, neq = (12, 7, 5) if ctx.quick else (30, 14, 8)
    cases = []
    states = 0
    for r in range(rounds):
        np_ = [1, 2, 3, 2, 2, 3][r % 6]
        # one single escaped character, one other short special value, one arbitrary value
        pick = {ctx.rng.choice(ESC1), ctx.rng.choice(SPECIAL1[len(ESC1):] + SPECIAL2)}
        while len(pick) < 3:
            pick.add(ctx.rng.choice(pool))
        sv = sorted(pool.index(x) + 1 for x in pick)
        iv = sorted(ctx.rng.sample([1, 2, 10, 7, 100], 2))
        cfg = ctx.path(f"lst{r}.cfg")
        open(cfg, "w").write(f"CONSTANTS NP = {np_}  SV = {{{', '.join(map(str, sv))}}}  IV = {{{', '.join(map(str, iv))}}}  NLay = {nlay}  NFlt = {nflt}  NEq = {neq}\n"
                             "SPECIFICATION Spec\nINVARIANTS Emit\n")
        t = tlc_must_pass(ctx, "files/Listing", cfg=cfg, workers=1, tag=f"lst{r}", mode_args=["-seed", str(ctx.seed * 1000 + r)], timeout=1200)
        got = tlc_cases(t.out)
        states += t.distinct
        for j, c in enumerate(got):
            c["pool"] = pool
            c["c2type"] = ["i32", "date", "i64"][(r + j // 3) % 3]
            c["sql"] = render(c["filter"], c["np"], pool, c["c2type"])
            c["spelling"] = ["enc", "enc", "raw"][(r + j) % 3]
            c["dict"] = (j % 2 == 1)
            c["tp"] = [1, 3][(j // 2) % 2]
            c["cache"] = ["on", "off", "ttl", "on"][(j // 4) % 4]
            # CREATE EXTERNAL TABLE paths (explicit PARTITIONED BY / inferred partitions) need a directory location without glob
            c["mode"] = "api" if c["glob"] else ["api", "ddl", "api", "infer", "ddl"][(j + r) % 5]
            if c["mode"] == "infer" and not any(f["present"] and f["covered"] for f in c["files"]):
                c["mode"] = "ddl"        # schema inference needs at least one data file
            c["slash"] = not (c["mode"] == "api" and not c["glob"] and (j + r) % 4 == 1)
            c["origin"] = f"Listing.tla NP={np_} SV={sv} IV={iv} seed={ctx.seed * 1000 + r}"
        cases += got
    if len(cases) < 50:
        raise ToolError(f"too few cases from TLC: {len(cases)}")
    write_ndjson(ctx.path("cases.ndjson"), cases)
    summary, _ = run_harness(ctx, "vfiles", ["c27", "--cases", ctx.path("cases.ndjson"), "--out", ctx.path("res.json")], timeout=3000)
    res = json.load(open(ctx.path("res.json")))
    if res["tool_errors"]:
        raise ToolError("harness machinery errors: " + "; ".join(res["tool_errors"][:3]))
    for v in res["violations"]:
        report_violation(ctx, v, key=known_key(v))
    cnt = res["counters"]
    must = ["queries_with_files_pruned", "queries_with_prefix_listing", "repeat_queries_listing_served_from_cache", "mode_api", "mode_ddl", "mode_infer",
            "cache_on", "cache_off", "cache_ttl", "c2type_i32", "c2type_i64", "c2type_date", "table_path_without_trailing_slash",
            "ignore_subdirectory_false", "decoy_1", "decoy_2", "decoy_2_covered", "decoy_3", "decoy_3_covered", "decoy_4", "pruned_lists_smaller_than_table"]
    never = [m for m in must if cnt.get(m, 0) == 0]
    if never:
        raise ToolError(f"vacuity: listing paths never exercised in this run: {never}")
    def single_escaped_leading_eq(c):
        """equality on the leading partition column with a literal that is one character of the escape set, stated once
        (so the listing-prefix optimisation sees a single value), and some file needs to be read"""
        eqs = [a for a in conjuncts(c["filter"]) if eq_leaves(a) and len(eq_leaves(a)) == 1]
        on1 = [eq_leaves(a)[0] for a in eqs if eq_leaves(a)[0][0] == 1]
        return len(on1) == 1 and pool[on1[0][1] - 1] in ESC1 and len(c["need"]) > 0
    nsingle = sum(1 for c in cases if single_escaped_leading_eq(c))
    nsingle3 = sum(1 for c in cases if c["np"] >= 3 and any(eq_leaves(a) and eq_leaves(a)[0][0] == 3 and pool[eq_leaves(a)[0][1] - 1] in SPECIAL1 + SPECIAL2
                                                           for a in conjuncts(c["filter"])) and len(c["need"]) > 0)
    if nsingle == 0 or nsingle3 == 0:
        raise ToolError(f"vacuity: no needed-file case with an equality on a single escaped character (leading: {nsingle}, non-leading: {nsingle3})")
    nneed = sum(1 for c in cases if 0 < len(c["need"]) < sum(1 for f in c["files"] if f["present"] and f["covered"]))
    write_evidence(ctx, "exploration", {
        "evaluations": res["evaluations"],
        "distinct_nontrivial": res["distinct_nontrivial"],
        "rule": "a case is <layout, filter, path spelling, partition column encoding, target partitions> generated by TLC from Listing.tla; non-trivial = the filter needs some but not all covered files; distinct = distinct <files, SQL, spelling>",
        "samples": res["samples"][:2],
        "tlc_states": states,
        "cases_from_tlc": len(cases),
        "cases_with_proper_need": nneed,
        "cases_leading_partition_eq_single_escaped_char_with_needed_files": nsingle,
        "cases_nonleading_partition_eq_short_special_value_with_needed_files": nsingle3,
        "partition_only_filters": sum(1 for c in cases if c["partonly"]),
        "counters": cnt,
    }, assumptions=[
        "layouts are built from values (canonical percent-escaping of controls, space, %, /, ?, # and non-ASCII, or the raw spelling where it is a legal path and decodes to itself); directories such as c2=01 that no writer produces are outside the domain",
        "files live in an in-memory object store; CSV without header as the file format (the listing code is format independent)",
        "stale files in the table root are not generated; nested non-partition sub-directories follow listing_table_ignore_subdirectory (both values); CREATE EXTERNAL TABLE over a directory uses an empty extension filter, so wrong-extension decoys are only placed under API-built tables",
        "binding demonstrated while building: removing one necessary file's row from the expected result / dropping a file from `need` bookkeeping is reported by the driver",
    ])
