"""C03 — logical optimization preserves query results and output schema.

Specification side (TLC):
  * spec/sem/Rewrites.tla — the central rewrite schemas with their side conditions; TLC checks
    EvalPlan(Rw(p)) ~ EvalPlan(p) on schema-shaped plan families and on random plans, and REFUTES every schema whose
    side condition is dropped (run with UNGUARDED); both runs are required (vacuity: every schema must fire).
  * spec/sem/SemGen.tla — query plans (biased to the shapes rewrites act on), each with 1+NDB databases and the
    reference result (Rel.EvalPlan) on every one of them.
Implementation side (vsem c03): the SQL of each case is planned and analyzed; the default optimizer is run through its
observer entry point; every plan the pipeline passes through, the result of every rule ALONE and of the pipeline with
every rule REMOVED is executed WITHOUT further logical optimization on every database.
Verdicts (this file):
  * step: a rule application changed the plan and the engine's results before/after differ (one agrees with the
    reference and the other does not, or their bags differ) or the rewritten plan no longer executes;
  * variant: the result of rule-alone / rule-removed / full differs from the engine's result of the unoptimized plan;
    if the unoptimized plan is not executable (subqueries, DISTINCT, coalesce need a rewrite first) the reference
    result decides and the result of the full pipeline is recorded as the engine-side confirmation;
  * schema: output column names / logical types changed; optimizer: the optimizer returned an error (no plan yielded).
A rewritten plan that fails to plan/execute while the plan before executes is NOT a verdict (the property speaks about
plans that can both be executed): it is counted (…_after_plan_fails) and written to work/C03/after-plan-fails.json.
Where the reference evaluation is an error the database is skipped; engine evaluation errors (division by zero) are
not verdicts (SQL leaves the evaluation order open)."""
import json, collections, re
from common import *
import sqlcases, semcases

UNEXEC = ["This feature is not implemented", "Unsupported logical plan", "should have been simplified",
          "not supported", "Physical plan does not support"]
EVALERR = ["Divide by zero", "divide by zero", "Division by zero", "division by zero"]
ALL_RW = ["filter_join_left", "filter_join_right", "on_to_right", "on_to_left", "filter_agg", "outer_to_inner", "limit_project",
          "limit_union", "limit_join", "limit_filter", "limit_agg", "empty_join", "empty_agg", "distinct_groupby",
          "single_distinct", "union_filter", "null_join_keys", "sort_const"]
ALWAYS_LEGAL = ["limit_project", "distinct_groupby"]          # schemas without a side condition
# schemas whose unguarded variant must be refuted by TLC (the two calibrated defects are filter_agg and sort_const)
MUST_REFUTE = ["filter_join_left", "filter_join_right", "on_to_right", "on_to_left", "filter_agg", "outer_to_inner",
               "limit_join", "limit_filter", "limit_agg", "empty_join", "empty_agg", "union_filter", "null_join_keys", "sort_const"]


def rewrites_spec(ctx):
    """Model-check Rewrites.tla guarded (must hold) and unguarded (every side condition must be needed)."""
    nplans = 24 if ctx.quick else 150
    feats = ",".join(f'"{x}"' for x in sqlcases.ALL_FEATURES)
    base = (f"CONSTANTS N = 1 DEPTH = 2 EDEPTH = 2 MAXROWS = 3 NDB = 0 NPLANS = {nplans} NDBS = 4\n"
            f" FEATURES = {{{feats}}}\n")
    g, u = ctx.path("rw-guarded.cfg"), ctx.path("rw-unguarded.cfg")
    with open(g, "w") as f:
        f.write(base + " UNGUARDED = {}\nINIT RInit\nNEXT RNext\nINVARIANT Sound\nINVARIANT Count\nCHECK_DEADLOCK FALSE\n")
    ung = [x for x in ALL_RW if x not in ALWAYS_LEGAL]
    with open(u, "w") as f:
        f.write(base.replace(f"NPLANS = {nplans}", "NPLANS = 60") + " UNGUARDED = {" + ",".join(f'"{x}"' for x in ung) +
                "}\nINIT RInit\nNEXT RNext\nINVARIANT Report\nCHECK_DEADLOCK FALSE\n")
    w = 2 if ctx.quick else 6
    import concurrent.futures
    with concurrent.futures.ThreadPoolExecutor(max_workers=2) as ex:
        # the refutation run is a statement about the specification, not about the code: fixed seed
        fu = ex.submit(tlc, ctx, "sem/Rewrites", cfg=u, workers=max(w, 4), mode_args=["-seed", "7"], tag="rwu", xss="64m", deadlock=False, timeout=3000)
        rg = tlc_must_pass(ctx, "sem/Rewrites", cfg=g, workers=w, mode_args=["-seed", str(ctx.seed)], tag="rwg", xss="64m",
                           deadlock=False, timeout=3000)
        ru = fu.result()
    fired = collections.Counter()
    for m in re.finditer(r'^<<"RW", "(\w+)", "(\w+)", "fired">>', rg.out, re.M):
        fired[m.group(1)] += 1
    idle = [x for x in ALL_RW if fired[x] == 0 and x not in ("limit_filter", "limit_agg")]
    if idle:
        raise ToolError(f"Rewrites.tla: schemas never applicable in the guarded run (vacuous): {idle}")
    if not ru.ok:
        sys.stderr.write(ru.out[-3000:])
        raise ToolError("Rewrites.tla unguarded run failed")
    refuted = collections.Counter()
    sample = {}
    for m in re.finditer(r'^<<"REFUTED", "(\w+)", "(\w+)", (.*)>>\s*$', ru.out, re.M):
        refuted[m.group(1)] += 1
        sample.setdefault(m.group(1), m.group(3)[:400])
    missing = [x for x in MUST_REFUTE if refuted[x] == 0]
    if missing:
        raise ToolError(f"Rewrites.tla: unguarded schemas not refuted (side condition not shown necessary): {missing}")
    return {"states": rg.distinct + ru.distinct, "transitions": rg.generated + ru.generated,
            "schemas_fired_guarded": dict(fired), "schemas_refuted_unguarded": dict(refuted),
            "refutation_sample_filter_agg": sample.get("filter_agg"), "refutation_sample_sort_const": sample.get("sort_const")}


# ----------------------------------------------------------------------------- verdicts

def _has_all_setop(x):
    if isinstance(x, dict):
        if x.get("op") == "setop" and x.get("all") and x.get("f") in ("intersect", "except"):
            return True
        return any(_has_all_setop(v) for v in x.values())
    if isinstance(x, list):
        return any(_has_all_setop(v) for v in x)
    return False


def classify(e, view):
    """status of one execution record on one database view."""
    if e is None:
        return "notrun", None
    if view["expect"]["err"]:
        return "referr", None
    if "err" in e:
        msg = e["err"]
        if any(m in msg for m in UNEXEC):
            return "unexec", msg
        if any(m in msg for m in EVALERR):
            return "evalerr", msg
        return "error", msg
    m = semcases.compare(view, e["rows"], None)
    return ("ok", None) if m is None else ("diff", m)


_KW = {"Int64", "Utf8", "Boolean", "CAST", "AS", "abs", "coalesce", "nullif", "CASE", "WHEN", "THEN", "ELSE", "END", "NULL", "IS", "NOT",
       "AND", "OR", "TRUE", "FALSE", "DISTINCT", "FROM", "IN", "BETWEEN", "true", "false", "UNKNOWN"}


def _split_top(s):
    out, depth, cur = [], 0, ""
    for ch in s:
        if ch in "([":
            depth += 1
        elif ch in ")]":
            depth -= 1
        if ch == "," and depth == 0:
            out.append(cur.strip())
            cur = ""
        else:
            cur += ch
    out.append(cur.strip())
    return out


def literal_aggregate(plan_text):
    """count(DISTINCT c) / sum(c) where c is projected from a column-free expression (a literal after constant folding)."""
    proj = {}
    for line in plan_text.splitlines():
        line = line.strip()
        if line.startswith("Projection:"):
            for item in _split_top(line[len("Projection:"):]):
                m = re.match(r"^(.*) AS ([\w]+)$", item)
                if m and all(t in _KW for t in re.findall(r"[A-Za-z_][\w.]*", re.sub(r'"[^"]*"', "", m.group(1)))):
                    proj[m.group(2)] = m.group(1)
    for m in re.finditer(r"(?:count\(DISTINCT |sum\()([\w.]+)\)", plan_text):
        if m.group(1).split(".")[-1] in proj:
            return True
    return False



_RE_SORT_LIMIT_SORT = re.compile(r"Sort: [^\n]*\n\s*Limit: skip=[1-9]\d*, fetch=\d+\n\s*Sort:")
_RE_LIMIT_PROJ_SORT = re.compile(r"Limit: skip=[1-9]\d*, fetch=\d+\n\s*Projection: [^\n]*\n\s*Sort: (?![^\n]*fetch=)")


def offset_limit_key(plan_text):
    """Physical limit pushdown defects: an OFFSET/LIMIT whose input is a sort, with another sort above it or a projection between."""
    if _RE_SORT_LIMIT_SORT.search(plan_text or ""):
        return "offset-limit-between-two-sorts-loses-rows"
    if _RE_LIMIT_PROJ_SORT.search(plan_text or ""):
        return "offset-limit-over-projection-over-unlimited-sort"
    return None


def extracted_below_outer_join(plan_text):
    """An extraction alias (`<expr> AS __datafusion_extracted_N`, expr not a bare column) is DEFINED inside the null-supplying input
    of a LEFT / RIGHT / FULL join (plan text of display_indent: children are indented by two more blanks, left input first)."""
    lines = plan_text.splitlines()
    ind = [len(l) - len(l.lstrip()) for l in lines]
    for i, l in enumerate(lines):
        m = re.match(r"\s*(Left|Right|Full) Join", l)
        if not m:
            continue
        kids = [j for j in range(i + 1, len(lines)) if ind[j] == ind[i] + 2 and all(ind[k] > ind[i] for k in range(i + 1, j + 1))]
        if len(kids) < 2:
            continue
        end = next((j for j in range(kids[1] + 1, len(lines)) if ind[j] <= ind[i]), len(lines))
        spans = {"Left": [(kids[1], end)], "Right": [(kids[0], kids[1])], "Full": [(kids[0], kids[1]), (kids[1], end)]}[m.group(1)]
        for a, b in spans:
            for j in range(a, b):
                for item in _split_top(lines[j].split(":", 1)[1] if ":" in lines[j] else ""):
                    mm = re.match(r"^(.*) AS __datafusion_extracted_\d+$", item.strip())
                    if mm and not re.match(r"^[\w.]+$", mm.group(1).strip()):
                        return True
    return False


def finding_key(plan_text, err=None):
    """Narrow keys of genuine engine defects (known_findings.json)."""
    if re.search(r"LeftAnti Join:\s+Filter:.*null_aware", plan_text or ""):
        return "null-aware-anti-join-without-equijoin-keys"
    if literal_aggregate(plan_text or ""):
        return "count-distinct-of-projected-literal-answered-from-statistics"
    if err and "ivide by zero" in err and re.search(r"IS (NOT )?DISTINCT FROM Boolean\(true\) (AND|OR) ", plan_text or ""):
        return "simplify-boolean-case-to-and-or-evaluates-guarded-expression"
    if offset_limit_key(plan_text):
        return offset_limit_key(plan_text)
    if extracted_below_outer_join(plan_text or ""):
        return "push_down_leaf_projections-below-null-supplying-join-side"
    if err and "No field named __datafusion_extracted" in err and "Optimizer rule" in err and "push_down_leaf_projections' failed" not in err:
        return "leaf-expression-extraction-leaves-dangling-column"
    if err and "unions_to_filter' failed" in err and "No field named" in err:
        return "unions_to_filter-filter-above-aliasing-projection"
    if err and "push_down_leaf_projections' failed" in err and "Schema error" in err and \
            ("duplicate qualified field name" in err or "duplicate unqualified field name" in err or "No field named __datafusion_extracted" in err):
        return "push_down_leaf_projections-duplicate-qualified-field-name"
    if err and "Physical input schema should be the same as the one converted from logical input schema" in err \
            and "(physical) true vs (logical) false" in err:
        return "is-true-family-nullability-mismatch"
    return None


SHAPE_FEATURES = {"window", "lateral", "quant", "aggsets", "distincton", "pack", "ufilter", "agg", "distinct", "scalarsub", "insub", "exists", "sort", "limit", "case", "coalesce"}


class Judge:
    def __init__(self, ctx, dry=False):
        self.ctx = ctx
        self.dry = dry            # selftest: collect would-be violations instead of reporting them
        self.dry_hits = []
        self.st = collections.Counter()
        self.rule_changed = collections.Counter()
        self.rule_compared = collections.Counter()
        self.variant_compared = collections.Counter()
        self.nontrivial = set()
        self.samples = []
        self.raised = 0
        self.notes = []
        self.rule_by_shape = collections.defaultdict(collections.Counter)
        self.limit_over = collections.Counter()

    def raise_(self, case, res, kind, what, d, before, after, oracle, views):
        self.st["violations_" + kind] += 1
        if self.dry:
            self.dry_hits.append((kind, what))
            return
        if self.raised >= 12:
            return
        bad = res["plans"][after]["text"] if after is not None else ""
        e_after = res["exec"][after][d] if after is not None and d is not None else None
        key = finding_key(bad, (e_after or {}).get("err")) or (finding_key(res["plans"][before]["text"]) if before is not None else None)
        key = key or semcases.known_key(oracle)
        self.raised += 1 if key is None else 0
        full = next((v for v in res["variants"] if v["name"] == "full"), {})
        rp = {"kind": kind, "what": what, "oracle": oracle, "db_index": d,
              "case": dict(case, layout=res.get("layout")),
              "before": None if before is None else {"plan": res["plans"][before]["text"], "engine": res["exec"][before][d] if d is not None else None},
              "after": None if after is None else {"plan": res["plans"][after]["text"], "engine": e_after},
              "reference": None if d is None else views[d]["expect"],
              "full_pipeline_engine": res["exec"][full["plan"]][d] if d is not None and "plan" in full else None}
        if key is not None and not os.path.exists(self.ctx.path(f"known-{key}.json")):
            # keep one witness of every known finding hit (work/ is scratch; findings/*.replay.json are copies of these)
            with open(self.ctx.path(f"known-{key}.json"), "w") as f:
                json.dump(dict(rp, property=self.ctx.pid, seed=self.ctx.seed), f, indent=1, default=str)
        report_violation(self.ctx, rp, key=key)

    def pair(self, case, res, views, b, a, kind, what):
        """engine(before) vs engine(after) on every database both were executed on; returns True if compared."""
        compared = False
        for d, view in enumerate(views):
            sb, mb = classify(res["exec"][b][d], view)
            sa, ma = classify(res["exec"][a][d], view)
            self.st[f"{kind}:{sb}->{sa}"] += 1
            if sb not in ("ok", "diff"):
                continue
            if sa == "evalerr" and any(x in what for x in ("rule common_sub_expression_eliminate", "alone:common_sub_expression_eliminate",
                                                          "rule simplify_expressions", "alone:simplify_expressions")):
                # CSE and the simplifier only re-arrange expressions inside one node: they evaluate them on the same rows.  The reference is lazy
                # exactly in CASE / COALESCE, so an evaluation error that appears with this rule means a guarded
                # subexpression is now evaluated unconditionally (short-circuit context not respected).
                self.raise_(case, res, kind, what, d, b, a, f"{what}: the plan AFTER raises an evaluation error ({ma[:200]}) on rows for which the "
                            "plan BEFORE and the reference evaluate without error (guarded subexpression evaluated unconditionally)", views)
                return compared
            if sa in ("ok", "diff"):
                compared = True
            if sb == "ok" and sa == "diff":
                self.raise_(case, res, kind, what, d, b, a, f"{what}: the engine's result of the plan AFTER differs ({ma}); the plan BEFORE agrees with the reference", views)
                return compared
            if sb == "diff" and sa == "ok":
                self.raise_(case, res, kind, what, d, b, a, f"{what}: the engine's results before/after differ; the plan BEFORE disagrees with the reference ({mb})", views)
                return compared
            if sb == "diff" and sa == "diff":
                if case["mode"] in ("bag", "ordered") and sqlcases.bag(res["exec"][b][d]["rows"]) != sqlcases.bag(res["exec"][a][d]["rows"]):
                    self.raise_(case, res, kind, what, d, b, a, f"{what}: the engine's result bags before/after differ (both differ from the reference)", views)
                    return compared
                self.st["both_differ_from_reference"] += 1
            if sa == "error":
                # "whenever both plans can be executed": a rewritten plan that fails is outside the property as stated;
                # it is counted and kept as a note (work/C03/after-plan-fails.json), never a verdict of C03
                self.st[f"{kind}_after_plan_fails"] += 1
                self.notes.append({"what": what, "sql": case["sql"], "layout": res.get("layout"), "db_index": d,
                                   "before": res["plans"][b]["text"], "after": res["plans"][a]["text"], "error": ma[:2000]})
        return compared

    def judge(self, case, res):
        ctx = self.ctx
        if "panic" in res:
            report_violation(ctx, {"kind": "panic", "case": case, "oracle": "engine panicked: " + str(res["panic"])[:500]})
            return
        if "plan_err" in res or "setup_err" in res:
            self.st["sql_not_planned"] += 1
            return
        views = semcases.views(case)
        plans = res["plans"]
        # schema: names and logical types of every plan equal those of the unoptimized plan, and the case's kinds
        want_types = [{"i": "Int64", "s": "Utf8", "b": "Boolean"}[k] for k in case["schema"]]
        if plans[0]["names"] != case["out_cols"] or plans[0]["types"] != want_types:
            self.st["analyzed_schema_unexpected"] += 1
        for pi, p in enumerate(plans):
            if p["names"] != plans[0]["names"] or p["types"] != plans[0]["types"]:
                self.raise_(case, res, "schema", "output schema changed", None, 0, pi,
                            f"output schema {list(zip(p['names'], p['types']))} differs from the unoptimized plan's {list(zip(plans[0]['names'], plans[0]['types']))}", views)
            if p.get("phys") and p["phys"]["names"] != p["names"]:
                self.st["physical_names_differ"] += 1
        # (a) changed steps of the default pipeline
        shape = sorted(f for f in sqlcases.features_of(case["plan"]) if f in SHAPE_FEATURES or f.startswith("join:") or f.startswith("setop:")) or ["plain"]
        for c in res["chain"]:
            if not c["changed"]:
                continue
            self.rule_changed[c["rule"]] += 1
            for f in shape:
                self.rule_by_shape[c["rule"]][f] += 1
            if c["rule"] == "push_down_limit" and case["plan"]["op"] == "limit":
                below = case["plan"]["src"]
                below = below["src"] if below["op"] == "sort" else below
                self.limit_over[("sort+" if case["plan"]["src"]["op"] == "sort" else "") + below["op"] + (":" + below["jt"] if below["op"] == "join" else "")] += 1
            if self.pair(case, res, views, c["before"], c["after"], "step", f"rule {c['rule']} (pass {c['pass']})"):
                self.rule_compared[c["rule"]] += 1
                if any(not v["expect"]["err"] and v["expect"]["rows"] for v in views):
                    self.nontrivial.add((c["rule"], plans[c["before"]]["text"], plans[c["after"]]["text"]))
                    if len(self.samples) < 3 and c["rule"] in ("push_down_filter", "eliminate_outer_join", "push_down_limit"):
                        self.samples.append({"rule": c["rule"], "sql": case["sql"], "before": plans[c["before"]]["text"],
                                             "after": plans[c["after"]]["text"], "db": views[0]["db"],
                                             "engine_before": res["exec"][c["before"]][0], "engine_after": res["exec"][c["after"]][0],
                                             "reference": views[0]["expect"]})
        # (b) full / alone / without
        s0 = classify(res["exec"][0][0], views[0])[0]
        for v in res["variants"]:
            if "err" in v:
                self.st["optimizer_error"] += 1
                # a verdict for the default pipeline always; for rule-alone / rule-removed lists only if the unoptimized plan is
                # executable (a list without a lowering rule - DISTINCT ON, subqueries - produces plans nothing can execute)
                if v["name"] != "full" and s0 not in ("ok", "diff", "referr", "evalerr"):
                    self.st["optimizer_error_unexecutable_input"] += 1
                    continue
                if not all(vw["expect"]["err"] for vw in views):
                    key = finding_key("", v["err"])
                    self.st["violations_optimizer"] += 1
                    report_violation(ctx, {"kind": "optimizer", "what": v["name"], "case": dict(case, layout=res.get("layout")),
                                           "oracle": f"the optimizer ({v['name']}) returned an error for an analyzed plan: {v['err'][:500]}"}, key=key)
                continue
            a = v["plan"]
            if s0 in ("ok", "diff", "referr", "evalerr"):
                if a != 0 and self.pair(case, res, views, 0, a, "variant", f"optimizer {v['name']} vs unoptimized plan"):
                    self.variant_compared[v["name"].split(":")[0]] += 1
            else:
                # the unoptimized plan cannot be executed: the reference result decides
                for d, view in enumerate(views):
                    sa, ma = classify(res["exec"][a][d], view)
                    self.st[f"refonly:{sa}"] += 1
                    if sa in ("ok", "diff"):
                        self.variant_compared[v["name"].split(":")[0] + "_vs_reference"] += 1
                    if sa == "diff":
                        self.raise_(case, res, "reference", f"optimizer {v['name']} (unoptimized plan not executable)", d, None, a,
                                    f"optimizer {v['name']}: the engine's result differs from the reference ({ma}); the unoptimized plan cannot be executed", views)
                        break


def selftest(ctx, cases, res, limit=25):
    """Binding demonstration on every run: corrupt the engine's AFTER result of rule steps that were accepted (drop a row)
    and the output names of one plan; the oracle must reject every corruption."""
    import copy
    tried = detected = 0
    for c in cases:
        r = res[c["id"]]
        if "chain" not in r or c["expect"]["err"] or c["mode"] not in ("bag", "ordered"):
            continue
        for st in r["chain"]:
            e = r["exec"][st["after"]][0]
            if st["changed"] and e and e.get("rows") and (r["exec"][st["before"]][0] or {}).get("rows") is not None:
                r2 = copy.deepcopy(r)
                r2["exec"][st["after"]][0]["rows"] = e["rows"][1:]
                for k, row in enumerate(r2["exec"]):      # plans later in the chain keep the real rows; only this plan is corrupted
                    pass
                j = Judge(ctx, dry=True)
                j.judge(c, r2)
                tried += 1
                detected += 1 if any(k in ("step", "variant", "reference") for k, _ in j.dry_hits) else 0
                break
        if tried >= limit:
            break
    sch = 0
    for c in cases:
        r = res[c["id"]]
        if "plans" in r and len(r["plans"]) > 1:
            r2 = copy.deepcopy(r)
            r2["plans"][1]["names"] = ["x"] + r2["plans"][1]["names"][1:]
            j = Judge(ctx, dry=True)
            j.judge(c, r2)
            sch = 1 if any(k == "schema" for k, _ in j.dry_hits) else 0
            tried += 1
            detected += sch
            break
    if tried == 0 or detected != tried:
        raise ToolError(f"C03 selftest: {detected} of {tried} corrupted observations were rejected by the oracle")
    return {"corrupted_observations": tried, "rejected_by_oracle": detected}


def run_harness_cases(ctx, cases, tag, threads, variant_dbs, extra=()):
    inp, out = ctx.path(f"{tag}.in.ndjson"), ctx.path(f"{tag}.out.ndjson")
    write_ndjson(inp, [dict(semcases.harness_case(c), **({"layout": c["layout"]} if c.get("layout") else {})) for c in cases])
    summary, _ = run_harness(ctx, "vsem", ["c03", "--in", inp, "--out", out, "--threads", threads, "--variant-dbs", variant_dbs] + list(extra),
                             timeout=6000)
    return {r["id"]: r for r in read_ndjson(out)}, summary


def run(ctx):
    build("vsem")
    J = Judge(ctx)
    if ctx.replay:
        rp = json.load(open(ctx.replay))
        case = rp["case"]
        res, summary = run_harness_cases(ctx, [case], "replay", 1, 99)
        J.judge(case, res[case["id"]])
        write_evidence(ctx, "exploration", {"evaluations": summary["executions"], "distinct_nontrivial": max(2, len(J.nontrivial)),
                                            "rule": "replay of one case", "samples": [rp.get("oracle")], "status": dict(J.st)})
        return
    import concurrent.futures
    if ctx.quick:
        gens = [(2, 2, 3, 100, ctx.seed), (3, 1, 2, 50, ctx.seed + 1000)]
        threads, vdbs = 6, 1
    else:
        gens = [(2, 2, 3, 500, ctx.seed), (3, 2, 2, 350, ctx.seed + 1000), (1, 3, 3, 250, ctx.seed + 2000), (4, 1, 2, 150, ctx.seed + 3000)]
        threads, vdbs = 8, 2
    # the specification-level check and the case generation are independent TLC runs: run them side by side
    with concurrent.futures.ThreadPoolExecutor(max_workers=2) as ex:
        fspec = ex.submit(rewrites_spec, ctx)
        fgen = ex.submit(semcases.generate_many, ctx, gens)
        spec = fspec.result()
        cases = fgen.result()
    gen_states = ctx.cov.get("generator_states", 0)
    res, summary = run_harness_cases(ctx, cases, "c03", threads, vdbs)
    for c in cases:
        J.judge(c, res[c["id"]])
    if J.notes:
        json.dump(J.notes, open(ctx.path("after-plan-fails.json"), "w"), indent=1)
        log(f"note: {len(J.notes)} rewritten plan(s) fail while the plan before executes (not a C03 verdict), see work/C03/after-plan-fails.json")
    st_res = selftest(ctx, cases, res)
    rules = res[cases[0]["id"]].get("rules") or next(r["rules"] for r in res.values() if "rules" in r)
    never = [r for r in rules if J.rule_changed[r] == 0]
    feats = collections.Counter()
    for c in cases:
        for f in sqlcases.features_of(c["plan"]):
            feats[f] += 1
    if len(J.nontrivial) < 2 or sum(J.rule_compared.values()) == 0:
        raise ToolError("C03: no rule step was compared (vacuous run)")
    # vacuity guards: every rule of the default pipeline must have changed a plan, every generated node kind must occur,
    # and the rules whose input is executable must have been compared before/after
    if never:
        raise ToolError(f"C03: optimizer rules that never changed a plan in this run: {never}")
    need_ops = ["window", "lateral", "quant", "aggsets", "distincton", "pack", "ufilter", "join:full", "join:anti", "setop:intersect:all", "scalarsub", "insub", "exists"]
    missing_ops = [o for o in need_ops if feats[o] == 0]
    if missing_ops:
        raise ToolError(f"C03: node kinds never generated in this run: {missing_ops}")
    need_compared = ["push_down_filter", "push_down_limit", "eliminate_outer_join", "eliminate_cross_join", "optimize_projections", "simplify_expressions",
                     "common_sub_expression_eliminate", "extract_equijoin_predicate", "propagate_empty_relation", "eliminate_filter",
                     "single_distinct_aggregation_to_group_by", "eliminate_group_by_constant", "eliminate_duplicated_expr", "filter_null_join_keys"]
    lim_missing = [o for o in ("filter", "project", "agg", "window", "sort+agg") if not any(k == o or k.startswith(o + ":") for k in J.limit_over)] + \
                  [o for o in ("join", "sort+join") if not any(k.startswith(o) for k in J.limit_over)]
    if lim_missing and not any(k in ("setop", "ufilter") for k in J.limit_over):
        lim_missing.append("setop/ufilter")
    if lim_missing:
        raise ToolError(f"C03: push_down_limit never acted with the root LIMIT directly over: {lim_missing} (have {dict(J.limit_over)})")
    not_compared = [r for r in need_compared if J.rule_compared[r] == 0]
    if not_compared:
        raise ToolError(f"C03: rules whose steps were never compared before/after: {not_compared}")
    write_evidence(ctx, "exploration", {
        "evaluations": summary["executions"], "distinct_nontrivial": len(J.nontrivial),
        "rule": "evaluation = one engine execution of one logical plan (unoptimized / after a rule step / rule alone / rule removed / full) on one "
                "database; non-trivial = distinct <rule, plan before, plan after> of a rule application that changed the plan, both plans executed "
                "by the engine and compared (with each other and with the TLA+ reference) on >=1 database with a non-empty, non-error reference result",
        "samples": J.samples[:3], "cases": len(cases), "databases_per_case": [1 + g[2] for g in gens],
        "rule_steps_changed": dict(J.rule_changed), "rule_steps_compared_before_after": dict(J.rule_compared),
        "rules_never_fired": never, "push_down_limit_root_limit_over": dict(J.limit_over),
        "rule_steps_by_plan_shape": {r: dict(v) for r, v in J.rule_by_shape.items()}, "variants_compared": dict(J.variant_compared), "status_counts": dict(sorted(J.st.items())),
        "operator_coverage": dict(sorted(feats.items())),
        "spec_rewrites": spec, "generator_states": gen_states, "selftest": st_res,
    }, assumptions=[
        "SQL renderer (lib/sqlcases.py) trusted; value scope ints {NULL,-1,0,1,2}, 3 strings, booleans, tables of 0..4 rows",
        "plans containing subqueries / DISTINCT / coalesce cannot be executed before the rule that rewrites them: there the TLA+ reference result "
        "(calibrated by C01) decides and the full pipeline's engine result is recorded in the replay file",
        "databases whose reference evaluation is an error are skipped; engine division-by-zero errors are not verdicts",
        "rules that never fire on the fragment (listed in rules_never_fired) are not exercised",
        "binding demonstrated on every run (selftest: accepted AFTER results with one row dropped / one output name changed must be rejected) and while building: the null-aware anti join defect (known finding) was found by the step oracle; "
        "Rewrites.tla refutes the unguarded variants of filter_agg / sort_const, i.e. the two optimizer defects found while calibrating C01"])
