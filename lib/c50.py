"""C50 — queries accepted over unbounded inputs keep producing.

spec/contract/StreamOps.tla defines, per streaming shape (filter/projection, limit, ordered aggregate, bounded window,
union, sort-preserving merge, symmetric hash join with and without a pruning window) and input prefix P, Correct(P) and
Determined(P); shapes that can only answer at end of input are not Accepted.  The harness (vcontract c50) registers
never-ending StreamingTables (declared ordered by ts) over pump-fed partition streams, plans the SQL with the real
planner (SanityCheckPlan included), and on a current-thread runtime feeds the sources batch by batch WITHOUT closing
them, polling the query to quiescence after every batch (progress-based: no output and no source batch taken for 300
scheduler turns) and recording everything emitted so far.  TLC (StreamTrace) checks at every quiescent point:
Emitted within Correct(P) (prefix / sub-bag), |Emitted| + SLACK >= |Determined(P)|, the stream ends iff a LIMIT was
reached; and that every non-accepted shape was rejected at planning time.  Rejections are re-computed in Python."""
import json, collections, random
from common import *
import contract

SLACK, LAG, LIMITN, WIN = 8, 2, 5, 6
I = lambda n: {"k": "i", "v": n}
N = {"k": "n", "v": 0}

ONE = [{"name": "s", "parts": 1}]
TWO = [{"name": "l", "parts": 1}, {"name": "r", "parts": 1}]
MP = [{"name": "s", "parts": 2}]
SHAPES = {
    "filter": ("SELECT ts, v + 1 AS w FROM s WHERE v >= 0", ONE, []),
    "limit": (f"SELECT ts, v FROM s LIMIT {LIMITN}", ONE, []),
    "agg": ("SELECT ts, count(*) AS n, sum(v) AS sv FROM s GROUP BY ts", ONE, []),
    "window": ("SELECT ts, v, sum(v) OVER (ORDER BY ts ASC NULLS LAST ROWS BETWEEN 1 PRECEDING AND 1 FOLLOWING) AS sw FROM s", ONE, []),
    "union": ("SELECT ts, v FROM l UNION ALL SELECT ts, v FROM r", TWO, []),
    "merge": ("SELECT ts, v FROM s ORDER BY ts ASC NULLS LAST", MP, [["datafusion.execution.target_partitions", "2"]]),
    "shj": (f"SELECT l.ts AS a, r.ts AS b FROM l JOIN r ON l.k = r.k AND l.ts > r.ts - {WIN} AND l.ts < r.ts + {WIN}", TWO, []),
    "shj_nofilter": ("SELECT l.ts AS a, r.ts AS b FROM l JOIN r ON l.k = r.k", TWO, []),
    "agg2": ("SELECT ts, k, count(*) AS n, sum(v) AS sv FROM s GROUP BY ts, k", ONE, []),
    "wpart": ("SELECT ts, k, v, sum(v) OVER (PARTITION BY k ORDER BY ts ASC NULLS LAST ROWS BETWEEN 1 PRECEDING AND CURRENT ROW) AS sw FROM s", ONE, []),
    "filter_limit": (f"SELECT ts, v + 1 AS w FROM s WHERE v >= 0 LIMIT {LIMITN}", ONE, []),
    "shj_left": (f"SELECT l.ts AS a, r.ts AS b FROM l LEFT JOIN r ON l.k = r.k AND l.ts > r.ts - {WIN} AND l.ts < r.ts + {WIN}", TWO, []),
    "shj_right": (f"SELECT l.ts AS a, r.ts AS b FROM l RIGHT JOIN r ON l.k = r.k AND l.ts > r.ts - {WIN} AND l.ts < r.ts + {WIN}", TWO, []),
    "shj_full": (f"SELECT l.ts AS a, r.ts AS b FROM l FULL JOIN r ON l.k = r.k AND l.ts > r.ts - {WIN} AND l.ts < r.ts + {WIN}", TWO, []),
    # pipeline breakers: only answerable at end of input
    "rej_group": ("SELECT v, count(*) AS n FROM s GROUP BY v", ONE, []),
    "rej_sort": ("SELECT ts, v FROM s ORDER BY v", ONE, []),
    "rej_distinct": ("SELECT DISTINCT v FROM s", ONE, []),
    "rej_window": ("SELECT ts, sum(v) OVER (ORDER BY ts ROWS BETWEEN CURRENT ROW AND UNBOUNDED FOLLOWING) AS sw FROM s", ONE, []),
    "rej_count": ("SELECT count(*) AS n FROM s", ONE, []),
    "rej_sort_desc": ("SELECT ts, v FROM s ORDER BY ts DESC", ONE, []),
    "rej_topk": ("SELECT ts, v FROM s ORDER BY v LIMIT 3", ONE, []),
    "rej_agg_join": ("SELECT l.k, count(*) AS n FROM l JOIN r ON l.k = r.k GROUP BY l.k", TWO, []),
}
ACCEPTED = {"filter", "limit", "agg", "agg2", "window", "wpart", "union", "merge", "shj", "shj_nofilter", "shj_left", "shj_right", "shj_full",
            "filter_limit"}
OUTER = {"shj_left", "shj_right", "shj_full"}


def gen_feed(rng, shape, nev):
    """Feed events; ts strictly increasing over the run (non-decreasing with ties for `agg`)."""
    _, sources, _ = SHAPES[shape]
    slots = [(si, p) for si, s in enumerate(sources) for p in range(s["parts"])]
    ts, feed = 0, []
    for e in range(nev):
        # the symmetric hash join takes its inputs strictly in turn: an input that runs ahead only builds a backlog that
        # drains one batch per batch of the other input (still "eventually"); its schedules are kept balanced
        src, part = slots[e % len(slots)] if (shape.startswith("shj") or rng.random() < 0.7) else rng.choice(slots)
        rows = []
        for _ in range(rng.randint(1, 4)):
            ts += (rng.choice([0, 0, 1, 2]) if shape in ("agg", "agg2") else rng.randint(1, 2))
            k = N if rng.random() < 0.1 else I(rng.choice([0, 1]))
            v = N if rng.random() < 0.15 else I(rng.choice([-1, 0, 1, 2]))
            rows.append([I(ts), k, v])
        feed.append({"src": src, "part": part, "rows": rows})
    return feed


# ----------------------------------------------------------------------------- direct re-computation (Python)
def fed_to(feed, k, src, part):
    return [r for ev in feed[:k] if ev["src"] == src and ev["part"] == part for r in ev["rows"]]


def sum_or_null(vals):
    nn = [v["v"] for v in vals if v["k"] != "n"]
    return I(sum(nn)) if nn else N


def sem(shape, feed, k):
    s0, s01, s1 = fed_to(feed, k, 0, 0), fed_to(feed, k, 0, 1), fed_to(feed, k, 1, 0)
    proj = lambda P: [[r[0], r[2]] for r in P]
    if shape == "filter":
        o = [[r[0], I(r[2]["v"] + 1)] for r in s0 if r[2]["k"] != "n" and r[2]["v"] >= 0]
        return True, o, o
    if shape == "limit":
        o = proj(s0[:LIMITN])
        return True, o, o
    if shape == "agg":
        keys = []
        for r in s0:
            if r[0] not in keys:
                keys.append(r[0])
        o = [[key, I(sum(1 for r in s0 if r[0] == key)), sum_or_null([r[2] for r in s0 if r[0] == key])] for key in keys[:-1]]
        return True, o, o
    if shape == "window":
        o = [[s0[i][0], s0[i][2], sum_or_null([s0[j][2] for j in (i - 1, i, i + 1) if 0 <= j < len(s0)])] for i in range(len(s0) - 1)]
        return True, o, o
    if shape == "union":
        o = proj(s0 + s1)
        return False, o, o
    if shape == "merge":
        if not s0 or not s01:
            return True, [], []
        m = min(s0[-1][0]["v"], s01[-1][0]["v"])
        merged = sorted(proj(s0 + s01), key=lambda r: r[0]["v"])
        return True, [r for r in merged if r[0]["v"] <= m], [r for r in merged if r[0]["v"] < m]
    if shape == "agg2":
        if not s0:
            return False, [], []
        mx = s0[-1][0]["v"]
        keys = []
        for r in s0:
            if (r[0]["v"], json.dumps(r[1])) not in [(a["v"], json.dumps(b)) for a, b in keys]:
                keys.append((r[0], r[1]))
        o = [[a, b, I(sum(1 for r in s0 if r[0] == a and r[1] == b)), sum_or_null([r[2] for r in s0 if r[0] == a and r[1] == b])]
             for a, b in keys if a["v"] < mx]
        return False, o, o
    if shape == "wpart":
        o = []
        for i, r in enumerate(s0):
            prev = [x for x in s0[:i] if x[1] == r[1]]
            o.append([r[0], r[1], r[2], sum_or_null(([prev[-1][2]] if prev else []) + [r[2]])])
        return False, o, o
    if shape == "filter_limit":
        o = [[r[0], I(r[2]["v"] + 1)] for r in s0 if r[2]["k"] != "n" and r[2]["v"] >= 0][:LIMITN]
        return True, o, o
    if shape in OUTER:
        o = [[a[0], b[0]] for a in s0 for b in s1
             if a[1]["k"] != "n" and b[1]["k"] != "n" and a[1]["v"] == b[1]["v"] and a[0]["v"] > b[0]["v"] - WIN and a[0]["v"] < b[0]["v"] + WIN]
        return False, o, o
    if shape in ("shj", "shj_nofilter"):
        o = [[a[0], b[0]] for a in s0 for b in s1
             if a[1]["k"] != "n" and b[1]["k"] != "n" and a[1]["v"] == b[1]["v"]
             and (shape == "shj_nofilter" or (a[0]["v"] > b[0]["v"] - WIN and a[0]["v"] < b[0]["v"] + WIN))]
        return False, o, o
    raise ValueError(shape)


def lag_prefix(feed, k):
    slots = {(ev["src"], ev["part"]) for ev in feed}
    for j in range(k, -1, -1):
        if all(sum(1 for ev in feed[j:k] if (ev["src"], ev["part"]) == s) >= LAG for s in slots):
            return j
    return 0


def direct_bad(run, feed):
    bad = []
    if not run["planned"] or run["shape"] not in ACCEPTED:
        if run["planned"] and run["shape"] not in ACCEPTED:
            bad.append({"n": 1, "p": 0, "f": "acceptance", "k": 0})
        return bad
    for li, pt in enumerate(run["points"], 1):
        ordered, correct, det = sem(run["shape"], feed, pt["fed"])
        out = [[{"k": v["k"], "v": v["v"]} for v in row] for row in pt["out"]]
        if pt["err"]:
            bad.append({"n": li, "p": 0, "f": "error", "k": 0})
        if run["shape"] in OUTER:
            n = len(feed)
            _, call, _ = sem(run["shape"], feed, n)
            allL, allR = fed_to(feed, n, 0, 0), fed_to(feed, n, 1, 0)
            pairs = [r for r in out if r[0]["k"] != "n" and r[1]["k"] != "n"]
            padded = [r for r in out if r[0]["k"] == "n" or r[1]["k"] == "n"]
            safe = contract_sub_bag(pairs, correct)
            for r in padded:
                if r[1]["k"] == "n":
                    safe = safe and run["shape"] in ("shj_left", "shj_full") and any(x[0] == r[0] for x in allL) and not any(c[0] == r[0] for c in call)
                else:
                    safe = safe and run["shape"] in ("shj_right", "shj_full") and any(x[0] == r[1] for x in allR) and not any(c[1] == r[1] for c in call)
            out = pairs
        elif ordered:
            safe = out == correct[:len(out)]
        else:
            safe = contract_sub_bag(out, correct)
        if not safe:
            bad.append({"n": li, "p": 0, "f": "safety", "k": 0})
        _, _, det_lag = sem(run["shape"], feed, lag_prefix(feed, pt["fed"]))
        if len(out) + SLACK < len(det_lag):
            bad.append({"n": li, "p": 0, "f": "liveness", "k": 0})
        endok = (pt["ended"] == (len(out) == LIMITN)) if run["shape"] in ("limit", "filter_limit") else not pt["ended"]
        if not endok:
            bad.append({"n": li, "p": 0, "f": "end", "k": 0})
    return bad


def contract_sub_bag(a, b):
    import sqlcases
    return sqlcases.sub_bag(sqlcases.bag(a), sqlcases.bag(b))


def tlc_validate(ctx, logs, tag):
    tp = ctx.path(f"{tag}.trace.ndjson")
    write_ndjson(tp, logs)
    cfg = ctx.path(f"{tag}.cfg")
    with open(cfg, "w") as f:
        f.write(f"CONSTANTS SLACK = {SLACK}  LAG = {LAG}  LIMITN = {LIMITN}  WIN = {WIN}\nSPECIFICATION TraceSpec\nINVARIANT Judge\nCHECK_DEADLOCK FALSE\n")
    r = tlc(ctx, "contract/StreamTrace", cfg=cfg, workers=4, env={"TRACE": tp}, timeout=1500, xmx="6g", xss="512m", deadlock=False, tag=tag)
    if not r.ok:
        sys.stderr.write(r.out[-4000:])
        raise ToolError("StreamTrace validation failed to run")
    want = sum(len(l["points"]) for l in logs)
    if r.distinct != want:
        raise ToolError(f"StreamTrace judged {r.distinct} points, expected {want}")
    rej = collections.defaultdict(list)
    for line in r.out.splitlines():
        m = contract.REJECT_RE.match(line)
        if m:
            s = m.group(1)
            if s.startswith('"') and s.endswith('"'):
                s = s[1:-1].replace('\\"', '"').replace('\\\\', '\\')
            o = json.loads(s)
            rej[o["run"]] += [b for b in o["bad"] if b not in rej[o["run"]]]
    return rej, r


def run(ctx):
    build("vcontract")
    rng = random.Random(ctx.seed * 104729 + 5)
    if ctx.replay:
        rp = json.load(open(ctx.replay))
        cases = [rp["case"]]
    else:
        cases = []
        per = 6 if ctx.quick else 60
        for shape, (sql, sources, settings) in SHAPES.items():
            for i in range(per if shape in ACCEPTED else 1):
                nev = (rng.randint(18, 26) if shape.startswith("shj") else rng.randint(14, 22)) if shape in ACCEPTED else 4
                cases.append({"id": f"{shape}-{i}", "shape": shape, "sql": sql, "sources": sources, "settings": settings,
                              "feed": gen_feed(rng, shape, nev)})
    inp, out = ctx.path("c50.in.ndjson"), ctx.path("c50.out.ndjson")
    write_ndjson(inp, cases)
    run_harness(ctx, "vcontract", ["c50", "--in", inp, "--out", out], timeout=3000)
    runs = read_ndjson(out)
    by = {c["id"]: c for c in cases}
    logs = []
    for r in runs:
        if r.get("tool_err") or r.get("panic") or r.get("exec_err"):
            raise ToolError(f"c50 driver: {r['id']}: {r.get('tool_err') or r.get('exec_err') or 'panic'}")
        if r["shape"] in ACCEPTED and not r["planned"]:
            raise ToolError(f"accepted shape {r['shape']} was not planned by the engine: {r.get('err')}")
        pts = r.get("points") or [{"fed": 0, "out": [], "ended": False, "err": False}]
        r["points"] = pts
        logs.append({"id": r["id"], "shape": r["shape"], "planned": r["planned"], "feed": by[r["id"]]["feed"],
                     "points": [{"fed": p["fed"], "ended": p["ended"], "err": p["err"],
                                 "out": [[{"k": v["k"], "v": v["v"]} for v in row] for row in p["out"]]} for p in pts]})
    # self-test: corrupted logs must be rejected (drop emitted rows = stalled operator; alter a value; emit beyond the bound)
    muts = []
    for lg in logs:
        if lg["shape"] in ACCEPTED and lg["planned"] and len(muts) < 9:
            last = lg["points"][-1]
            _, _, det = sem(lg["shape"], lg["feed"], lag_prefix(lg["feed"], last["fed"]))
            if len(det) > SLACK + 2 and len(last["out"]) >= 2:
                m = json.loads(json.dumps(lg)); m["id"] = "MUT:stalled:" + lg["id"]
                for p in m["points"]:
                    p["out"] = [] if lg["shape"] not in ("limit", "filter_limit") else p["out"]
                if lg["shape"] not in ("limit", "filter_limit"):
                    muts.append((m, "liveness"))
                m = json.loads(json.dumps(lg)); m["id"] = "MUT:wrong-value:" + lg["id"]
                m["points"][-1]["out"][0][-1] = {"k": "i", "v": 99}
                muts.append((m, "safety"))
    rej, tr = tlc_validate(ctx, logs + [m[0] for m in muts], "stream")
    missed = [m[0]["id"] for m in muts if not any(b["f"] == m[1] for b in rej.get(m[0]["id"], []))]
    if missed or not muts:
        raise ToolError(f"self-test: corrupted stream logs accepted (or none built): {missed[:3]}")
    confirmed = 0
    for r in runs:
        tb = {contract.bkey(b) for b in rej.get(r["id"], [])}
        rb = {contract.bkey(b) for b in direct_bad(r, by[r["id"]]["feed"])}
        if tb != rb:
            raise ToolError(f"specification and direct re-computation disagree on {r['id']}: TLC {sorted(tb)[:3]} python {sorted(rb)[:3]}")
        for k in sorted(tb):
            confirmed += 1
            pt = r["points"][k[0] - 1]
            report_violation(ctx, {"case": by[r["id"]], "point": pt, "plan": r.get("plan"), "clause": k[2],
                                   "oracle": f"StreamOps rejects clause '{k[2]}' of shape {r['shape']} at quiescent point {k[0]} "
                                             f"(after {pt['fed']} feed events, {len(pt['out'])} rows emitted)"})
    # non-vacuity: for every accepted shape some run must determine more than SLACK rows and emit something
    stats = {}
    for r in runs:
        if r["shape"] in ACCEPTED:
            _, _, det = sem(r["shape"], by[r["id"]]["feed"], lag_prefix(by[r["id"]]["feed"], r["points"][-1]["fed"]))
            st = stats.setdefault(r["shape"], {"runs": 0, "max_determined": 0, "max_emitted": 0, "points": 0})
            st["runs"] += 1
            st["points"] += len(r["points"])
            st["max_determined"] = max(st["max_determined"], len(det))
            st["max_emitted"] = max(st["max_emitted"], len(r["points"][-1]["out"]))
    weak = [s for s, st in stats.items() if st["max_determined"] <= SLACK + 2 and s not in ("limit", "filter_limit")]
    if weak and not ctx.replay:
        raise ToolError(f"vacuity: shapes whose runs never determine more than SLACK rows: {weak}")
    rejected = {r["shape"]: (not r["planned"]) for r in runs if r["shape"] not in ACCEPTED}
    sample = next(r for r in runs if r["shape"] in ACCEPTED)
    write_evidence(ctx, "exploration", {
        "evaluations": sum(len(r["points"]) for r in runs), "distinct_nontrivial": len({json.dumps(by[r["id"]]["feed"]) + r["shape"] for r in runs if r["shape"] in ACCEPTED}),
        "rule": "case = <streaming shape, seeded random feed schedule over never-closed sources>; one evaluation = one quiescent point of one run judged by TLC "
                "(safety, bounded-lag liveness, end rule); non-trivial = distinct <shape, feed schedule> of an accepted shape",
        "samples": [{"shape": sample["shape"], "sql": by[sample["id"]]["sql"], "plan": sample["plan"],
                     "feed": [[[v["v"] if v["k"] != "n" else None for v in row] for row in ev["rows"]] for ev in by[sample["id"]]["feed"][:4]],
                     "emitted_after_each_feed": [len(p["out"]) for p in sample["points"]]}],
        "shapes": stats, "pipeline_breaking_shapes_rejected_at_planning": rejected,
        "slack_rows": SLACK, "tlc_states": tr.distinct, "rejections_confirmed": confirmed,
        "selftest_corrupted_logs_rejected": len(muts),
    }, assumptions=[
        "quiescence is progress-based on a current-thread runtime: the root is polled and the runtime yielded to until 300 consecutive scheduler turns produce no output "
        "and take no source batch; the sources are never closed",
        f"liveness: rows determined by a prefix are due once EVERY input partition has delivered LAG = {LAG} more batches, up to SLACK = {SLACK} rows, at every quiescent point (batch coalescing with batch_size 4 holds rows back); an operator that waits "
        "for end of input falls behind without bound and is rejected",
        "ts values are unique within a run (ties only in shape agg), so every accepted shape has one correct answer",
        "self-test on every run: logs of a stalled operator (nothing emitted) and of a wrong value must be rejected by TLC",
    ])
