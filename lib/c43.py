"""C43 — configuration options round-trip through their text form.

1. TLC model-checks spec/text/Config.tla: for EVERY parser/printer pair satisfying the contract (a printed text
   is accepted and is a fixpoint) over a small key/text universe, Set(k, Show(k)) is the identity in every
   reachable state and an invalid Set changes nothing.
2. B2: the harness derives the key set, each key's class and candidate texts from the implementation's own
   ConfigOptions::entries() (+ the runtime entries of df_settings), drives seeded histories of Set/Show through
   ConfigOptions::set, SessionConfig and SQL SET / SHOW / information_schema.df_settings, diffs the complete
   listing after every call, and spec/text/ConfigTrace.tla validates every event of every run (one TLC run
   prints the rejected events of every run).  Every key is round-tripped at its default and at a changed value.
"""
import json, os, copy
from common import *

K_OPT = "rejected-set-on-unset-option-stores-default"
K_TTL = "reset-list-files-cache-ttl"
K_RT_A = "runtime-printed-text-rejected"
K_RT_B = "runtime-set-changes-other-options"
K_RT_C = "runtime-size-display-truncated"


def decode(meta, e):
    T = lambda t: None if t == 0 else meta["texts"][t - 1]
    if e["op"] == "rebuild":
        return {"op": "rebuild", "via": e["via"], "ok": e["ok"], "differs": [[meta["keys"][j - 1], T(t)] for j, t in e["diff"]]}
    if e["op"] == "reset":
        return {"op": "reset", "key": meta["keys"][e["k"] - 1], "ok": e["ok"], "changed": [[meta["keys"][j - 1], T(t)] for j, t in e["ch"]]}
    d = {"op": e["op"], "key": meta["keys"][e["k"] - 1], "text": T(e["t"])}
    if e["op"] == "set":
        d.update(ok=e["ok"], changed=[[meta["keys"][j - 1], T(t)] for j, t in e["ch"]], plain=e["plain"], in_invalid_pool=e["inval"])
    return d


def run(ctx):
    build("vtext")
    if ctx.replay:
        rp = json.load(open(ctx.replay))
        ctx.seed = rp.get("seed", ctx.seed)
        ctx.tier = rp.get("tier", ctx.tier)
    # 1. the contract => round trip, for every implementation over a small universe
    r0 = tlc_must_pass(ctx, "text/Config", cfg="text/Config_mc.cfg", workers=4, timeout=1200, tag="mc")
    # 2. record
    summary, _ = run_harness(ctx, "vtext", ["c43", "--out", ctx.path("runs.ndjson"), "--meta", ctx.path("meta.json")], timeout=3000)
    if summary["keys_never_round_tripped"]:
        raise ToolError(f"keys never round-tripped: {summary['keys_never_round_tripped'][:5]}")
    REQUIRED = ["ConfigOptions::set", "ConfigOptions::reset", "ConfigOptions::from_env", "ConfigOptions::from_string_hash_map",
                "SessionConfig::options_mut().set", "SessionConfig::options_mut().reset", "SessionConfig::set_bool", "SessionConfig::set_u64", "SessionConfig::set_usize",
                "SessionConfig::set(ScalarValue)", "SessionConfig::set_str", "SessionConfig::from_string_hash_map",
                "SQL SET", "SQL RESET", "SQL SHOW", "SQL df_settings", "SQL df_settings (all rows)",
                "TableOptions::set", "TableOptions::alter_with_string_hash_map"]
    never = [p_ for p_ in REQUIRED if not summary["paths"].get(p_)]
    if never:
        raise ToolError(f"vacuity: front-end paths never exercised: {never}")
    if summary["table_option_keys"] < 30 or summary["parquet_column_option_keys"] < 3:
        raise ToolError("vacuity: table / per-column options were not discovered")
    if summary["keys_reset_after_a_change"] < summary["option_keys"] // 2:
        raise ToolError("vacuity: too few keys were RESET after a change")
    meta = json.load(open(ctx.path("meta.json")))
    runs = read_ndjson(ctx.path("runs.ndjson"))
    nreal = len(runs)
    # binding self-test: corrupted copies of recorded runs must be rejected by the trace specification
    corrupt = []
    for run_ in runs:
        evs = run_["ev"]
        i = next((i for i, e in enumerate(evs) if e["op"] == "set" and e["ok"] and e["plain"] and e["ch"]), None)
        j = next((i for i, e in enumerate(evs) if e["op"] == "set" and not e["ok"] and not e["ch"]), None)
        s = next((i for i, e in enumerate(evs) if e["op"] == "show" and e["t"] != 0), None)
        if i is not None and j is not None and s is not None:
            a = copy.deepcopy(run_); a["ev"][i]["ch"][0][1] = a["ev"][i]["ch"][0][1] % len(meta["texts"]) + 1; a["expect"] = i + 1
            b = copy.deepcopy(run_); b["ev"][j]["ch"] = [[b["ev"][j]["k"], 1]]; b["expect"] = j + 1
            c = copy.deepcopy(run_); c["ev"][s]["t"] = c["ev"][s]["t"] % len(meta["texts"]) + 1; c["expect"] = s + 1
            corrupt = [a, b, c]
            break
    if len(corrupt) != 3:
        raise ToolError("no run suitable for the binding self-test")
    write_ndjson(ctx.path("trace.ndjson"), [{k: v for k, v in r.items() if k in ("keys", "over", "raw", "ev")} for r in runs + corrupt])
    r = tlc_trace_validate(ctx, "text/ConfigTrace", "text/ConfigTrace.cfg", ctx.path("trace.ndjson"), timeout=3000)
    if not r.ok:
        sys.stderr.write(r.out[-4000:])
        raise ToolError("trace validation run failed")
    verdicts = {c["run"]: c for c in tlc_cases(r.out)}
    if len(verdicts) != len(runs) + 3:
        raise ToolError(f"TLC gave {len(verdicts)} verdicts for {len(runs) + 3} runs")
    for n, cr in enumerate(corrupt):
        if cr["expect"] not in verdicts[nreal + 1 + n]["rejected"]:
            raise ToolError(f"binding self-test: corrupted event {cr['expect']} of corrupted run {n} was not rejected")
    # 3. verdicts on the real runs
    rejected = accepted = 0
    known = {K_OPT: 0, K_RT_A: 0, K_RT_B: 0, K_RT_C: 0, K_TTL: 0}
    samples = []
    for ri, run_ in enumerate(runs):
        v = verdicts[ri + 1]
        if v["events"] != len(run_["ev"]):
            raise ToolError("verdict/run length mismatch")
        cfg = {i + 1: t for i, t in enumerate(run_["ev"][0]["cfg"])}
        seen = {(k, t) for k, t in cfg.items() if t != 0}
        over = {o["k"]: set(o["js"]) for o in run_["over"] + run_["raw"]}
        rej = set(v["rejected"])
        for i, e in enumerate(run_["ev"], start=1):
            if e["op"] == "init":
                continue
            if i in rej:
                rejected += 1
                keyname = meta["keys"][e["k"] - 1] if "k" in e else e.get("via", "")
                changed_names = [meta["keys"][j - 1] for j, _ in e.get("ch", [])]
                key = None
                if e["op"] == "reset" and keyname == "datafusion.runtime.list_files_cache_ttl" and e["ok"] and not e["ch"]:
                    key = K_TTL               # RESET succeeds but the TTL stays
                elif keyname.startswith("datafusion.runtime.") and run_["fe"] == "sql" and e["op"] == "set":
                    chk = {j for j, _ in e["ch"]}
                    if not e["ok"] and not e["ch"] and (e["k"], e["t"]) in seen:
                        key = K_RT_A          # a text the configuration printed for this variable is rejected
                    elif e["ok"] and not e["inval"] and (chk - {e["k"]} - over.get(e["k"], set())):
                        key = K_RT_B          # other options change
                    elif e["ok"] and e["t"] == cfg.get(e["k"]) and chk and chk <= over.get(e["k"], set()):
                        key = K_RT_C          # Set(k, Show(k)) changes the real (raw) limit
                elif e["op"] == "set" and not e["ok"] and cfg.get(e["k"]) == 0 and [j for j, _ in e["ch"]] == [e["k"]] and meta["classes"][e["k"] - 1] == "Opt":
                    key = K_OPT
                hist = [decode(meta, x) for x in run_["ev"][max(1, i - 6):i]]
                p = report_violation(ctx, {"case": {"front_end": run_["fe"], "run_kind": run_["kind"], "run": ri, "event": i},
                                           "observed": decode(meta, e), "model_value_before": (None if cfg.get(e.get("k"), 0) == 0 else meta["texts"][cfg[e["k"]] - 1]),
                                           "history_tail": hist,
                                           "oracle": "ConfigTrace.tla AcceptSet/AcceptShow: invalid => unchanged; printed text accepted and a fixpoint; Set(k, Show(k)) = identity; only k (and documented overrides) change; Show = model"},
                                     key=key)
                if key:
                    known[key] += 1
            else:
                accepted += 1
                if len(samples) < 3 and e["op"] == "set" and e["ok"] and e["ch"]:
                    samples.append({"front_end": run_["fe"], "event": decode(meta, e)})
            if e["op"] in ("set", "reset"):
                for j, t in e["ch"]:
                    cfg[j] = t
                    if t != 0:
                        seen.add((j, t))
            elif e["op"] == "show":
                cfg[e["k"]] = e["t"]
                if e["t"] != 0:
                    seen.add((e["k"], e["t"]))
    write_evidence(ctx, "model_checking", {
        "states": r0.distinct + r.distinct, "transitions": r0.generated + r.generated,
        "traces_validated_against_impl": nreal,
        "samples": samples,
        "exhaustive": True,
        "model_checking_runs": [{"module": "Config", "universe": "2 keys x 3 texts, every contract-satisfying parser/printer", "distinct_states": r0.distinct, "generated": r0.generated, "wall_s": round(r0.wall, 1)}],
        "trace_validation": {"runs": nreal, "events_accepted": accepted, "events_rejected": rejected, "rejected_by_known_finding": known, "trace_states": r.distinct,
                             "self_test_corrupted_runs_rejected": 3},
        "recorder": summary,
        "classes": {c: meta["classes"].count(c) for c in sorted(set(meta["classes"]))},
        "rule": "an event is one Set or Show through a front end with the complete listing diffed after it; every key of entries() is round-tripped at its default and at a changed value",
    }, assumptions=[
        "validity of a text is decided only where uncontroversial: a text the configuration printed for the key is valid and a fixpoint; canonical spellings (true/false, plain decimal numerals except 0, exact K/M/G sizes) print back verbatim if accepted; a fixed pool of malformed texts per class must be rejected",
        "documented override: datafusion.optimizer.enable_dynamic_filter_pushdown also writes the topk/join/aggregate flags (Over in ConfigTrace.tla)",
        "a key's class is inferred from the text of its default value in entries(); options whose default prints nothing (None) are given candidate texts of every class",
        "datafusion.runtime.temp_directory is not observed (it shows lazily created random spill directories, not a settable text form)",
        "large integers are only driven through ConfigOptions/SessionConfig (not through a live SQL session, where they would size real allocations)",
        "SessionConfig's typed setters and named builders unwrap errors: they are run on a copy and a panic counts as a rejected Set",
        "extension options are driven through an extension namespace `verif` registered by the harness (extensions_options!); the listing prints extension keys without their namespace, the harness adds it",
        "table options (csv / json / parquet, and the per-column parquet options the implementation accepts as `<option>::c1`) are driven through TableOptions::set with the format selected",
        "RESET: after a successful RESET the option shows the text of the initial listing; a refused RESET must change nothing (extension and table options have no RESET)",
        "rebuild events: the listing of a reached configuration is fed to from_string_hash_map / from_env / alter_with_string_hash_map and must produce the same listing (skipped while the documented umbrella flag and its sub-flags disagree)",
    ])
