"""C14 — join hash table lookups return exactly the matching build rows.

1. TLC model-checks spec/adt/JoinHashMap.tla exhaustively over the small scope: the implementation-grain
   head/next chains refine the abstract Chain (reverse insertion order, cut at the deleted offset), each
   live build row occurs exactly once, Contains <=> Lookup non-empty, and the concatenation of
   Page(limit, offset) over EVERY page size equals Lookup for every probe up to CHKPL rows (SpecOK).
2. B3: every reachable state of the specification is printed as a case (insertion history + expected
   result of every query for sampled probes); `vadt c14` replays each history on the real
   JoinHashMapU32 and JoinHashMapU64 and compares every query result (see harness/vadt/src/c14.rs).
   Quick: exhaustive small scope + TLC simulation of a larger scope; thorough: larger exhaustive scope.
"""
import json, os
from common import *
from adtutil import action_counts

CONST_CHECK = dict(NH=2, MAXR=4, MAXRD=3, MAXBL=3, DS="{0, 2}", NPROBE=1, MAXPL=2, CHKPL=2, UNIQ="FALSE")
GEN_Q = dict(NH=2, MAXR=4, MAXRD=3, MAXBL=3, DS="{0, 2}", NPROBE=3, MAXPL=4, CHKPL=1, UNIQ="FALSE")
SIM_Q = dict(NH=3, MAXR=7, MAXRD=5, MAXBL=4, DS="{0, 3}", NPROBE=3, MAXPL=5, CHKPL=1, UNIQ="FALSE")
CONST_CHECK_T = dict(NH=2, MAXR=5, MAXRD=4, MAXBL=3, DS="{0, 2}", NPROBE=1, MAXPL=3, CHKPL=3, UNIQ="FALSE")
GEN_T = dict(NH=3, MAXR=4, MAXRD=3, MAXBL=4, DS="{0, 2}", NPROBE=3, MAXPL=4, CHKPL=1, UNIQ="FALSE")
UNIQ_Q = dict(NH=3, MAXR=3, MAXRD=1, MAXBL=3, DS="{0}", NPROBE=8, MAXPL=5, CHKPL=2, UNIQ="TRUE")
UNIQ_T = dict(NH=4, MAXR=4, MAXRD=1, MAXBL=3, DS="{0}", NPROBE=4, MAXPL=5, CHKPL=2, UNIQ="TRUE")
SIM_T = dict(NH=4, MAXR=9, MAXRD=6, MAXBL=5, DS="{0, 3}", NPROBE=4, MAXPL=5, CHKPL=1, UNIQ="FALSE")


def cfg_text(c, invs):
    s = "CONSTANTS " + "  ".join(f"{k} = {v}" for k, v in c.items()) + "\n"
    s += "SPECIFICATION Spec\nINVARIANTS " + " ".join(invs) + "\nCHECK_DEADLOCK FALSE\n"
    return s


def selftest(ctx, cases):
    """Not registered: corrupt one expected value per case; the harness must flag every corrupted case."""
    import copy
    bad = []
    kinds = ["swap", "drop", "dup", "contains", "len", "shift"]
    pick = [c for c in cases if any(len(p["fwd"]) >= 2 and p["fwd"][0] != p["fwd"][1] for p in c["probes"])][:60]
    for i, c in enumerate(pick):
        c = copy.deepcopy(c)
        k = kinds[i % len(kinds)]
        p = next(p for p in c["probes"] if len(p["fwd"]) >= 2 and p["fwd"][0] != p["fwd"][1])
        if k == "swap":
            p["fwd"][0], p["fwd"][1] = p["fwd"][1], p["fwd"][0]
        elif k == "drop":
            p["fwd"].pop()
        elif k == "dup":
            p["fwd"].append(p["fwd"][-1])
        elif k == "contains":
            p["contains"][0] ^= 1
        elif k == "len":
            c["len"] += 1
        elif k == "shift":
            p["fwd"][0][1] += 1
        c["selftest"] = k
        bad.append(c)
    write_ndjson(ctx.path("bad.ndjson"), bad)
    run_harness(ctx, "vadt", ["c14", "--in", ctx.path("bad.ndjson"), "--out", ctx.path("bad.json")])
    res = json.load(open(ctx.path("bad.json")))
    flagged = {json.dumps(v["case"]["hist"]) + v["case"]["selftest"] for v in res["violations"]}
    print(f"SELFTEST corrupted={len(bad)} violations_total={res['violations_total']} (every corrupted case must be flagged)")
    if res["violations_total"] < len(bad):
        raise ToolError("selftest: a corrupted expectation was not detected")
    write_evidence(ctx, "model_checking", {"states": 1, "transitions": 1, "traces_validated_against_impl": len(bad), "samples": bad[:1], "selftest": True})


def run(ctx):
    build("vadt")
    if ctx.replay:
        rp = json.load(open(ctx.replay))
        args = ["c14e2e" if rp.get("layer") == "operator" else "c14", "--replay", ctx.replay, "--out", ctx.path("res.json")]
        if "palette" in rp:
            args += ["--palette", rp["palette"]]
        run_harness(ctx, "vadt", args)
        res = json.load(open(ctx.path("res.json")))
        for v in res["violations"]:
            report_violation(ctx, v)
        write_evidence(ctx, "model_checking", {"states": 1, "transitions": 1, "traces_validated_against_impl": res["evaluations"],
                                               "samples": res["samples"]})
        return
    w = 4 if ctx.quick else 8
    # 1. the specification decides the property (exhaustive, small scope)
    cfg = ctx.path("check.cfg")
    open(cfg, "w").write(cfg_text(CONST_CHECK if ctx.quick else CONST_CHECK_T, ["TypeOK", "SpecOK"]))
    rc = tlc_must_pass(ctx, "adt/JoinHashMap", cfg=cfg, workers=w, deadlock=False, coverage=True, tag="check", timeout=3000)
    ac = action_counts(rc.out)
    if ac.get("InsertBatch", (0, 0))[1] == 0 or rc.distinct < 100:
        raise ToolError(f"vacuity: InsertBatch never taken / too few states ({rc.distinct})")
    # 2. cases: every reachable state of the generation scope + simulated walks of a larger scope
    cfg = ctx.path("gen.cfg")
    open(cfg, "w").write(cfg_text(GEN_Q if ctx.quick else GEN_T, ["TypeOK", "Emit"]))
    rg = tlc(ctx, "adt/JoinHashMap", cfg=cfg, workers=w, deadlock=False, tag="gen", timeout=3000,
             mode_args=["-seed", str(ctx.seed)])
    if not rg.ok:
        sys.stderr.write(rg.out[-3000:])
        raise ToolError("TLC case generation failed")
    cases = tlc_cases(rg.out)
    # all-distinct builds (reach the map.len() == next.len() fast path); SpecOK is checked here too
    cfg = ctx.path("uniq.cfg")
    open(cfg, "w").write(cfg_text(UNIQ_Q if ctx.quick else UNIQ_T, ["TypeOK", "SpecOK", "Emit"]))
    ru = tlc(ctx, "adt/JoinHashMap", cfg=cfg, workers=w, deadlock=False, tag="uniq", timeout=3000,
             mode_args=["-seed", str(ctx.seed)])
    if not ru.ok:
        sys.stderr.write(ru.out[-3000:])
        raise ToolError("TLC case generation (distinct builds) failed")
    cases += tlc_cases(ru.out)
    n_exh = len(cases)
    cfg = ctx.path("sim.cfg")
    open(cfg, "w").write(cfg_text(SIM_Q if ctx.quick else SIM_T, ["TypeOK", "Emit"]))
    nsim = 600 if ctx.quick else 6000
    rs = tlc(ctx, "adt/JoinHashMap", cfg=cfg, workers=1, deadlock=False, tag="sim", timeout=3000,
             mode_args=["-simulate", f"num={nsim}", "-depth", "6", "-seed", str(ctx.seed)])
    sim_cases = tlc_cases(rs.out)
    if "Error:" in rs.out and not sim_cases:
        sys.stderr.write(rs.out[-3000:])
        raise ToolError("TLC simulation failed")
    cases += sim_cases
    if n_exh < 500 or len(sim_cases) < 100:
        raise ToolError(f"too few cases generated: exhaustive {n_exh}, simulated {len(sim_cases)}")
    uniq = {json.dumps(c, sort_keys=True): c for c in cases}
    cases = list(uniq.values())
    write_ndjson(ctx.path("cases.ndjson"), cases)
    if os.environ.get("VERIF_SELFTEST"):
        return selftest(ctx, cases)
    summary, _ = run_harness(ctx, "vadt", ["c14", "--in", ctx.path("cases.ndjson"), "--out", ctx.path("res.json")], timeout=3000)
    res = json.load(open(ctx.path("res.json")))
    for v in res["violations"][:5]:
        report_violation(ctx, v)
    # operator level: the same build / probe tables joined by HashJoinExec with small batch sizes (paged lookup inside
    # the operator); dense integer keys take the ArrayMap path, strings / sparse integers the JoinHashMapU32 path
    op_cases = [c for c in cases if c["d"] == 0 and len(c["hist"]) >= 1][: (700 if ctx.quick else 6000)]
    write_ndjson(ctx.path("opcases.ndjson"), op_cases)
    _, _ = run_harness(ctx, "vadt", ["c14e2e", "--in", ctx.path("opcases.ndjson"), "--out", ctx.path("op.json")], timeout=3000)
    op = json.load(open(ctx.path("op.json")))
    if op["tool_errors"]:
        raise ToolError("operator-level harness errors: " + "; ".join(op["tool_errors"][:3]))
    for v in op["violations"][:5]:
        report_violation(ctx, dict(v, layer="operator"))
    am = op["runs_that_built_an_array_map"]
    if (len(op["per_config"]) != 16 or op["hash_join_plans"] < op["evaluations"] * 0.9 or op["distinct_nontrivial"] < 100
            or am.get("DenseI32", 0) < 50 or am.get("DenseI64", 0) < 50 or am.get("Utf8", 0) != 0):
        raise ToolError(f"vacuity (operator level): { {k: v for k, v in op.items() if k != 'violations'} }")
    if res["distinct_nontrivial"] < 50 or res["fastpath_probe_cases"] == 0 or res["resume_mid_chain"] == 0:
        raise ToolError(f"vacuity: non-trivial lookups {res['distinct_nontrivial']}, fast-path {res['fastpath_probe_cases']}, mid-chain resumes {res['resume_mid_chain']}")
    write_evidence(ctx, "model_checking", {
        "states": rc.distinct + rg.distinct + ru.distinct, "transitions": rc.generated + rg.generated + ru.generated,
        "traces_validated_against_impl": len(cases) * 2,
        "samples": [c for c in cases if c["d"] == 0 and len(c["hist"]) >= 2 and any(len(p["fwd"]) >= 3 for p in c["probes"])][:1] or cases[:1],
        "exhaustive": True,
        "spec_check": {"constants": CONST_CHECK if ctx.quick else CONST_CHECK_T, "distinct_states": rc.distinct, "wall_s": round(rc.wall, 1),
                       "invariants": ["ChainRefines", "ContainsAgrees", "EachOnce", "PagedEqLookup (all probes <= CHKPL rows x all page sizes)"]},
        "case_generation": {"exhaustive_scope": GEN_Q if ctx.quick else GEN_T, "distinct_build_scope": UNIQ_Q if ctx.quick else UNIQ_T, "exhaustive_cases": n_exh,
                            "simulated_scope": SIM_Q if ctx.quick else SIM_T, "simulated_cases": len(sim_cases)},
        "histories_replayed": len(cases), "implementations": ["JoinHashMapU32", "JoinHashMapU64"],
        "real_api_calls_checked": res["evaluations"], "pages_fetched": res["pages"], "page_sizes_used": res["page_sizes_used"],
        "distinct_nontrivial": res["distinct_nontrivial"],
        "fastpath_probe_cases": res["fastpath_probe_cases"], "resume_mid_chain": res["resume_mid_chain"],
        "drift_page_boundaries": res["drift_page_boundaries"], "drift_samples": res["drift_samples"],
        "violations_total": res["violations_total"] + op["violations_total"],
        "operator_level": {k: v for k, v in op.items() if k not in ("violations", "tool_errors")},
        "rule": "a case is a reachable state of JoinHashMap.tla (insertion history of update_from_iter batches incl. NULL-key rows, batch direction, deleted offset with pruned ghost rows) x sampled probes; non-trivial = the expected Lookup is non-empty; distinct = distinct (history, probe)",
    }, assumptions=[
        "PruningJoinHashMap (private module) is not driven directly; its post-pruning state is emulated on JoinHashMapU64/U32 with deleted_offset d > 0 and rows below d referenced from head/next",
        "ArrayMap (private module joins::array_map) is driven only through HashJoinExec (SQL inner joins over MemTables, dense Int32/Int64 keys, batch sizes 1/2/3/8192), compared as a bag of (build row, probe row) pairs; the operator's array_map_created_count metric is read to confirm which runs took the ArrayMap path",
        "page boundaries / returned offsets are compared with the model's Page() but only counted as drift; the verdict uses the concatenation, the per-page limit and termination",
        "binding demonstrated while building: corrupting Scan's resume rule in the spec makes TLC reject SpecOK; see final report for code-side mutations",
    ])
