"""C32 -- scalar function results do not depend on the representation of the arguments.

For every function of the default registry (SessionState::scalar_functions()) that is not volatile and not on the explicit
list of type-inspecting functions, and for the argument type tuples it accepts without coercion (TypeSignature example types
plus a candidate sweep through the coercion entry point fields_with_udf), the driver (vfacts c32) invokes
ScalarUDF::invoke_with_args on the same logical argument rows (typed value pools with NULLs, empty / long / non-ASCII strings,
extreme numbers; columns and layouts are TLC behaviours of Encodings.tla) as: plain arrays, arrays sliced out of garbage with /
without validity buffer and garbage under NULLs, split batches, one row at a time, a constant passed as an array vs as
ColumnarValue::Scalar, a dictionary-encoded argument, and in each of the equivalent string / binary encodings.  Every successful
per-row result is a Call event <function|argument classes, logical argument row, result>; FuncTrace.tla (TLC) accepts the
events of one function iff they are consistent with a function of the logical row.  A batch that fails although each of its
rows succeeds alone is recorded as a conflicting event; result length and declared return type are checked by the identity law.
"""
import json, os
from common import *
import c12, c34


def finding_key(base, detail):
    """narrow keys of the two known findings: the function, and the representation pair / input that exercises the defect"""
    variants = {k.strip() for k in detail["results"]}
    if base.startswith("to_char|") and "scalar-arg" in variants and detail.get("constant_arg") == 0:
        return "to_char: constant date/time value with a per-row (array) format"
    if base.split("|")[0] in ("array_append", "array_prepend") and "NULL" in detail["input"] and variants & {"r1", "r2", "split"}:
        # the list argument is the logically NULL one
        tys = base.split("|")[1]
        li = 0 if base.startswith("array_append") else 1
        if detail["input"][li] == "NULL":
            return "array_append / array_prepend: NULL list whose child range is not empty"
    return None


def execute(ctx, bs, tag=""):
    write_ndjson(ctx.path(f"beh{tag}.ndjson"), bs)
    sigs, beh = (3, 1) if ctx.quick else (8, 3)
    summary, _ = run_harness(ctx, "vfacts", ["c32", "--in", ctx.path(f"beh{tag}.ndjson"), "--out", ctx.path(f"runs{tag}.ndjson"), "--sigs", sigs, "--beh", beh],
                             timeout=3000)
    if summary is None:
        raise ToolError("no summary from the driver")
    if summary["harness_error_count"]:
        raise ToolError(f"driver errors: {summary['harness_errors'][:2]}")
    return summary, read_ndjson(ctx.path(f"runs{tag}.ndjson"))


def run(ctx):
    build("vfacts")
    procs = 4 if ctx.quick else 8
    if ctx.replay:
        rp = json.load(open(ctx.replay))
        bs = rp["behaviours"]
        ctx.seed = rp.get("seed", ctx.seed)
    else:
        bs = c12.gen_behaviours(ctx)
    summary, runs = execute(ctx, bs)
    sruns = c34.split_runs(runs)
    verdicts, st, gen = c12.validate(ctx, sruns, procs)
    by_f = {r["f"]: r for r in sruns}
    bad = [v for v in verdicts.values() if not v["ok"]]
    reported = []
    if bad and not ctx.replay:
        # re-execute once: every rejected observation must reproduce (the driver is deterministic for a seed)
        s2, runs2 = execute(ctx, bs, tag="-confirm")
        again = {r["f"]: {(e["i"], e["o"]) for e in r["ev"]} for r in runs2}
    for v in bad:
        r = by_f[v["f"]]
        base = v["f"].split("#")[0]
        e2 = r["ev"][v["at"] - 1]
        e1 = r["ev"][v["first"] - 1] if v["first"] else e2
        if not ctx.replay and ((e2["i"], e2["o"]) not in again.get(base, ()) or (e1["i"], e1["o"]) not in again.get(base, ())):
            raise ToolError(f"rejection of {v['f']} did not reproduce on re-execution (machinery)")
        detail = {"function": base, "input": e2["i"].split("\x1f"), "results": {e1.get("variant", "?"): e1["o"], e2.get("variant", "?") + " ": e2["o"]},
                  "constant_arg": e2.get("arg", e1.get("arg"))}
        if len(reported) < 15:
            report_violation(ctx, {"behaviours": bs, "seed": ctx.seed, "observed": detail,
                                   "oracle": "same function, same logical argument row, different per-row results in two representations"
                                             if v["first"] else "result length / declared type"}, key=finding_key(base, detail))
        reported.append(detail)
    json.dump(reported, open(ctx.path("rejections.json"), "w"), indent=1)
    events = sum(len(r["ev"]) for r in runs)
    if ctx.replay:
        write_evidence(ctx, "exploration", {"evaluations": events, "distinct_nontrivial": max(2, len(runs)), "rule": "replay", "samples": [r["ev"][:2] for r in runs[:1]]})
        return
    variants = {}
    consulted = 0
    for r in runs:
        cnt = {}
        for e in r["ev"]:
            cnt[e["i"]] = cnt.get(e["i"], 0) + 1
            variants[e.get("variant", "?")] = variants.get(e.get("variant", "?"), 0) + 1
        consulted += sum(c - 1 for c in cnt.values())
    if summary["exercised"] < 80 or consulted < 2000:
        raise ToolError(f"vacuity: {summary['exercised']} functions exercised, memo consulted {consulted} times")
    write_evidence(ctx, "exploration", {
        "evaluations": events, "distinct_nontrivial": len({(r["f"], e["i"]) for r in runs for e in r["ev"]}),
        "memo_consultations": consulted,
        "rule": "an observation = one successful per-row result of one invocation; distinct = distinct <function|argument classes, logical argument row>; "
                "non-trivial = the same input observed again in another representation (memo consulted)",
        "samples": [{"f": r["f"], "events": r["ev"][:3]} for r in runs if r["law"] == "function"][:1],
        "registry_functions": summary["registry"], "functions_with_a_successful_invocation": summary["exercised"],
        "excluded_functions": summary["excluded"], "functions_without_a_supported_signature": summary["no_supported_signature"],
        "invocations": summary["invocations"], "successful_invocations": summary["successful_invocations"], "engine_panics_counted": summary["panics"],
        "observations_by_variant": variants, "functions_and_signatures": len(runs), "tlc_states": st,
        "tlc_rejections": len(bad), "reported": reported[:6],
    }, assumptions=[
        "only argument type tuples accepted without coercion and built from the harness value pools (<= 3 arguments) are invoked; the Spark registry, "
        "higher-order functions and functions needing map / struct / interval arguments are not covered",
        "Utf8/LargeUtf8/Utf8View (and the binary encodings) are treated as the same argument class, as the property states; results are compared by their "
        "logical rendering, not by their Arrow type",
        "failed invocations carry no obligation except a batch whose rows all succeed alone",
    ])
