"""Rendering of spec/lib/Expr.tla ASTs (the subset the file checks generate) to SQL text."""


def sql_lit(v, pool):
    k = v["k"]
    if k == "n":
        return "NULL"
    if k == "i":
        return str(v["v"])
    if k == "b":
        return "TRUE" if v["v"] == 1 else "FALSE"
    if k == "s":
        return "'" + pool[v["v"] - 1].replace("'", "''") + "'"
    raise ValueError(f"literal kind {k}")


def render(x, names, pool, litfmt=None, ctxcol=0):
    """names: SQL text of column i (1-based list); litfmt: {column: function(value record) -> SQL} for literals
    compared with that column (e.g. timestamps)."""
    op = x["op"]
    if op == "col":
        return names[x["i"] - 1]
    if op == "lit":
        if litfmt and ctxcol in litfmt and x["v"]["k"] != "n":
            return litfmt[ctxcol](x["v"])
        return sql_lit(x["v"], pool)
    if op == "bin":
        f = {"and": "AND", "or": "OR"}.get(x["f"], x["f"])
        c = x["l"]["i"] if x["l"]["op"] == "col" else (x["r"]["i"] if x["r"]["op"] == "col" else 0)
        return f"({render(x['l'], names, pool, litfmt, c)} {f} {render(x['r'], names, pool, litfmt, c)})"
    if op == "un":
        e = render(x["e"], names, pool, litfmt)
        return {"not": f"(NOT {e})", "isnull": f"({e} IS NULL)", "isnotnull": f"({e} IS NOT NULL)"}[x["f"]]
    if op == "in":
        c = x["e"]["i"] if x["e"]["op"] == "col" else 0
        return f"({render(x['e'], names, pool, litfmt)} {'NOT ' if x['neg'] else ''}IN ({', '.join(render(l, names, pool, litfmt, c) for l in x['list'])}))"
    raise ValueError(f"node {op}")


# orthogonal array of strength 2 for 7 binary factors (+ complements): every pair of switch values occurs
OA7 = ["0000000", "1010101", "0110011", "1100110", "0001111", "1011010", "0111100", "1101001"]
OA7 = OA7 + ["".join("1" if c == "0" else "0" for c in r) for r in OA7]


def has_notin_or(x):
    """(c NOT IN L1) OR (c NOT IN L2) with disjoint literal lists somewhere in the predicate: the shape of
    the known simplifier defect findings/C44-not-in-or-not-in-null.md."""
    if not isinstance(x, dict):
        return False
    if x.get("op") == "bin" and x.get("f") == "or":
        l, r = x["l"], x["r"]
        if l.get("op") == "in" and r.get("op") == "in" and l["neg"] and r["neg"] and l["e"] == r["e"]:
            a = {(e["v"]["k"], e["v"]["v"]) for e in l["list"]}
            b = {(e["v"]["k"], e["v"]["v"]) for e in r["list"]}
            if not (a & b):
                return True
    return any(has_notin_or(x.get(k)) for k in ("l", "r", "e"))


NOTIN_KEY = "simplifier:not-in-or-not-in-disjoint-lists-folded-to-true-keeps-null-rows"
