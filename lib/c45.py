"""C45 — components passed through the foreign-function interface behave as native.

Every built-in scalar, aggregate and window function of a default session is wrapped with
FFI_ScalarUDF / FFI_AggregateUDF / FFI_WindowUDF, and every table with FFI_TableProvider (scans go through
FFI_ExecutionPlan / FFI_RecordBatchStream), all forced onto the foreign path by overriding the library marker
(as datafusion-ffi's own tests do).  Cases: TLC-generated sqlcases (spec/gen/PlanGen.tla + Rel.tla reference
results), the transport corpus, and a per-function battery (one SQL statement per function over generated
databases).  Oracle: foreign session = native session on the same case — rows (bag; for LIMIT cases the TLA+
reference's subset/top-k rule), output names and types, and failure exactly when the native session fails.
"""
import json, collections
from common import *
import sqlcases, transport

S = lambda e: f"SELECT CAST({e} AS VARCHAR) AS v FROM t1"
SCALAR = [S(e) for e in [
    "abs(c1)", "signum(c2)", "power(c1, 2)", "sqrt(abs(c1))", "ceil(c1 / 2.0)", "floor(c2 / 2.0)", "round(c1 / 3.0, 2)", "trunc(c1 / 3.0)",
    "gcd(c1, c2)", "lcm(c1, c2)", "factorial(abs(c2))", "isnan(c1 / 1.0)", "iszero(c1 / 1.0)", "nanvl(c1 / 1.0, c2 / 1.0)", "exp(c1)", "ln(abs(c1) + 1)",
    "log(2, abs(c1) + 1)", "sin(c1)", "atan2(c1, c2)", "cbrt(c1)", "degrees(c1)", "pi() * c1",
    "upper(c3)", "lower(c3)", "length(c3)", "character_length(c3)", "concat(c3, 'x', c3)", "concat_ws('-', c3, 'y')", "left(c3, 1)", "right(c3, 1)",
    "substr(c3, 2)", "substr(c3, 1, 1)", "lpad(c3, 4, '*')", "rpad(c3, 4, '*')", "reverse(c3)", "repeat(c3, 2)", "replace(c3, 'a', 'z')", "strpos(c3, 'b')",
    "starts_with(c3, 'a')", "ends_with(c3, 'b')", "trim(c3)", "ltrim(c3, 'a')", "rtrim(c3, 'b')", "btrim(c3, 'b')", "ascii(c3)", "chr(65 + abs(c1))",
    "initcap(c3)", "translate(c3, 'ab', 'xy')", "split_part(c3, 'b', 1)", "md5(c3)", "sha256(c3)", "digest(c3, 'sha1')", "bit_length(c3)", "octet_length(c3)",
    "to_hex(abs(c1))", "levenshtein(c3, 'ab')", "contains(c3, 'a')", "find_in_set(c3, 'a,b,ab')", "substr_index(c3, 'b', 1)", "overlay(c3 placing 'Z' from 1 for 1)",
    "coalesce(c1, c2, 0)", "nullif(c1, c2)", "nvl(c1, 9)", "nvl2(c1, 1, 2)", "greatest(c1, c2)", "least(c1, c2)", "ifnull(c3, 'z')",
    "regexp_like(c3, '^a')", "regexp_replace(c3, 'b', 'X')", "regexp_count(c3, 'a')", "regexp_match(c3, '(a)')", "c3 LIKE 'a%'", "c3 SIMILAR TO 'a.*'",
    "to_timestamp_seconds(c1)", "date_trunc('day', to_timestamp_seconds(c1 * 86400))", "date_part('year', to_timestamp_seconds(c1 * 86400))",
    "to_char(to_timestamp_seconds(c1 * 86400), '%Y-%m-%d')", "make_date(2000 + CAST(abs(c1) AS INT), 1, 1)", "from_unixtime(c1)", "date_bin(INTERVAL '1 day', to_timestamp_seconds(c1 * 100000))",
    "to_date('2020-01-0' || CAST(abs(c1) + 1 AS VARCHAR))", "to_unixtime(to_timestamp_seconds(c2))",
    "make_array(c1, c2)", "array_length(make_array(c1, c2, c1))", "array_to_string(make_array(c1, c2), ',')", "array_element(make_array(c1, c2), 2)",
    "array_append(make_array(c1), c2)", "array_distinct(make_array(c1, c1, c2))", "array_sort(make_array(c2, c1))", "array_has(make_array(c1, c2), 1)",
    "cardinality(make_array(c1, c2))", "array_position(make_array(c1, c2), c2)", "array_concat(make_array(c1), make_array(c2))", "range(0, abs(c1))",
    "struct(c1, c3)", "named_struct('a', c1, 'b', c3)", "get_field(named_struct('a', c1, 'b', c3), 'b')", "arrow_typeof(c1)", "arrow_cast(c1, 'Int32')",
    "encode(c3, 'hex')", "decode(encode(c3, 'base64'), 'base64')", "version() IS NOT NULL", "uuid() IS NOT NULL", "random() < 2",
]]
A = lambda e, src="t1": f"SELECT c1, CAST({e} AS VARCHAR) AS v FROM {src} GROUP BY c1"
AGG = [A(e) for e in [
    "sum(c2)", "count(c2)", "count(*)", "min(c2)", "max(c2)", "avg(c2)", "median(c2)", "stddev(c2)", "stddev_pop(c2)", "var_samp(c2)", "var_pop(c2)",
    "bit_and(c2)", "bit_or(c2)", "bit_xor(c2)", "array_agg(c2 ORDER BY c2)", "array_agg(DISTINCT c2 ORDER BY c2)", "string_agg(c3, ',' ORDER BY c3)", "first_value(c2 ORDER BY c2 NULLS LAST)",
    "last_value(c2 ORDER BY c2 NULLS FIRST)", "nth_value(c2, 2 ORDER BY c2)", "approx_distinct(c2)", "count(DISTINCT c2)", "sum(DISTINCT c2)", "corr(c1 + c2, c2)",
    "covar_samp(c2, c2 + 1)", "covar_pop(c2, c2)", "regr_slope(c2, c2 + c1)", "regr_count(c2, c1)", "approx_median(c2)", "approx_percentile_cont(0.5) WITHIN GROUP (ORDER BY c2)",
    "percentile_cont(0.5) WITHIN GROUP (ORDER BY c2)", "min(c3)", "max(c3)", "sum(c2) FILTER (WHERE c2 > 0)", "grouping(c1)",
]] + [A(e, "t3") for e in ["bool_and(c3)", "bool_or(c3)", "count(c3)", "min(c2)", "array_agg(c3 ORDER BY c3)"]] + [
    "SELECT CAST(sum(c2) AS VARCHAR) AS s, CAST(avg(c2) AS VARCHAR) AS a, count(*) AS n, CAST(median(c1) AS VARCHAR) AS m FROM t1",
    "SELECT c1, CAST(sum(c2) OVER (PARTITION BY c1 ORDER BY c2 NULLS FIRST, c3 NULLS FIRST ROWS BETWEEN 1 PRECEDING AND CURRENT ROW) AS VARCHAR) AS v FROM t1",
    "SELECT c1, CAST(avg(c2) OVER (ORDER BY c1 NULLS FIRST, c2 NULLS FIRST, c3 NULLS FIRST ROWS BETWEEN 1 PRECEDING AND 1 FOLLOWING) AS VARCHAR) AS v FROM t1",
    "SELECT c1, count(c2) OVER (PARTITION BY c3) AS v, min(c2) OVER (ORDER BY c1 NULLS FIRST, c2 NULLS FIRST, c3 NULLS FIRST ROWS BETWEEN 2 PRECEDING AND CURRENT ROW) AS w FROM t1",
    "SELECT c1, CAST(sum(c2) AS VARCHAR) AS s FROM t1 GROUP BY ROLLUP(c1)",
]
W = lambda e: f"SELECT c1, c2, CAST({e} OVER (PARTITION BY c1 ORDER BY c2 NULLS FIRST, c3 NULLS FIRST) AS VARCHAR) AS v FROM t1"
WIN = [W(e) for e in ["row_number()", "rank()", "dense_rank()", "percent_rank()", "cume_dist()", "ntile(2)", "lag(c2)", "lag(c2, 2, -7)", "lead(c2)", "lead(c3, 1, 'zz')",
                      "first_value(c2)", "last_value(c2)", "nth_value(c2, 2)", "first_value(c2) IGNORE NULLS", "lag(c2) IGNORE NULLS"]] + [
    "SELECT c1, last_value(c2) OVER (ORDER BY c1 NULLS FIRST, c2 NULLS FIRST, c3 NULLS FIRST ROWS BETWEEN 1 PRECEDING AND 1 FOLLOWING) AS v FROM t1",
    "SELECT c1, nth_value(c2, 2) OVER (ORDER BY c1 NULLS FIRST, c2 NULLS FIRST, c3 NULLS FIRST RANGE BETWEEN UNBOUNDED PRECEDING AND UNBOUNDED FOLLOWING) AS v FROM t1",
    "SELECT c1, row_number() OVER (ORDER BY c1 DESC NULLS LAST, c2, c3) AS v FROM t1",
]
TABLE = [
    "SELECT * FROM t1", "SELECT c3, c1 FROM t1 WHERE c1 > 0", "SELECT c2 FROM t1 WHERE c3 = 'a' OR c1 IS NULL", "SELECT count(*) AS n FROM t2", "SELECT c1 FROM t3 LIMIT 2 OFFSET 0",
    "SELECT a.c1, b.c2 FROM t1 a JOIN t2 b ON a.c1 = b.c1", "SELECT c1 FROM t1 UNION ALL SELECT c1 FROM t2", "SELECT c3 FROM t3 WHERE c3", "SELECT c1 + 1 AS x FROM t2 ORDER BY x NULLS FIRST, c2",
]


def gen(ctx):
    n = 160 if ctx.quick else 2000
    gens = [(2, 2, ctx.seed), (3, 1, ctx.seed + 1000)]
    cases, states, trans = [], 0, 0
    for gi, (d, ed, sd) in enumerate(gens):
        cs, r = sqlcases.generate(ctx, n // len(gens), sd, depth=d, edepth=ed, tag=f"gen{gi}", workers=4 if ctx.quick else 8)
        for c in cs:
            c["id"] = f"g{gi}-{c['id']}"
        cases += cs
        states += r.distinct
        trans += r.generated
    dbs = [c for c in cases if all(len(t["rows"]) >= 2 for t in c["tables"])][: (2 if ctx.quick else 8)] or cases[:1]
    extra = []
    for di, d in enumerate(dbs):
        for grp, qs in (("scalar", SCALAR), ("agg", AGG), ("win", WIN), ("table", TABLE), ("corpus", transport.CORPUS)):
            for qi, q in enumerate(qs):
                extra.append({"id": f"{grp}{di}-{qi}", "sql": q, "tables": d["tables"], "corpus": True, "group": grp})
    return cases, extra, states, trans


def judge(case, r):
    """None | message."""
    n, f = r["native"], r["foreign"]
    if "err" in n and "err" in f:
        return None
    if "err" in n:
        return "foreign path succeeds where the native component fails: " + n["err"][:200]
    if "err" in f:
        return "foreign path fails where the native component succeeds: " + f["err"][:300]
    if n["names"] != f["names"] or n["types"] != f["types"]:
        return f"schema differs: native {list(zip(n['names'], n['types']))} foreign {list(zip(f['names'], f['types']))}"
    nondet = any(x in case["sql"] for x in ("uuid()", "random()"))
    if transport.rows_key(n["rows"]) == transport.rows_key(f["rows"]) or nondet:
        return None
    if not case.get("corpus") and case["mode"] in ("subset", "topk"):
        # LIMIT without a total order: both answers only have to be allowed by the reference
        mf = sqlcases.compare(case, f["rows"], None)
        return None if not mf else "foreign result not allowed by the reference: " + mf
    return f"rows differ: native {json.dumps(n['rows'])[:300]} foreign {json.dumps(f['rows'])[:300]}"


def run(ctx):
    build("vffi")
    if ctx.replay:
        rp = json.load(open(ctx.replay))
        allcases, wraps = [rp["case"]], [rp["wrap"]]
        states = trans = 1
    else:
        cases, extra, states, trans = gen(ctx)
        allcases, wraps = cases + extra, ["udf", "udaf", "udwf", "table", "all"]
    byid = {c["id"]: c for c in allcases}
    evals, both_err, ok = 0, collections.Counter(), collections.Counter()
    nontrivial, samples, wrapped = set(), [], {}
    for wname in wraps:
        inp, out = ctx.path(f"c45-{wname}.in.ndjson"), ctx.path(f"c45-{wname}.out.ndjson")
        write_ndjson(inp, [{"id": c["id"], "sql": c["sql"], "tables": c["tables"]} for c in allcases])
        summ, _ = run_harness(ctx, "vffi", ["c45", "--wrap", wname, "--in", inp, "--out", out, "--partitions", "2"], timeout=3000)
        wrapped[wname] = {"wrapped": summ["wrapped"], "wrap_failed": summ["wrap_failed"]}
        for r in read_ndjson(out):
            c = byid[r["id"]]
            evals += 1
            msg = judge(c, r)
            if msg:
                rc = {k: c[k] for k in c if k in ("id", "sql", "tables", "corpus", "group", "db", "schemas", "plan", "schema", "mode", "expect", "universe")}
                report_violation(ctx, {"case": rc, "wrap": wname, "observed": r, "oracle": msg}, key=finding_key(c, r, wname))
            elif "err" in r["native"]:
                both_err[c.get("group", "generated")] += 1
            else:
                ok[c.get("group", "generated")] += 1
                if r["native"]["rows"]:
                    nontrivial.add((c["sql"], wname))
                if len(samples) < 2 and c.get("group") in ("agg", "win") and r["native"]["rows"] and wname == "all":
                    samples.append({"sql": c["sql"], "wrap": wname, "native": r["native"]["rows"][:3], "foreign": r["foreign"]["rows"][:3]})
    if not ctx.replay:
        w = wrapped["all"]["wrapped"]
        if w["udf"] < 100 or w["udaf"] < 20 or w["udwf"] < 8:
            raise ToolError(f"vacuity: too few functions wrapped: {w}")
    write_evidence(ctx, "exploration", {
        "evaluations": evals, "distinct_nontrivial": len(nontrivial),
        "rule": "case = SQL over a generated database run in a native session and in a session whose scalar/aggregate/window functions and/or table providers are the Foreign* wrappers "
                "(5 wrap modes); cases = TLC-generated sqlcases + 30-query corpus + one statement per built-in function (battery); non-trivial = distinct <SQL, wrap mode> with a non-empty native result equal to the foreign one",
        "samples": samples or [{"note": "replay"}], "states": states, "transitions": trans, "cases": len(allcases),
        "agree_ok": dict(ok), "both_fail": dict(both_err), "wrapped_components": wrapped, "known_findings_hit": list(ctx.known),
    }, assumptions=[
        "foreign path forced by overriding library_marker_id on the FFI_* struct, in-process (no separate shared library is loaded)",
        "results of non-basic types are compared through CAST(.. AS VARCHAR); uuid()/random() are compared by schema only",
    ])


def finding_key(case, r, wname):
    """Narrow keys of the genuine FFI defects of the pinned tree (known_findings.json); anything else raises."""
    import re
    err = r["foreign"].get("err", "") if "err" not in r["native"] else ""
    if wname in ("udf", "all") and re.search(r"FFI error: Internal error: \w+ should have been simplified to", err):
        return "ForeignScalarUDF does not forward simplify()"
    if wname in ("udf", "all") and "FFI error" in err and re.search(
            r"must be non-null scalar|only supports literal values|must be a scalar|requires all field_name arguments to be", err):
        return "ForeignScalarUDF passes scalar arguments as arrays"
    if wname in ("udf", "all") and not err and "err" not in r["foreign"] and "array_has(make_array(c1, c2), 1)" in case["sql"]:
        return "ForeignScalarUDF passes scalar arguments as arrays"
    if wname in ("udf", "all") and "Divide by zero" in err and re.search(r"coalesce\([^()]*, \([^()]* / ", case["sql"]):
        return "ForeignScalarUDF does not forward simplify()"      # coalesce no longer short-circuits: its arguments are evaluated eagerly
    if wname in ("udaf", "all") and not err and "err" not in r["foreign"] and re.search(r"= \(SELECT count\(", case["sql"]) and "outer" in json.dumps(case.get("plan", "")):
        return "ForeignAggregateUDF does not forward default_value (count in a correlated scalar subquery)"
    if wname in ("udaf", "all") and "WITHIN GROUP is only supported for ordered-set aggregate functions" in err:
        return "ForeignAggregateUDF does not forward ordered-set (WITHIN GROUP) support"
    return None
