"""semcases — cases of spec/sem/SemGen.tla (plan + several databases, each with its reference result).

A case is a sqlcases case (id, db, schemas, plan, schema, mode, expect, universe, sql, tables, out_cols) plus
  dbs: [{dbseed, db, expect, universe}]  — further databases for the same plan.
`views(case)` yields one sqlcases-compatible case per database (index 0 = the primary one), so that
`sqlcases.compare(view, rows, err)` applies the verdict rule for that database."""
import sys
from common import tlc, tlc_cases, ToolError
import sqlcases

NEW_FEATURES = ["window", "lateral", "quant", "sets", "distincton", "pack", "having", "tlimit", "cse", "focus"]
ALL_FEATURES_S = sqlcases.ALL_FEATURES + NEW_FEATURES


def generate(ctx, n, seed, depth=2, edepth=2, maxrows=4, ndb=3, features=None, tag="semgen", workers=4,
             module="sem/SemGen", emit="EmitS", extra_consts="", init="Init"):
    feats = ALL_FEATURES_S if features is None else features
    cfg = ctx.path(f"{tag}.cfg")
    with open(cfg, "w") as f:
        f.write(f"CONSTANTS N = {n}  DEPTH = {depth}  EDEPTH = {edepth}  MAXROWS = {maxrows}  NDB = {ndb}\n")
        f.write("  FEATURES = {" + ",".join(f'"{x}"' for x in feats) + "}\n" + extra_consts)
        f.write(f"INIT {init}\nNEXT Next\nINVARIANT {emit}\nCHECK_DEADLOCK FALSE\n")
    r = tlc(ctx, module, cfg=cfg, workers=workers, mode_args=["-seed", str(seed)], tag=tag, xss="64m",
            deadlock=False, timeout=1800)
    if not r.ok:
        sys.stderr.write(r.out[-3000:])
        raise ToolError(f"{module} failed")
    cases = tlc_cases(r.out)
    for c in cases:
        if "plan" in c:
            sqlcases.render(c)
    return cases, r


def db_tables(case, db):
    return [{"name": f"t{t+1}", "cols": [{"name": f"c{i+1}", "kind": k} for i, k in enumerate(sch)], "rows": db[t]}
            for t, sch in enumerate(case["schemas"])]


def views(case):
    """One comparison view per database: [primary, extra1, ...]."""
    out = [case]
    for d in case.get("dbs", []):
        v = {k: case[k] for k in ("id", "plan", "mode", "schema", "schemas", "sql")}
        v.update(db=d["db"], expect=d["expect"], universe=d["universe"], dbseed=d["dbseed"],
                 expect_alt=d.get("expect_alt"), universe_alt=d.get("universe_alt"))
        out.append(v)
    return out


def harness_case(case):
    """The record sent to the Rust drivers: SQL, plan AST, output names/kinds and the table rows of every database."""
    return {"id": case["id"], "sql": case["sql"], "plan": case["plan"], "schemas": case["schemas"],
            "out_cols": case["out_cols"], "schema": case["schema"], "mode": case["mode"],
            "tables": case["tables"],
            "dbs": [[t["rows"] for t in case["tables"]]] + [d["db"] for d in case.get("dbs", [])]}


def generate_many(ctx, gens, workers=None):
    """gens = [(depth, edepth, ndb, n, seed)]; the TLC runs execute concurrently.  Returns the cases (ids prefixed g<k>-)."""
    import concurrent.futures
    w = workers or (2 if ctx.quick else 4)

    def one(gi_g):
        gi, (d, ed, ndb, n, sd) = gi_g
        cs, r = generate(ctx, n, sd, depth=d, edepth=ed, maxrows=4, ndb=ndb, tag=f"gen{gi}", workers=w)
        for c in cs:
            c["id"] = f"g{gi}-{c['id']}"
        return cs, r
    with concurrent.futures.ThreadPoolExecutor(max_workers=4) as ex:
        results = list(ex.map(one, enumerate(gens)))
    cases = []
    ctx.cov["generator_states"] = sum(r.distinct for _, r in results)
    for cs, _ in results:
        cases += cs
    return cases


def compare(view, rows, err):
    """sqlcases.compare for a view, with the alternative expectation evaluated against ITS universe (LIMIT modes):
    None = allowed by the reference; "KNOWN[setop-all-evaluated-as-semi-anti-join] ..." = differs from the reference but
    is exactly what the engine's semi/anti-join reading of INTERSECT ALL / EXCEPT ALL gives; else the oracle message."""
    msg = sqlcases._compare(view, view["expect"], rows, err)
    alt = view.get("expect_alt")
    if msg and alt is not None and err is None and (alt != view["expect"] or view.get("universe_alt") != view.get("universe")):
        v2 = dict(view, universe=view.get("universe_alt") if view.get("universe_alt") is not None else view.get("universe"))
        if sqlcases._compare(v2, alt, rows, err) is None:
            return f"KNOWN[{sqlcases.KNOWN_SETOP_ALL}] INTERSECT ALL / EXCEPT ALL lose multiplicities (engine evaluates them as semi/anti joins): {msg}"
    return msg


def known_key(msg):
    import re
    m = re.search(r"KNOWN\[([^\]]+)\]", msg or "")
    return m.group(1) if m else None
