"""C12 -- row hashes depend only on the logical row value.

1. TLC checks the law Decode(Apply(recipe, col)) = col of spec/facts/Encodings.tla for every column and recipe of the
   scope (plain/sliced/garbage/validity, dictionary, run-end, split): the recipes are semantics preserving in the model.
2. TLC draws behaviours <<logical column, recipe1, recipe2>> (seeded); the driver assembles 1-4 key columns of every
   supported key type (primitive, float with -0.0/+0.0, temporal, decimal, strings/binary incl. views and large offsets,
   fixed-size binary, list / large list / fixed-size list / struct with child values under NULL parents, dictionary
   with permuted / duplicate / unused keys and NULL via key or value, run-end encoded), builds the Arrow arrays each
   recipe describes, FIRST checks its own construction by decoding back to the logical tokens, then calls the real
   create_hashes / with_hashes (fast and quality states), create_hashes_with_hasher and ScalarValue::hash.
3. B2: FuncTrace.tla accepts the recorded Call events of one function (type tuple x random state) iff they are consistent
   with a function of the logical row (memo seen[input] = output).  A rejection is re-executed before it is reported.
"""
import json, os, concurrent.futures as cf
from common import *

PLAIN = ["Int8", "Int16", "Int32", "Int64", "UInt8", "UInt64", "Float32", "Float64", "Boolean", "Date32", "TimestampNs", "Decimal128",
         "Utf8", "LargeUtf8", "Utf8View", "Binary", "LargeBinary", "BinaryView", "FixedSizeBinary", "List", "LargeList", "FixedSizeList", "Struct"]
ENCODED = ["Dict32:Utf8", "Dict32:Int64", "Dict8:Utf8", "Dict32:Float64", "Dict8:Int32", "Dict32:Utf8View", "Dict32:Boolean",
           "Ree:Utf8", "Ree:Int64", "Ree:Float64", "Ree:Boolean"]
TYPES = PLAIN + ENCODED
CFG = "SPECIFICATION Spec\nINVARIANT Emit\nCHECK_DEADLOCK FALSE\n"


def gen_behaviours(ctx):
    cfg = ctx.path("gen.cfg")
    k = 60 if ctx.quick else 300
    open(cfg, "w").write(f"CONSTANTS D = 4  MAXLEN = 5  K = {k}\nSPECIFICATION GenSpec\nINVARIANT Emit\nCHECK_DEADLOCK FALSE\n")
    r = tlc(ctx, "facts/Encodings", cfg=cfg, workers=1, deadlock=False, tag="gen", mode_args=["-seed", str(ctx.seed)], timeout=1200)
    if not r.ok:
        sys.stderr.write(r.out[-3000:])
        raise ToolError("TLC behaviour generation failed")
    bs = tlc_cases(r.out)
    if len(bs) < 100:
        raise ToolError("too few behaviours generated")
    return bs


def assemble(ctx, bs):
    """k key columns of the same length, each with its own type and recipe pair"""
    rng = ctx.rng
    by_len = {}
    for b in bs:
        by_len.setdefault(len(b["col"]), []).append(b)
    cases = []
    n_cases = 500 if ctx.quick else 2500
    # every type alone at least a few times, then random tuples
    plan = [[t] for t in TYPES for _ in range(3 if ctx.quick else 12)]
    while len(plan) < n_cases:
        k = rng.choice([1, 2, 2, 3, 4])
        plan.append([rng.choice(TYPES) for _ in range(k)])
    # repeated tuples make the memo bite across cases as well
    hot = [["Int32", "Utf8"], ["Dict32:Utf8", "Int64"], ["Float64"], ["Utf8View", "Ree:Int64", "Boolean"], ["Struct", "List"]]
    for i, tys in enumerate(plan):
        if i % 7 == 0:
            tys = rng.choice(hot)
        ln = rng.choice([l for l in by_len if l >= 2] or list(by_len))
        cols = []
        for t in tys:
            b = rng.choice(by_len[ln])
            cols.append({"ty": t, "col": b["col"], "r1": b["r1"], "r2": b["r2"]})
        cases.append({"id": i, "cols": cols, "seed": rng.choice([0, 7])})
    return cases


def validate(ctx, runs, procs):
    cfg = ctx.path("trace.cfg")
    open(cfg, "w").write(CFG)
    runs = sorted(runs, key=lambda r: -len(r["ev"]))
    chunks = [[] for _ in range(procs)]
    load = [0] * procs
    for r in runs:
        j = load.index(min(load))
        chunks[j].append(r); load[j] += len(r["ev"]) ** 2 // 50 + len(r["ev"])
    chunks = [c for c in chunks if c]

    def one(j):
        p = ctx.path(f"val-{j}.ndjson")
        write_ndjson(p, chunks[j])
        r = tlc(ctx, "facts/FuncTrace", cfg=cfg, workers=1, env={"TRACE": p}, timeout=3000, xmx="3g", xss="1g", tag=f"val-{j}", deadlock=False)
        if not r.ok:
            sys.stderr.write(r.out[-3000:])
            raise ToolError("TLC failed while validating recorded hash events")
        return r
    with cf.ThreadPoolExecutor(max_workers=procs) as ex:
        rs = list(ex.map(one, range(len(chunks))))
    verdicts = {}
    for r in rs:
        for v in tlc_cases(r.out):
            verdicts[v["f"]] = v
    missing = [r["f"] for r in runs if r["f"] not in verdicts]
    if missing:
        raise ToolError(f"TLC produced no verdict for {len(missing)} runs (first {missing[:3]})")
    return verdicts, sum(r.distinct for r in rs), sum(r.generated for r in rs)


def split_runs(runs, cap=200):
    """long runs are cut into overlapping windows by input token so that equal inputs stay together"""
    out = []
    for r in runs:
        if len(r["ev"]) <= cap:
            out.append(r)
            continue
        groups = {}
        for e in r["ev"]:
            groups.setdefault(e["i"], []).append(e)
        cur, k = [], 0
        for tok, evs in groups.items():
            if cur and len(cur) + len(evs) > cap:
                out.append({"f": f"{r['f']}#{k}", "ev": cur}); cur = []; k += 1
            cur += evs
        if cur:
            out.append({"f": f"{r['f']}#{k}", "ev": cur})
    return out


def execute(ctx, cases, tag=""):
    write_ndjson(ctx.path(f"cases{tag}.ndjson"), cases)
    summary, _ = run_harness(ctx, "vfacts", ["c12", "--in", ctx.path(f"cases{tag}.ndjson"), "--out", ctx.path(f"runs{tag}.ndjson")])
    if summary is None:
        raise ToolError("no summary from the driver")
    if summary["harness_error_count"]:
        raise ToolError(f"driver could not build / self-check {summary['harness_error_count']} arrays: {summary['harness_errors'][:2]}")
    return summary, read_ndjson(ctx.path(f"runs{tag}.ndjson"))


def run(ctx):
    build("vfacts")
    procs = 4 if ctx.quick else 8
    if ctx.replay:
        cases = json.load(open(ctx.replay))["cases"]
        summary, runs = execute(ctx, cases)
        verdicts, st, gen = validate(ctx, split_runs(runs), 1)
        bad = [v for v in verdicts.values() if not v["ok"]]
        for v in bad:
            report_violation(ctx, {"cases": cases, "function": v["f"], "oracle": "two Call events with the same logical input and different outputs"})
        write_evidence(ctx, "exploration", {"evaluations": sum(len(r["ev"]) for r in runs), "distinct_nontrivial": max(2, len(runs)),
                                            "rule": "replay", "samples": [r["ev"][:2] for r in runs[:1]]})
        return
    bg = cf.ThreadPoolExecutor(max_workers=1)
    law_cfg = ctx.path("law.cfg")
    open(law_cfg, "w").write(f"CONSTANTS D = 2  MAXLEN = {2 if ctx.quick else 3}  K = 1\nSPECIFICATION LawSpec\nINVARIANT LawHolds\nCHECK_DEADLOCK FALSE\n")
    law = bg.submit(lambda: tlc_must_pass(ctx, "facts/Encodings", cfg=law_cfg, workers=2 if ctx.quick else 6, timeout=3000, tag="law", deadlock=False))
    bs = gen_behaviours(ctx)
    cases = assemble(ctx, bs)
    summary, runs = execute(ctx, cases)
    sruns = split_runs(runs)
    verdicts, st, gen = validate(ctx, sruns, procs)
    by_f = {r["f"]: r for r in sruns}
    bad = [v for v in verdicts.values() if not v["ok"]]
    confirmed = 0
    case_by_id = {c["id"]: c for c in cases}
    for v in bad[:20]:
        r = by_f[v["f"]]
        e1, e2 = r["ev"][v["first"] - 1], r["ev"][v["at"] - 1]
        involved = [case_by_id[i] for i in sorted({e1["case"], e2["case"]})]
        if v["f"].startswith("scalar|"):
            # inputs of scalar runs are Debug renderings; only an Eq-equal pair with different hashes (found by the driver) is a violation
            if not any(x["case"] in (e1["case"], e2["case"]) for x in summary["scalar_eq_violations"]):
                continue
        # re-execute the involved cases: the discrepancy must reproduce
        s2, runs2 = execute(ctx, involved, tag="-confirm")
        again = {}
        for rr in runs2:
            if rr["f"] == v["f"].split("#")[0]:
                for e in rr["ev"]:
                    again.setdefault(e["i"], set()).add(e["o"])
        if len(again.get(e1["i"], ())) < 2:
            raise ToolError(f"rejection of {v['f']} did not reproduce on re-execution (machinery)")
        confirmed += 1
        report_violation(ctx, {"cases": involved, "function": v["f"], "input": e1["i"], "events": [e1, e2],
                               "oracle": "same logical row, same key types and random state, different hashes"})
    for x in summary["scalar_eq_violations"][:5]:
        if not ctx.violations:
            report_violation(ctx, {"cases": [case_by_id[x["case"]]], "function": "ScalarValue::hash", "observed": x,
                                   "oracle": "ScalarValue == but hashes differ"})
    lw = law.result()
    events = sum(len(r["ev"]) for r in runs)
    # a non-trivial observation: an input seen at least twice in its run (the memo is consulted)
    consulted = 0
    distinct_inputs = 0
    for r in runs:
        cnt = {}
        for e in r["ev"]:
            cnt[e["i"]] = cnt.get(e["i"], 0) + 1
        distinct_inputs += len(cnt)
        consulted += sum(c - 1 for c in cnt.values())
    types_seen = sorted({t for c in cases for t in (x["ty"] for x in c["cols"])})
    if consulted < 500 or len(types_seen) < len(TYPES):
        raise ToolError(f"vacuity: memo consulted {consulted} times, {len(types_seen)}/{len(TYPES)} key types exercised")
    write_evidence(ctx, "exploration", {
        "evaluations": events, "distinct_nontrivial": distinct_inputs,
        "memo_consultations": consulted,
        "rule": "a case = 1-4 key columns (logical column and two recipes per column from TLC behaviours of Encodings.tla) hashed in both layouts by "
                "create_hashes/with_hashes (fast + quality state), create_hashes_with_hasher and ScalarValue::hash; distinct = distinct "
                "<function, logical row> inputs; non-trivial = the same input observed again (memo consulted)",
        "samples": [{"f": runs[0]["f"], "events": runs[0]["ev"][:3]}],
        "behaviours_from_tlc": len(bs), "cases": len(cases), "functions": len(runs), "validated_runs": len(sruns),
        "arrays_built_and_self_checked": summary["arrays_built"], "rows_hashed": summary["rows_hashed"],
        "engine_errors": summary["engine_errors"], "key_types": types_seen,
        "tlc_states_trace_validation": st, "tlc_rejections": len(bad), "confirmed": confirmed,
        "law_check": {"distinct_states": lw.distinct, "wall_s": round(lw.wall, 1)},
    }, assumptions=[
        "map, union, list-view and large-list-view keys are not generated; NaN payload variants are not treated as equal values",
        "the driver's own construction is checked by decoding every array back to logical tokens (arrow's formatter) before hashing",
        "ScalarValue::hash: inputs are Eq-classes approximated by the Debug rendering; a rejection counts only if the driver saw == scalars with different hashes",
    ])
