"""C10 — repartitioning delivers every row exactly once to the right partition.

1. TLC model-checks spec/proto/Repartition.tla (abstract exchange protocol: arbitrary routing function,
   memory-or-spill sends with markers, shared vs per-input queues, early output drops, an input failure):
   right partition, exactly once, clean end-of-stream completeness, per-input FIFO across the
   memory/spill boundary in order-preserving mode, exact memory accounting, termination of every output.
2. B3: spec/proto/RepartCases.tla enumerates partitioner cases (key columns with NULLs, partition counts,
   split points x sort options, round-robin offsets) and *computes the partition of every row*
   (spec/proto/RepartRoute.tla: hash % n over the hash values measured on the real create_hashes with the
   repartition seed, range rule, round-robin rule); the cases are replayed into the real
   BatchPartitioner::partition / partition_iter and RangeExpr::evaluate.
3. The real RepartitionExec is executed on scripted multi-partition inputs with a row-id column over
   schemes x outputs 1..8 x preserve_order x batch sizes x memory budgets (spill path) x spill file sizes x
   early-drop patterns x input errors x runtime schedules; oracle on the real outputs (harness), and
4. B2: every run's event trace (in/out/eos/err/drop) is validated by TLC against
   spec/proto/RepartitionTrace.tla, which decides placement, exactly-once, completeness and order.
"""
import json, os, re
from concurrent.futures import ThreadPoolExecutor
from common import *

MC_INVS = ["TypeOK", "RightPartition", "NoDuplicate", "EosComplete", "NoCleanEndAfterFailure", "FifoPO", "MemExact", "Released", "MarkerHasBatch"]
MC_ACTIONS = ["Pull", "Send", "Finish", "Fail", "Recv", "Drop"]
ACT_RE = re.compile(r"^<(\w+) line \d+, col \d+ to line \d+, col \d+ of module Repartition(?: \([\d ]+\))?>: (\d+):(\d+)", re.M)


def tla_bool(x):
    return "TRUE" if x else "FALSE"


def kv(x):
    return None if x["nul"] else x["v"]


def run(ctx):
    build("vproto")
    if ctx.replay:
        summary, _ = run_harness(ctx, "vproto", ["c10", "--replay", ctx.replay, "--out", ctx.path("res.json")])
        res = json.load(open(ctx.path("res.json")))
        for v in res["violations"]:
            report_violation(ctx, v, key=v.get("key"))
        write_evidence(ctx, "model_checking", {"states": 1, "transitions": 1, "traces_validated_against_impl": res["exec_runs"] + res["part_cases"],
                                               "samples": res["samples"] or [{"replayed": ctx.replay}]})
        return
    quick = ctx.quick
    pool = ThreadPoolExecutor(max_workers=3)
    # ---- hashes of the key domain, measured on the real hashing API -------------------------------
    run_harness(ctx, "vproto", ["c10", "--hashes", ctx.path("hashes.json")])
    hv = json.load(open(ctx.path("hashes.json")))
    limbs = hv["limbs"]
    mc_mod = ctx.path("MCRepartCases.tla")
    open(mc_mod, "w").write("---- MODULE MCRepartCases ----\nEXTENDS RepartCases\nHVV == <<" +
                            ", ".join("<<" + ", ".join(map(str, l)) + ">>" for l in limbs) + ">>\n====\n")
    ccfg = ctx.path("cases.cfg")
    open(ccfg, "w").write(f"CONSTANTS HV <- HVV MAXLEN = {2 if quick else 3} MAXN = 8 MAXSP = 3\nSPECIFICATION Spec\nINVARIANTS Sane Emit\nCHECK_DEADLOCK FALSE\n")
    f_cases = pool.submit(lambda: tlc_must_pass(ctx, mc_mod, cfg=ccfg, workers=2, tag="cases", timeout=1800))
    # the combined "early drop, then input failure" scenarios
    dcfg = ctx.path("droperr.cfg")
    open(dcfg, "w").write("CONSTANTS MAXOUT = 3 NIN = 3\nSPECIFICATION Spec\nINVARIANTS Emit\nCHECK_DEADLOCK FALSE\n")
    f_de = pool.submit(lambda: tlc_must_pass(ctx, "proto/RepartDropErr", cfg=dcfg, workers=2, tag="droperr", timeout=1800))
    # ---- 1. the protocol model ----------------------------------------------------------------------
    exh = [dict(NI=2, NO=2, NB=1, PO=False, MEM=1, live=True), dict(NI=2, NO=2, NB=1, PO=True, MEM=0, live=True),
           dict(NI=2, NO=2, NB=2, PO=True, MEM=1, live=False)]
    if not quick:
        exh += [dict(NI=2, NO=2, NB=2, PO=False, MEM=1, live=True), dict(NI=2, NO=2, NB=2, PO=True, MEM=0, live=True),
                dict(NI=2, NO=3, NB=1, PO=False, MEM=1, live=True), dict(NI=3, NO=2, NB=1, PO=True, MEM=1, live=True),
                dict(NI=2, NO=2, NB=2, PO=False, MEM=2, live=False)]

    def mc(i_c):
        i, c = i_c
        cfg = ctx.path(f"mc{i}.cfg")
        open(cfg, "w").write(f"CONSTANTS NI = {c['NI']} NO = {c['NO']} NB = {c['NB']} PO = {tla_bool(c['PO'])} MEM = {c['MEM']} ERRS = TRUE DROPS = TRUE FANOUT_BREAKS = FALSE\n"
                             f"SPECIFICATION Spec\nINVARIANTS {' '.join(MC_INVS)}\n" + ("PROPERTIES Termination ErrorSurfaces\n" if c["live"] else "") + "CHECK_DEADLOCK TRUE\n")
        return c, tlc_must_pass(ctx, "proto/Repartition", cfg=cfg, workers=3 if quick else 4, coverage=True, tag=f"mc{i}", timeout=3000)

    f_mc = [pool.submit(mc, x) for x in enumerate(exh)]

    # the spill-pool x gate interplay (known finding): the model of the code as it is deadlocks, the model of
    # the proposed repair is deadlock free and delivers everything
    def gate(fixed):
        cfg = ctx.path(f"gate-{fixed}.cfg")
        open(cfg, "w").write(f"CONSTANTS W = 2 NB = {2 if quick else 3} FIXED = {tla_bool(fixed)}\nSPECIFICATION Spec\nINVARIANTS Delivered NeverTooMany\n"
                             "PROPERTIES Termination\nCHECK_DEADLOCK TRUE\n")
        return tlc(ctx, "proto/RepartSpillGate", cfg=cfg, workers=2, tag=f"gate-{fixed}", timeout=1800)

    f_gate = [pool.submit(gate, False), pool.submit(gate, True)]

    # model-side mutation (thorough): an error fan-out that stops at the first dropped output must be condemned
    def fanout_mutant():
        cfg = ctx.path("fanout.cfg")
        open(cfg, "w").write("CONSTANTS NI = 2 NO = 2 NB = 1 PO = FALSE MEM = 1 ERRS = TRUE DROPS = TRUE FANOUT_BREAKS = TRUE\n"
                             f"SPECIFICATION Spec\nINVARIANTS {' '.join(MC_INVS)}\nCHECK_DEADLOCK TRUE\n")
        return tlc(ctx, "proto/Repartition", cfg=cfg, workers=2, tag="fanout", timeout=1800)

    f_fan = None if quick else pool.submit(fanout_mutant)
    # ---- 2. partitioner cases -----------------------------------------------------------------------
    r = f_cases.result()
    cases = []
    for c in tlc_cases(r.out):
        cases.append({"scheme": c["scheme"], "kc": c["kc"], "n": c["n"], "col": [kv(x) for x in c["col"]], "splits": [kv(x) for x in c["splits"]],
                      "desc": c["desc"], "nf": c["nf"], "rr_in": c["rr_in"], "rr_nin": c["rr_nin"], "rr_batches": c["rr_batches"], "expect": c["expect"]})
    if len(cases) < 500:
        raise ToolError(f"only {len(cases)} partitioner cases enumerated")
    case_states = r.distinct
    write_ndjson(ctx.path("part_cases.ndjson"), cases)
    # drop x error scenarios: every <shape, failing input, position> group, with the scheme / preserve_order /
    # spill variants cycled through the groups (quick) or all of them (thorough)
    de_all = tlc_cases(f_de.result().out)
    for k, c in enumerate(de_all):
        c["id"] = k
    groups = {}
    for c in de_all:
        groups.setdefault((c["nout"], tuple(c["drop"]), tuple(c["never"]), c["err_in"], c["err_pos"]), []).append(c)
    de_cases = []
    for gi, (gk, members) in enumerate(sorted(groups.items())):
        members.sort(key=lambda c: (c["scheme"], c["po"], c["spill"]))
        if quick:
            de_cases += [members[(gi * 5 + j * 7 + ctx.seed) % len(members)] for j in range(3)]
        else:
            de_cases += members
    de_reps = 1 if quick else 3
    write_ndjson(ctx.path("droperr_cases.ndjson"), de_cases)
    # ---- 3. the real operator -----------------------------------------------------------------------
    nrandom = 120 if quick else 2000
    summary, _ = run_harness(ctx, "vproto", ["c10", "--part-cases", ctx.path("part_cases.ndjson"), "--random", nrandom, "--jobs", 4, "--droperr-cases", ctx.path("droperr_cases.ndjson"), "--droperr-reps", de_reps, "--forced", 6 if quick else 12, "--forced-stop",
                                              "--out", ctx.path("res.json"), "--traces", ctx.path("traces.ndjson")], timeout=6000)
    res = json.load(open(ctx.path("res.json")))
    for v in res["violations"]:
        report_violation(ctx, v, key=v.get("key"))
    if not ctx.violations:
        thin = [k for k in ("exec_spilled_runs", "exec_input_error_runs", "exec_early_drop_runs", "exec_preserve_order_runs") if res[k] == 0]
        if thin or res["rows_delivered"] == 0:
            raise ToolError(f"vacuity: no executed run covered {thin}")
    # vacuity guards: every path family below must have been executed on the real code in this tier
    need = ["scheme_hash", "scheme_rr", "scheme_range", "hash_1_keys", "hash_2_keys", "hash_3_keys", "family_droperr", "family_random",
            "range_null_split_value", "range_desc", "range_nulls_first", "range_string_key", "range_compound_key", "range_null_key_rows",
            "preserve_order", "not_preserve_order", "preserve_order_spilled", "shared_pool_spilled", "spill_file_rotation_every_batch",
            "unbounded_no_coalescer", "coalescer_all_rows_residual", "coalescer_batch_size_1", "coalescer_small_target",
            "empty_input_batches", "single_input", "single_output", "drop_after_k_batches", "drop_after_first_poll", "output_never_executed",
            "input_error", "input_error_with_dropped_and_live_outputs", "input_error_while_other_input_already_ended", "input_error_before_first_batch",
            "input_error_with_rows_in_coalescer", "input_error_preserve_order", "input_error_with_spilled_batches",
            "current_thread_runtime", "multi_thread_runtime"]
    need_parts = ["hash_k1", "range_k1", "range_k2", "range_bad_k1", "range_bad_k2", "rr_k1"]
    if not ctx.violations:
        missing = [k for k in need if res["paths"].get(k, 0) == 0] + [k for k in need_parts if res["part_kinds"].get(k, 0) == 0]
        if missing:
            raise ToolError(f"vacuity: path families never executed on the real code in this tier: {missing}")
        de_variants = {}
        for c in de_cases:
            de_variants[(c["scheme"], c["po"], c["spill"])] = de_variants.get((c["scheme"], c["po"], c["spill"]), 0) + 1
        if len(de_variants) < 12 or min(de_variants.values()) < 10:
            raise ToolError(f"vacuity: drop x error scenarios do not cover every scheme/preserve_order/spill variant: {de_variants}")
    # ---- protocol model results ---------------------------------------------------------------------
    states = transitions = 0
    mcs, taken = [], {}
    for f in f_mc:
        c, r = f.result()
        states += r.distinct
        transitions += r.generated
        mcs.append({"constants": c, "distinct_states": r.distinct, "generated": r.generated, "wall_s": round(r.wall, 1)})
        for m in ACT_RE.finditer(r.out):
            taken[m.group(1)] = taken.get(m.group(1), 0) + int(m.group(3))
    never = [a for a in MC_ACTIONS if taken.get(a, 0) == 0]
    if never:
        raise ToolError(f"vacuity: specification actions never taken: {never}")
    if f_fan is not None:
        rf = f_fan.result()
        if not (set(rf.invariant_violated) & {"EosComplete", "NoCleanEndAfterFailure"}):
            sys.stderr.write(rf.out[-3000:])
            raise ToolError("Repartition.tla with FANOUT_BREAKS=TRUE is not condemned by EosComplete/NoCleanEndAfterFailure (specification-level)")
    g_pinned, g_fixed = [f.result() for f in f_gate]
    if not g_fixed.ok or g_fixed.deadlock or g_fixed.invariant_violated or g_fixed.temporal_violated:
        sys.stderr.write(g_fixed.out[-3000:])
        raise ToolError("RepartSpillGate with FIXED=TRUE must be deadlock free (specification-level)")
    if not g_pinned.deadlock:
        raise ToolError("RepartSpillGate with FIXED=FALSE no longer exhibits the modelled deadlock (specification-level)")
    states += g_pinned.distinct + g_fixed.distinct
    transitions += g_pinned.generated + g_fixed.generated
    # ---- 4. B2: TLC validates the recorded executions ----------------------------------------------
    traces = read_ndjson(ctx.path("traces.ndjson"))
    recorded = len(traces)
    cap = 120 if quick else 1500
    if len(traces) > cap:
        traces = ctx.rng.sample(traces, cap)
    chunks = [traces[i::2] for i in range(2)] if len(traces) >= 30 else [traces]

    def validate(i_ch):
        i, ch = i_ch
        tp = ctx.path(f"trace{i}.ndjson")
        write_ndjson(tp, ch)
        cfg = ctx.path(f"trace{i}.cfg")
        open(cfg, "w").write("SPECIFICATION TraceSpec\nINVARIANTS DeliveredWerePulled\nALIAS Alias\nCHECK_DEADLOCK TRUE\n")
        return ch, tlc_trace_validate(ctx, "proto/RepartitionTrace", cfg, tp, tag=f"trace{i}", timeout=3000)

    validated = tstates = 0
    for ch, r in pool.map(validate, enumerate(chunks)):
        tstates += r.distinct
        if r.deadlock or r.invariant_violated:
            # the harness oracle accepted these runs but the specification rejects one: the two deciders of
            # the same property disagree -> machinery problem to investigate, never an alarm by itself
            sys.stderr.write(r.out[-3000:])
            if not ctx.violations:
                raise ToolError("RepartitionTrace rejects a recorded run that the harness oracle accepted (oracles disagree)")
        elif not r.ok:
            sys.stderr.write(r.out[-3000:])
            raise ToolError("trace validation run failed")
        else:
            validated += len(ch)
    pool.shutdown()
    write_evidence(ctx, "model_checking", {
        "states": states + case_states, "transitions": transitions + case_states,
        "traces_validated_against_impl": validated,
        "samples": res["samples"][:3],
        "protocol_model_runs": mcs, "protocol_actions_taken": taken,
        "partitioner_cases_enumerated_by_tlc": len(cases), "partitioner_cases_replayed": res["part_cases"], "partitioner_cases_distinct": res["part_distinct"],
        "exec_runs": res["exec_runs"], "exec_distinct_configurations": res["distinct_configurations"], "exec_schemes": res["schemes"],
        "exec_spilled_runs": res["exec_spilled_runs"], "exec_preserve_order_runs": res["exec_preserve_order_runs"],
        "exec_early_drop_runs": res["exec_early_drop_runs"], "exec_input_error_runs": res["exec_input_error_runs"],
        "exec_resource_exhausted_runs": res["exec_resource_exhausted_runs"], "exec_skipped": res["exec_skipped"], "exec_skip_notes": [n["why"] for n in res.get("skip_notes", [])],
        "forced_spill_gate_scenarios": res["forced_runs"], "forced_confirmed_hangs": res["forced_confirmed_hangs"],
        "rows_delivered": res["rows_delivered"],
        "path_families_executed": res["paths"], "partitioner_case_kinds": res["part_kinds"],
        "drop_x_error_scenarios_enumerated_by_tlc": len(de_all), "drop_x_error_scenarios_run": len(de_cases) * de_reps,
        "traces_recorded": recorded, "trace_states": tstates,
        "key_domain_hash_limbs": limbs,
        "spill_gate_model": {"pinned_code_deadlocks_in_model": True, "pinned_states": g_pinned.distinct, "repaired_model_states": g_fixed.distinct, "repaired_model_ok": True},
        "rule": "a case is (a) a TLC-enumerated partitioner case with the specification's partition per row, or (b) one execution of RepartitionExec on a seeded scripted input/configuration; distinct = distinct configuration tuples",
    }, assumptions=[
        "hash placement: the 64-bit hash of a row is measured with the public create_hashes and REPARTITION_RANDOM_STATE (trusted); the specification decides hash % n, the range rule and the round-robin rule",
        "schedules of the real operator are varied by seeded yields/sleeps in the scripted input streams and output consumers and by 1-4 runtime threads, not enumerated (the channel and spill layers underneath are exhausted by C15/C16)",
        "a ResourcesExhausted failure of an output (e.g. the order-preserving merge under a 1-byte budget) is accepted; a clean end of stream must be complete",
        "a hang verdict needs 40 s (10 s in the forced spill-pool scenarios) without any batch moving and a second hang of the same configuration when re-run",
        "forced scenarios: a cfg hook rendezvous at sp_w_p3 makes two writers of the shared spill pool hold distinct files once (an interleaving that needs true parallelism inside push_batch)",
    ])
