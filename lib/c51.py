"""C51 — the command-line client splits scripts and formats results faithfully.

1. spec/text/CliSplit.tla: the documented quote automaton (split at ';' outside '...' and "...",
   doubled quotes stay inside).  TLC enumerates every line over {a ; ' " blank newline} up to a
   length bound (+ random longer ones), checks the laws (Rejoin, equality with the two-boolean
   implementation-grain automaton) and prints each line with its expected statement list; every
   line is replayed into the real `split_from_semicolon` (B3) under two character mappings.
2. spec/text/CliScript.tla: well-formed multi-statement lines with semicolons / doubled quotes
   inside literals and quoted identifiers; piped through the client's real interactive loop
   (`exec_from_repl` -> splitter -> exec_and_print -> PrintOptions -> stdout); each statement must
   print the value the specification computed.
3. spec/text/Delimited*.tla: TLC generates result grids (NULL, empty, separators, quotes, newlines,
   unicode, integers); the real `PrintFormat::{Csv,Tsv,Json,NdJson,Automatic}` prints them; the
   produced text is handed to TLC as a character sequence and DelimitedTrace requires
   Decode(format, text) = grid (B2).  A rejection is confirmed with an independent reader
   (python csv/json) before it is raised.
"""
import csv, io, json, os
from common import *

MAPS = [
    ("ascii", {"a": "a", "s": ";", "q": "'", "d": '"', "_": " ", "n": "\n", "x": "select ", "y": "1 as "}),
    ("wide", {"a": "é", "s": ";", "q": "'", "d": '"', "_": "\t", "n": "\n", "x": "select ", "y": "1 as "}),
]


def sym2txt(s, m):
    return "".join(m[c] for c in s)


# ------------------------------------------------------------------ 1. splitter (B3)

def norm_stmt(s):
    s = s.strip()
    if s.endswith(";"):
        s = s[:-1]
    return s.strip()


def check_split(ctx, cases, mapname=None):
    """cases: [{s, expect}] in symbols.  Returns (evaluations, violations[list of replay objs], samples)."""
    viol, samples, evals = [], [], 0
    for name, m in MAPS:
        if mapname and name != mapname:
            continue
        inp = ctx.path(f"split-{name}.in.ndjson")
        outp = ctx.path(f"split-{name}.out.ndjson")
        write_ndjson(inp, [{"s": sym2txt(c["s"], m)} for c in cases])
        summary, _ = run_harness(ctx, "vaux", ["c51-split", "--in", inp, "--out", outp])
        outs = read_ndjson(outp)
        if len(outs) != len(cases):
            raise ToolError("c51-split: result count mismatch")
        for c, o in zip(cases, outs):
            evals += 1
            exp = [sym2txt(e, m) for e in c["expect"]]
            if "panic" in o:
                got, ok = "panic", False
            else:
                got = o["out"]
                ok = [norm_stmt(g) for g in got] == exp
            if not ok and len(viol) < 20:
                viol.append({"kind": "split", "map": name, "case": c, "input": sym2txt(c["s"], m), "expected": exp,
                             "observed": got,
                             "oracle": "CliSplit!Statements(line): statements = non-blank pieces between semicolons outside '...' and \"...\""})
            if ok and len(samples) < 2 and len(exp) >= 2 and ("'" in sym2txt(c["s"], m)):
                samples.append({"input": sym2txt(c["s"], m), "expected": exp, "observed": got})
    return evals, viol, samples


def gen_split(ctx):
    if ctx.quick:
        consts = dict(MaxLen=5, SampleLen=8, SampleN=800)
    else:
        consts = dict(MaxLen=7, SampleLen=10, SampleN=20000)
    cfg = ctx.path("clisplit.cfg")
    open(cfg, "w").write("CONSTANTS " + " ".join(f"{k} = {v}" for k, v in consts.items()) +
                         "\nSPECIFICATION Spec\nINVARIANTS Laws Emit\nCHECK_DEADLOCK FALSE\n")
    r = tlc_must_pass(ctx, "text/CliSplit", cfg=cfg, workers=4 if ctx.quick else 8, deadlock=False,
                      mode_args=["-seed", str(ctx.seed)], timeout=3000, tag="clisplit")
    cases = tlc_cases(r.out)
    if len(cases) != r.distinct:
        raise ToolError(f"CliSplit: {r.distinct} states but {len(cases)} cases printed")
    return r, consts, cases


# ------------------------------------------------------------------ 2. interactive loop

def gen_scripts(ctx):
    consts = dict(MaxLen=0, SampleLen=0, SampleN=0, MaxStmts=3, MaxBody=3 if ctx.quick else 4,
                  ScriptN=120 if ctx.quick else 1500)
    cfg = ctx.path("cliscript.cfg")
    open(cfg, "w").write("CONSTANTS " + " ".join(f"{k} = {v}" for k, v in consts.items()) +
                         "\nSPECIFICATION SpecS\nINVARIANTS SplitsIntoStatements EmitS\nCHECK_DEADLOCK FALSE\n")
    r = tlc_must_pass(ctx, "text/CliScript", cfg=cfg, workers=4, deadlock=False,
                      mode_args=["-seed", str(ctx.seed)], timeout=1200, tag="cliscript")
    return r, consts, tlc_cases(r.out)


def check_scripts(ctx, cases, mapname=None):
    viol, samples, evals = [], [], 0
    for name, m in MAPS:
        if mapname and name != mapname:
            continue
        lines = []
        for i, c in enumerate(cases):
            lines.append(f"select 'M{i}' as m;")
            lines.append(sym2txt(c["line"], m))
        lines.append(f"select 'M{len(cases)}' as m;")
        summary, p = run_harness(ctx, "vaux", ["c51-repl", "--format", "ndjson"], stdin="\n".join(lines) + "\n",
                                 timeout=1200, check=False)
        if p.returncode not in (0,):
            sys.stderr.write(p.stderr[-3000:])
            raise ToolError(f"c51-repl exited {p.returncode}")
        # group output lines by marker
        groups, cur = {}, None
        for ln in p.stdout.split("\n"):
            if not ln.strip() or ln.strip() == "\\q":
                continue
            try:
                obj = json.loads(ln)
            except Exception:
                obj = {"_unparsed": ln}
            if isinstance(obj, dict) and list(obj.keys()) == ["m"] and str(obj["m"]).startswith("M"):
                cur = int(obj["m"][1:])
                groups[cur] = []
            elif cur is not None:
                groups[cur].append(obj)
            else:
                groups.setdefault(-1, []).append(obj)
        for i, c in enumerate(cases):
            evals += 1
            exp = []
            for e in c["expect"]:
                v = sym2txt(e["val"], m)
                exp.append(("value", v) if e["kind"] == "S" else ("key", v))
            got = []
            for o in groups.get(i, [{"_missing_marker": i}]):
                if isinstance(o, dict) and len(o) == 1:
                    (k, v), = o.items()
                    got.append(("key", k) if v == 1 and not isinstance(v, bool) else ("value", v))
                else:
                    got.append(("?", o))
            if got != exp and len(viol) < 20:
                viol.append({"kind": "script", "map": name, "case": c, "input": sym2txt(c["line"], m),
                             "expected": exp, "observed": got, "stderr_tail": p.stderr[-600:],
                             "oracle": "CliScript: each statement of the line is executed once, in order, and prints the unescaped body"})
            elif got == exp and len(samples) < 2 and c.get("inner") and len(exp) > 1:
                samples.append({"input": sym2txt(c["line"], m), "expected": exp, "observed": got})
    return evals, viol, samples



# ------------------------------------------------------------------ 4. row limits, file mode, backslash commands

def gen_maxrows(ctx):
    if ctx.quick:
        consts = 'Formats = {"csv", "ndjson", "table"}  Limits = {1, 2, 99}  MaxN = 4  BatchSizes = {1, 3}'
    else:
        consts = 'Formats = {"csv", "tsv", "json", "ndjson", "table", "automatic"}  Limits = {0, 1, 2, 3, 99}  MaxN = 5  BatchSizes = {1, 2, 8}'
    cfg = ctx.path("maxrows.cfg")
    open(cfg, "w").write("CONSTANTS " + consts + "\nSPECIFICATION Spec\nINVARIANTS NoSilentLoss Emit\nCHECK_DEADLOCK FALSE\n")
    r = tlc_must_pass(ctx, "text/CliMaxRows", cfg=cfg, workers=2, deadlock=False, tag="maxrows")
    return r, tlc_cases(r.out)


def parse_blocks(fmt, out):
    """Split the client's stdout into per-statement (data rows, footer) blocks; every statement ends with a footer."""
    blocks, cur = [], []
    for ln in out.split("\n"):
        if re.match(r"^\d+ row\(s\) fetched\.", ln):
            blocks.append((cur, ln))
            cur = []
        elif ln.startswith("Elapsed ") or ln.strip() in ("", "\\q"):
            continue
        else:
            cur.append(ln)
    return blocks


def rows_of(fmt, lines):
    if fmt in ("csv", "tsv", "automatic"):
        return [l for l in lines[1:]] if lines else []
    if fmt == "ndjson":
        return lines
    if fmt == "json":
        return json.loads("".join(lines)) if lines else []
    return [l for l in lines if l.startswith("|") and not re.match(r"^\| \.\s*\|$", l)][1:]     # table: drop header and dotted lines


def check_maxrows(ctx, cases, only=None):
    viol, evals, samples = [], 0, []
    groups = {}
    for c in cases:
        groups.setdefault((c["fmt"], c["maxrows"]), []).append(c)
    for (fmt, m), cs in sorted(groups.items()):
        lines = []
        for c in cs:
            lines.append(f"SET datafusion.execution.batch_size = {c['batch']};")
            vals = ", ".join(f"({i})" for i in range(1, c["n"] + 1))
            lines.append(f"SELECT x FROM (VALUES {vals}) AS t(x);" if c["n"] else "SELECT x FROM (VALUES (1)) AS t(x) WHERE x > 1;")
        _, p = run_harness(ctx, "vaux", ["c51-repl", "--format", fmt, "--maxrows", "inf" if m == 99 else m, "--quiet", "false"],
                           stdin="\n".join(lines) + "\n", timeout=600, check=False)
        if p.returncode != 0:
            raise ToolError(f"c51-repl exited {p.returncode}: {p.stderr[-500:]}")
        blocks = parse_blocks(fmt, p.stdout)
        if len(blocks) != 2 * len(cs):
            raise ToolError(f"c51-repl maxrows: expected {2*len(cs)} statement footers, saw {len(blocks)}")
        for c, (data, footer) in zip(cs, blocks[1::2]):
            evals += 1
            shown = len(rows_of(fmt, data))
            fetched = int(footer.split()[0])
            notice = "displayed. Use --maxrows to adjust" in footer
            ok = fetched == c["n"] and shown == c["shown"] and notice == c["notice"]
            if not ok:
                key = None
                if fmt != "table" and m != 99 and shown < c["n"] and not notice and fetched == c["n"]:
                    key = "non-table format with --maxrows: result batches beyond the limit are neither printed nor announced"
                viol.append(({"kind": "maxrows", "case": c, "observed": {"rows_shown": shown, "footer": footer, "notice": notice, "stdout": "\n".join(data)[:400]},
                              "oracle": "CliMaxRows: rows shown / notice (only the Table format may truncate, and must say so)"}, key))
            elif len(samples) < 1 and c["notice"]:
                samples.append({"case": c, "footer": footer})
    return evals, viol, samples


def check_files(ctx, scripts):
    """exec_from_lines (`-f FILE`): comment lines, shebang, statements spread over lines; same expectations as the REPL."""
    name, m = MAPS[0]
    viol, evals = [], 0
    lines = ["#!/usr/bin/env datafusion-cli", "-- a comment; with a semicolon; select 'no';"]
    for i, c in enumerate(scripts):
        lines.append(f"select 'M{i}' as m;")
        text = sym2txt(c["line"], m)
        # break the line after some top-level separators (the statements are known): a line must end with ';' to be executed
        lines.append("-- comment between statements; select 'no' as no;")
        lines.append(text)
    lines.append(f"select 'M{len(scripts)}' as m;")
    path = ctx.path("script.sql")
    open(path, "w").write("\n".join(lines) + "\n")
    _, p = run_harness(ctx, "vaux", ["c51-file", "--format", "ndjson", "--file", path], timeout=600, check=False)
    if p.returncode != 0:
        raise ToolError(f"c51-file exited {p.returncode}: {p.stderr[-500:]}")
    groups, cur = {}, None
    for ln in p.stdout.split("\n"):
        if not ln.strip():
            continue
        try:
            obj = json.loads(ln)
        except Exception:
            obj = {"_unparsed": ln}
        if isinstance(obj, dict) and list(obj.keys()) == ["m"] and str(obj["m"]).startswith("M"):
            cur = int(obj["m"][1:])
            groups[cur] = []
        elif cur is not None:
            groups[cur].append(obj)
    for i, c in enumerate(scripts):
        evals += 1
        exp = [("value", sym2txt(e["val"], m)) if e["kind"] == "S" else ("key", sym2txt(e["val"], m)) for e in c["expect"]]
        got = []
        for o in groups.get(i, [{"_missing_marker": i}]):
            if isinstance(o, dict) and len(o) == 1:
                (k, v), = o.items()
                got.append(("key", k) if v == 1 and not isinstance(v, bool) else ("value", v))
            else:
                got.append(("?", o))
        if got != exp and len(viol) < 10:
            viol.append({"kind": "file", "case": c, "input": sym2txt(c["line"], m), "expected": exp, "observed": got, "stderr_tail": p.stderr[-400:],
                         "oracle": "file mode: comment lines are skipped, every statement of a line is executed once, in order"})
    return evals, viol


def check_commands(ctx):
    """Backslash commands are not split at ';' and take effect on the following statements."""
    script = "select 'a;b' as v;\n\\pset format csv\nselect 'c;d' as v;\n\\pset format tsv\nselect 1 as \"x;y\";\n\\pset\n"
    _, p = run_harness(ctx, "vaux", ["c51-repl", "--format", "ndjson"], stdin=script, timeout=300, check=False)
    out = [l for l in p.stdout.split("\n") if l.strip() and l.strip() != "\\q"]
    exp = ['{"v":"a;b"}', "Output format is Csv.", "v", "c;d", "Output format is Tsv.", "x;y", "1", "Output format is Tsv."]
    if out != exp:
        return 1, [{"kind": "commands", "input": script, "expected": exp, "observed": out, "oracle": "\\pset switches the output format of the following statements; command lines are not split"}]
    return 1, []


# ------------------------------------------------------------------ 3. output formats (B2)

FORMATS = ["csv", "tsv", "json", "ndjson", "automatic"]


def sym_char(t):
    return chr(int(t[2:], 16)) if t.startswith("U+") else t


def chars_of(text):
    return [ch if ord(ch) < 128 else "U+%04X" % ord(ch) for ch in text]


def cell_value(cell):
    if cell["k"] == "n":
        return None
    s = "".join(sym_char(t) for t in cell["c"])
    return int(s) if cell["k"] == "i" else s


def print_cases(ctx, grids):
    """Expand each grid into print runs (format x header x batch split x string type)."""
    runs = []
    for g in grids:
        nr = len(g["rows"])
        for f in FORMATS:
            runs.append(dict(g, fmt=f, header=True, split=[nr], strtype="utf8"))
            if nr >= 2:
                k = ctx.rng.randrange(0, nr + 1)
                split = ctx.rng.choice([[k, nr - k], [k, 0, nr - k], [1] * nr])
            else:
                split = ctx.rng.choice([[nr], [0, nr], [nr, 0]])
            runs.append(dict(g, fmt=f, header=ctx.rng.random() < 0.4, split=split,
                             strtype=ctx.rng.choice(["utf8", "large", "view"])))
    return runs


def independent_accept(run, text):
    """Second opinion (python csv / json readers) used only to confirm a rejection by the specification."""
    names = ["".join(sym_char(t) for t in n) for n in run["names"]]
    rows = [[cell_value(c) for c in r] for r in run["rows"]]
    f = run["fmt"]
    try:
        if f in ("csv", "tsv", "automatic"):
            recs = [r for r in csv.reader(io.StringIO(text, newline=""), delimiter="\t" if f == "tsv" else ",",
                                          lineterminator="\n") if r != []]
            exp = [["" if v is None else str(v) for v in r] for r in rows]
            if not rows:
                return recs == [] or (run["header"] and recs == [names])
            if run["header"]:
                return recs[:1] == [names] and recs[1:] == exp
            return recs == exp
        if not rows and text == "":
            return True
        objs = json.loads(text) if f == "json" else [json.loads(l) for l in text.split("\n") if l.strip()]
        if len(objs) != len(rows):
            return False
        for o, r in zip(objs, rows):
            if not isinstance(o, dict) or any(k not in names for k in o):
                return False
            for n, v in zip(names, r):
                w = o.get(n)
                if type(w) is not type(v) or w != v:
                    return False
        return True
    except Exception:
        return False


def check_print(ctx, runs, tag="print"):
    inp, outp = ctx.path(f"{tag}.in.ndjson"), ctx.path(f"{tag}.out.ndjson")
    hin = []
    for r in runs:
        hin.append({"fmt": r["fmt"], "header": r["header"], "split": r["split"], "strtype": r["strtype"],
                    "names": ["".join(sym_char(t) for t in n) for n in r["names"]], "kinds": r["kinds"],
                    "rows": [[cell_value(c) for c in row] for row in r["rows"]]})
    write_ndjson(inp, hin)
    summary, _ = run_harness(ctx, "vaux", ["c51-print", "--in", inp, "--out", outp], timeout=1200)
    outs = read_ndjson(outp)
    if len(outs) != len(runs):
        raise ToolError("c51-print: result count mismatch")
    viol, trace, idx = [], [], []
    for n, (r, o) in enumerate(zip(runs, outs)):
        if "err" in o:
            # the printer failed on a plain Utf8/Int64 grid: the row is not encoded at all
            viol.append({"kind": "print", "run": r, "observed": o, "oracle": "PrintFormat::print_batches returned an error / panicked"})
            continue
        trace.append({"fmt": r["fmt"], "header": r["header"], "names": r["names"], "rows": r["rows"], "text": chars_of(o["text"])})
        idx.append(n)
    tp = ctx.path(f"{tag}.trace.ndjson")
    write_ndjson(tp, trace)
    res = tlc_trace_validate(ctx, "text/DelimitedTrace", "text/DelimitedTrace.cfg", tp, timeout=3000, tag=tag + "-trace")
    if not res.ok or res.distinct != len(trace):
        sys.stderr.write(res.out[-4000:])
        raise ToolError("DelimitedTrace run failed")
    rejects = [int(x) for x in re.findall(r'^<<"REJECT", (\d+)>>', res.out, re.M)]
    unconfirmed = 0
    for i in sorted(set(rejects)):
        r, o = runs[idx[i - 1]], outs[idx[i - 1]]
        if independent_accept(r, o["text"]):
            unconfirmed += 1
            log("specification rejected but independent reader accepts:", json.dumps(o["text"]), r["fmt"])
            continue
        if len(viol) < 20:
            viol.append({"kind": "print", "run": r, "observed": o,
                         "oracle": f"Delimited!Accept: Decode({r['fmt']}, text) # grid (rejected by TLC, confirmed by an independent reader)"})
    if unconfirmed:
        raise ToolError(f"{unconfirmed} outputs rejected by Delimited.tla but accepted by the independent reader: the decoder specification is incomplete")
    samples = []
    for r, o in zip(runs, outs):
        if "text" in o and r["fmt"] in ("csv", "json") and len(r["rows"]) == 2 and any(c["k"] == "n" for row in r["rows"] for c in row) \
                and any('"' in c["c"] or "\n" in c["c"] for row in r["rows"] for c in row):
            samples.append({"fmt": r["fmt"], "rows": [[cell_value(c) for c in row] for row in r["rows"]], "text": o["text"], "accepted_by_TLC": True})
            if len(samples) >= 2:
                break
    return len(trace), viol, samples, res


def gen_grids(ctx):
    consts = dict(MaxRows=3, ExhCells=1, SampleN=10) if ctx.quick else dict(MaxRows=3, ExhCells=2, SampleN=150)
    cfg = ctx.path("delimgen.cfg")
    open(cfg, "w").write("CONSTANTS " + " ".join(f"{k} = {v}" for k, v in consts.items()) +
                         "\nSPECIFICATION Spec\nINVARIANTS RoundTrip Sensitive Emit\nCHECK_DEADLOCK FALSE\n")
    r = tlc_must_pass(ctx, "text/DelimitedGen", cfg=cfg, workers=4 if ctx.quick else 8, deadlock=False,
                      mode_args=["-seed", str(ctx.seed)], timeout=3000, tag="delimgen")
    return r, consts, tlc_cases(r.out)


def nontrivial_grid(g):
    special = set([",", "\t", '"', "\n", "\\"])
    return any(c["k"] == "n" or c["c"] == [] or (set(c["c"]) & special) or any(t.startswith("U+") for t in c["c"])
               for row in g["rows"] for c in row)


def run(ctx):
    build("vaux")
    if ctx.replay:
        rp = json.load(open(ctx.replay))
        if rp["kind"] == "maxrows":
            n, vk, samples = check_maxrows(ctx, [rp["case"]])
            viol = []
            for v, key in vk:
                report_violation(ctx, v, key=key)
        elif rp["kind"] == "split":
            n, viol, samples = check_split(ctx, [rp["case"]], rp["map"])
        elif rp["kind"] == "script":
            n, viol, samples = check_scripts(ctx, [rp["case"]], rp["map"])
        else:
            n, viol, samples, _ = check_print(ctx, [rp["run"]], tag="replay")
        for v in viol:
            report_violation(ctx, v)
        write_evidence(ctx, "model_checking", {"states": 1, "transitions": 1, "traces_validated_against_impl": n,
                                               "samples": samples or [rp]})
        return
    # 1. splitter
    r1, k1, cases = gen_split(ctx)
    n1, v1, s1 = check_split(ctx, cases)
    # 2. interactive loop
    r2, k2, scripts = gen_scripts(ctx)
    if not any(c["inner"] for c in scripts):
        raise ToolError("vacuity: no script with a semicolon inside a literal")
    n2, v2, s2 = check_scripts(ctx, scripts)
    # 3. formats
    r3, k3, grids = gen_grids(ctx)
    runs = print_cases(ctx, grids)
    n3, v3, s3, r4 = check_print(ctx, runs)
    r5, mcases = gen_maxrows(ctx)
    n5, v5, s5 = check_maxrows(ctx, mcases)
    if not any(c["notice"] for c in mcases) or not any(c["fmt"] != "table" and c["maxrows"] < c["n"] for c in mcases):
        raise ToolError("vacuity: row-limit cases without truncation / without a non-table format under a limit")
    n6, v6 = check_files(ctx, scripts[: (60 if ctx.quick else 400)])
    n7, v7 = check_commands(ctx)
    for v in v1 + v2 + v3 + v6 + v7:
        report_violation(ctx, v)
    for v, key in v5:
        report_violation(ctx, v, key=key)
    multi = sum(1 for c in cases if len(c["expect"]) >= 2)
    quoted = sum(1 for c in cases if ("q" in c["s"] or "d" in c["s"]) and "s" in c["s"])
    write_evidence(ctx, "model_checking", {
        "states": r1.distinct + r2.distinct + r3.distinct + r4.distinct,
        "transitions": r1.generated + r2.generated + r3.generated + r4.generated,
        "traces_validated_against_impl": n1 + n2 + n3,
        "samples": (s1[:1] + s2[:1] + s3[:2]),
        "exhaustive": True,
        "splitter": {"constants": k1, "lines": len(cases), "replayed": n1, "lines_with_two_or_more_statements": multi,
                     "lines_with_quote_and_semicolon": quoted, "violations": len(v1),
                     "laws_checked_by_TLC": ["Rejoin", "SameAsImpl (toggle automaton = documented lexer rule)", "NoQuoteAllSplit"]},
        "interactive_loop": {"constants": k2, "script_lines": len(scripts), "replayed": n2,
                             "with_semicolon_inside_literal": sum(1 for c in scripts if c["inner"]), "violations": len(v2)},
        "formats": {"constants": k3, "grids": len(grids), "nontrivial_grids": sum(1 for g in grids if nontrivial_grid(g)),
                    "print_runs_validated_by_TLC": n3, "formats": FORMATS, "trace_states": r4.distinct, "violations": len(v3),
                    "spec_level": "RoundTrip (decoders read back 2 reference CSV writers x header, JSON/NDJSON writers with/without explicit nulls) and Sensitive (unquoted separators/quotes/newlines, NULL printed as \"\" in JSON are rejected) hold on every generated grid"},
        "row_limits": {"cases": n5, "violations_or_known": len(v5), "states": r5.distinct, "formats_x_limits": sorted({(c["fmt"], c["maxrows"]) for c in mcases})[:40]},
        "file_mode": {"script_lines": n6, "violations": len(v6)}, "backslash_commands": {"runs": n7, "violations": len(v7)},
        "evaluations": n1 + n2 + n3 + n5 + n6 + n7,
        "distinct_nontrivial": quoted + sum(1 for c in scripts if c["inner"]) + sum(1 for g in grids if nontrivial_grid(g)),
        "rule": "splitter: every line over {a ; ' \" blank newline} up to MaxLen plus SampleN random lines per longer length, x2 character mappings; non-trivial = contains a quote and a semicolon. formats: every grid with rows*cols <= ExhCells over the cell pools, SampleN random grids per bigger shape; each printed in 5 formats x (header, batch split, string type) variants; non-trivial = has NULL/empty/separator/quote/newline/unicode cell",
    }, assumptions=[
        "split statements are compared modulo surrounding white space and the one ';' the client appends; blank pieces are not statements",
        "CSV/TSV cannot express NULL: NULL and '' both decode to the empty field (stated in Delimited.tla); JSON/NDJSON: no conflation (absent key or null = NULL)",
        "an empty output is the empty result; blank CSV lines are not records",
        "the byte-level CSV/JSON writers live in the arrow crates (outside /repo); what is bound here is the client's choice of writer, delimiter, header, NULL and batch handling",
        "binding demonstrated while building: corrupting an expected statement / a grid cell in the trace makes the oracle / TLC reject (see final report)",
    ])
