"""C08 — sorting, merging and TopK return correctly ordered results.

1. TLC generates sort cases from spec/ops/SortGen.tla (seeded): 0..8 rows (and 20..40-row inputs for
   spills / multi-level merges) x 1..3 keys of kind int / float token (-inf .. -0 < +0 .. +inf < NaN) /
   string, NULLs, heavy ties; asc/desc x nulls first/last per key; fetch in {none,0,1,2,3,>n}; and
   computes with spec/lib/Sort.tla the canonical sorted permutation, a prefix-sorted permutation, a
   partition assignment and the expected rows of per-partition TopK.  TLC checks the property text
   (Sorted /\ SameBag, TopK key sequence /\ sub-bag) on its own witness for every case (invariant Sane).
2. B3: harness/vops c08 runs each case on the real sort paths: SortExec (in-memory concat+sort,
   per-batch sort + streaming merge, spilling under tight FairSpillPool/GreedyMemoryPool budgets with
   small sort_spill_reservation_bytes -> multi-level merges), SortExec with fetch (TopK heap), TopK with a
   sorted prefix (early termination), SortExec per partition + SortPreservingMergeExec, SortPreservingMergeExec
   over 1-4 sorted partitions (with fetch), PartialSortExec, SortExec over sorted input (limit path),
   PartitionedTopKExec (ROW_NUMBER / RANK / DENSE_RANK); input batch sizes {1,2,3,8192}, session batch sizes
   {1,2,3,8192}; key columns as Int32/Int64, Float64/Float32, Utf8/Utf8View/Dictionary.
   Spill lanes built so that every path of the multi-level merge runs by construction:
   * spill_merge: sorted runs (sub-sequences of the specification's sorted permutation) are written as spill
     files through SpillManager with 1/3/5/7/33/1025/all rows per batch (odd and even, single- and multi-batch
     runs, up to 2051 rows) and merged by StreamingMergeBuilder (MultiLevelMergeBuilder) under budgets swept
     from 1.5x to 6x the measured memory of the largest spilled batch in steps of 0.25 on GreedyMemoryPool
     and FairSpillPool (refusal < 2x, re-spill with halved batches 2x..4x, direct >= 4x); 3-5 runs with
     max_spill_merge_fan_in 0/2/3, optionally one run as an in-memory stream, with fetch.  The path that ran is
     measured from the number of spill files written during the merge.
   * sort_sweep: SortExec under budgets of 15%..75% of what the sorter reserves for its whole input, odd input
     batch sizes, batch_size 8192 (each spilled run is one big batch) and 2/3, fan-in limits.
   A tier in which the halving path (with odd-sized batches), the reduced-fan-in path or the direct path never
   ran is a ToolError.
3. Oracle: key sequence of the output = key sequence of the first k rows of the specification's sorted
   permutation; output is a sub-bag of the input (row ids); payload column still attached to its row.
   ResourcesExhausted under a tight budget is accepted.
"""
import json, os
from common import *

QUICK = dict(NSMALL=300, NBIG=30, NEDGE=24, NMED=10, NREV=30, NTIE=30, NLARGE=3)
THOROUGH = dict(NSMALL=3000, NBIG=300, NEDGE=150, NMED=60, NREV=300, NTIE=300, NLARGE=16)
OPS = ["spill_merge", "sort_sweep", "sort", "sort_pp_spm", "spm", "partial", "topk_prefix", "sorted_input", "sort_coalesced_batches",
       "ptk_rownumber", "ptk_rank", "ptk_denserank"]


def cfg_text(c):
    return ("CONSTANTS " + "  ".join(f"{k} = {v}" for k, v in c.items()) +
            "\nSPECIFICATION Spec\nINVARIANTS Emit Sane\nCHECK_DEADLOCK FALSE\n")


def run_driver(ctx, sub, args, timeout=3000):
    """Run the vops driver; a progress-watchdog trip (exit 3: one evaluation of a tiny input made no
    progress for 150 s) is confirmed by re-running exactly that evaluation once; only a confirmed hang is
    reported (the property demands a result), an unconfirmed one is a machinery error."""
    out = args[args.index("--out") + 1]
    summary, p = run_harness(ctx, "vops", [sub] + args, timeout=timeout, check=False)
    if p.returncode == 0:
        return
    hung = out + ".hung"
    if p.returncode == 3 and os.path.exists(hung):
        rec = json.load(open(hung))
        write_ndjson(ctx.path("hung.ndjson"), [rec])
        _, p2 = run_harness(ctx, "vops", [sub, "--in", ctx.path("hung.ndjson"), "--out", ctx.path("hung.res.json"),
                                          "--replay", "--threads", 1], timeout=600, check=False)
        if p2.returncode == 3:
            report_violation(ctx, {"case": rec["case"], "variant": rec["variant"],
                                   "message": "operator did not terminate: no progress for 150 s on a tiny input, twice (normal: milliseconds)",
                                   "observed": None, "key": "hang"}, key="hang")
            write_evidence(ctx, "exploration", {"evaluations": 1, "distinct_nontrivial": 2, "rule": "aborted by a confirmed hang",
                                                "samples": [rec["case"]]})
            raise SystemExit(1)
        raise ToolError("driver watchdog tripped but the hang did not reproduce")
    sys.stderr.write(p.stderr[-4000:])
    raise ToolError(f"harness vops {sub} exited {p.returncode}")


def report(ctx, res):
    for v in res["violations"]:
        report_violation(ctx, {"case": v["case"], "variant": v["variant"], "variant_name": v["variant_name"],
                               "message": v["message"], "observed": v["observed"], "key": v["key"],
                               "replay_cmd": "bin/check C08 --replay <this file>"}, key=v["key"])


def run(ctx):
    build("vops")
    if ctx.replay:
        rp = json.load(open(ctx.replay))
        write_ndjson(ctx.path("replay.ndjson"), [{"case": rp["case"], "variant": rp["variant"]}])
        run_driver(ctx, "c08", ["--in", ctx.path("replay.ndjson"), "--out", ctx.path("res.json"), "--replay",
                                  "--threads", 1])
        res = json.load(open(ctx.path("res.json")))
        report(ctx, res)
        write_evidence(ctx, "exploration", {"evaluations": max(1, res["evaluations"]), "distinct_nontrivial": 2,
                                            "rule": "replay of one recorded case", "samples": [rp["case"]]})
        return
    consts = QUICK if ctx.quick else THOROUGH
    cfg = ctx.path("sortgen.cfg")
    open(cfg, "w").write(cfg_text(consts))
    r = tlc(ctx, "ops/SortGen", cfg=cfg, workers=4 if ctx.quick else 8, mode_args=["-seed", str(ctx.seed)],
            timeout=1500, deadlock=False, tag="sortgen")
    if not r.ok or r.invariant_violated:
        sys.stderr.write(r.out[-3000:])
        raise ToolError("TLC failed on ops/SortGen (specification-level)")
    cases = tlc_cases(r.out)
    if len(cases) < 0.7 * sum(consts.values()):
        raise ToolError(f"SortGen produced only {len(cases)} cases")
    # vacuity of the generator
    kinds = {t for c in cases for t in c["types"]}
    opts = {(k["desc"], k["nf"]) for c in cases for k in c["keys"]}
    fetches = {("none" if c["fetch"] < 0 else "0" if c["fetch"] == 0 else "gt_n" if c["fetch"] > len(c["rows"]) else "k") for c in cases}
    nks = {len(c["keys"]) for c in cases}
    if kinds != {"i", "f", "s"} or len(opts) != 4 or fetches != {"none", "0", "gt_n", "k"} or nks != {1, 2, 3}:
        raise ToolError(f"vacuity: generator coverage kinds={kinds} opts={opts} fetches={fetches} nks={nks}")
    has_nan = any(v == {"k": "f", "v": 6} for c in cases for row in c["rows"] for v in row)
    has_zeros = any({"k": "f", "v": 2} in row or {"k": "f", "v": 3} in row for c in cases for row in c["rows"])
    ties = sum(1 for c in cases if len({json.dumps(row[:len(c["keys"])]) for row in c["rows"]}) < len(c["rows"]))
    if not (has_nan and has_zeros and ties > 10):
        raise ToolError("vacuity: no NaN / signed zero / tie cases generated")
    write_ndjson(ctx.path("cases.ndjson"), cases)
    picks = 3 if ctx.quick else 4
    run_driver(ctx, "c08", ["--in", ctx.path("cases.ndjson"), "--out", ctx.path("res.json"),
                                           "--threads", 8 if ctx.quick else 14, "--picks", picks])
    res = json.load(open(ctx.path("res.json")))
    st = res["stats"]
    ops = {k[3:]: v for k, v in st.items() if k.startswith("op:")}
    for op in OPS:
        if ops.get(op, 0) == 0:
            raise ToolError(f"vacuity: sort path {op} was never driven")
    spilled = {k[11:]: v for k, v in st.items() if k.startswith("spilled_op:")}
    if sum(spilled.values()) == 0:
        raise ToolError("vacuity: no evaluation spilled")
    # the multi-level merge must have taken every one of its paths (measured from spill-file counts):
    paths = {k[5:]: v for k, v in st.items() if k.startswith("path:")}
    for need in ("merge:direct", "merge:halving", "merge:halving_with_odd_batches", "merge:reduced_fan_in",
                 "merge:multi_pass_or_halving", "sweep:spill_rewritten", "sweep:spill_single_pass", "sweep:in_memory"):
        if paths.get(need, 0) == 0:
            raise ToolError(f"vacuity: merge path '{need}' never ran in this tier (paths: {paths})")
    secs = {c["sec"] for c in cases}
    if not {"S", "B", "E", "M", "W", "T", "L"} <= secs:
        raise ToolError(f"vacuity: generator sections missing: {secs}")
    report(ctx, res)
    write_evidence(ctx, "exploration", {
        "evaluations": res["evaluations"],
        "distinct_nontrivial": res["distinct_nontrivial"],
        "rule": "a case = <rows, key kinds, asc/desc x nulls first/last per key, fetch, partition assignment> generated by TLC "
                "(SortGen.tla) with the expected order from Sort.tla; an evaluation = one case on one real sort path in one "
                "physical configuration; distinct non-trivial = distinct (case, configuration) pairs with >= 2 input rows whose "
                "output matched",
        "samples": res["samples"][:2],
        "tlc_cases": len(cases), "tlc_distinct_states": r.distinct, "tlc_wall_s": round(r.wall, 1),
        "cases_with_ties": ties,
        "cases_by_section": {s: sum(1 for c in cases if c["sec"] == s) for s in ("S", "B", "E", "M", "W", "T", "L")},
        "merge_paths_taken": paths,
        "skipped": {k[8:]: v for k, v in st.items() if k.startswith("skipped:")},
        "evaluations_by_path": ops,
        "evaluations_with_fetch_matching": st.get("with_fetch", 0),
        "tight_memory_evaluations": st.get("tight_memory", 0),
        "resources_exhausted_accepted": st.get("resources_exhausted_accepted", 0),
        "spill_count_histogram_tight_memory": {k[7:]: v for k, v in st.items() if k.startswith("spills:")},
        "evaluations_that_spilled_by_path": spilled,
        "results_matching": st.get("ok", 0),
    }, assumptions=[
        "float order is IEEE totalOrder on the tokens -inf < -1.5 < -0.0 < +0.0 < 1.5 < +inf < NaN; the relative order of the two zeros is not judged (never both in one column of a case): the engine is not uniform there (full sorts order -0.0 before +0.0, the TopK threshold filter compares them equal: ORDER BY x DESC LIMIT 3 over [NaN,-0,-0,+0] returns NaN,-0,-0) and SQL equality says -0.0 = +0.0",
        "fetch = 0 is not offered to the TopK paths (TopK asserts k > 0; LIMIT 0 is planned as an empty relation) but is run on SortPreservingMergeExec, PartialSortExec and the sorted-input limit path",
        "merge inputs are the specification's sorted permutation split by the TLC-chosen assignment (no driver-side comparator)",
        "binding demonstrated during development: swapping two rows / dropping a row of `sorted` in the case file is reported as a key-sequence difference",
        "the dynamic-filter TopK over a filtering source and SQL-level ORDER BY are not driven here (the TopK operator updates its filter but the in-memory source ignores it)",
        "large cases (514..2051 rows, one int key) take their sorted order from a closed form in SortGen.tla (checked by TLC: sorted, bijection on row ids) instead of the insertion sort",
        "a streaming merge of a single run is not judged: StreamingMergeBuilder hands a lone spill file / stream through unchanged, ignoring fetch (its callers special-case one input)",
    ])
