"""exprcases — TLC-generated expression cases (spec/sem/ExprGen.tla over spec/lib/Expr.tla).

generate(ctx, plan, seed, tag) runs TLC once on a generated MC module (the plan is a sequence of records, which a
TLC configuration file cannot hold) and returns (header, cases, tlc_result):
  header : {"id":0, "tables":{"A":{"schema","vals","strides"},"B":...}, "pats", "errcode", "nullcode"}
  case   : {"id", "p" (plan entry), "fam", "tbl", "k" (result kind), "e" (AST), "exp" (reference value code per table row)}
plan entries: {"fam": "rand"|"inlist"|"case"|"guard"|"like", "tbl": "A"|"B", "n": cases, "d": depth}
"""
import json, os
from common import tlc, tlc_cases, ToolError

M = 46337
STR_POOL = {1: "a", 2: "ab", 3: "b"}
PAT_TOK = {1: "a", 2: "b", 3: "%", 4: "_", 5: "A", 6: "B", 7: "\\", 8: "|"}


def generate(ctx, plan, seed, tag="exprgen", workers=4, timeout=3000):
    mod = f"ExprGenMC_{tag}"
    path = ctx.path(mod + ".tla")
    ents = ", ".join(f'[fam |-> "{p["fam"]}", tbl |-> "{p["tbl"]}", n |-> {p["n"]}, d |-> {p.get("d", 0)}]' for p in plan)
    with open(path, "w") as f:
        f.write(f"---- MODULE {mod} ----\nEXTENDS ExprGen\nPlan == << {ents} >>\n====\n")
    cfg = ctx.path(mod + ".cfg")
    with open(cfg, "w") as f:
        f.write(f"CONSTANTS SEED = {seed % M}  PLAN <- Plan\nINIT Init\nNEXT Next\nINVARIANT Emit\nCHECK_DEADLOCK FALSE\n")
    r = tlc(ctx, path, cfg=cfg, workers=workers, tag=tag, xss="64m", deadlock=False, timeout=timeout)
    if not r.ok:
        import sys
        sys.stderr.write(r.out[-4000:])
        raise ToolError("ExprGen failed (specification-level)")
    cs = tlc_cases(r.out)
    header = [c for c in cs if c["id"] == 0]
    if len(header) != 1:
        raise ToolError("ExprGen printed no table header")
    cases = sorted([c for c in cs if c["id"] != 0], key=lambda c: (c["p"], c["id"]))
    want = sum(p["n"] for p in plan)
    if not cases or len(cases) > want:
        raise ToolError(f"ExprGen printed {len(cases)} cases (plan asks for at most {want})")
    return header[0], cases, r


def table_rows(header, tbl):
    t = header["tables"][tbl]
    n = t["strides"][-1]
    return [[t["vals"][c][(i // t["strides"][c]) % len(t["vals"][c])] for c in range(len(t["schema"]))] for i in range(n)]


def show_value(v):
    k = v["k"]
    return "NULL" if k == "n" else ("ERR" if k == "e" else (STR_POOL[v["v"]] if k == "s" else ("TRUE" if v["v"] else "FALSE") if k == "b" else str(v["v"])))


XPOOL = {1: "FOXO", 2: "a", 3: "a.b", 4: "ab", 5: "b", 6: "fo%o", 7: "fo_o", 8: "foxo"}
CCHAR = {1: "a", 2: "b", 11: "f", 12: "o", 13: "x", 21: "F", 22: "O", 23: "X", 31: "_", 32: "%", 33: "."}


def likex_text(toks):
    return "".join("%" if t == 101 else "_" if t == 102 else "\\" + CCHAR[t] if t in (31, 32) else CCHAR[t] for t in toks)


def regex_text(re):
    if re["null"]:
        return "NULL"
    def alt(a):
        body = "".join("." if t == 203 else ".*" if t == 204 else "\\." if t == 33 else CCHAR[t] for t in a["items"])
        return body if re["grp"] else ("^" if a["s"] else "") + body + ("$" if a["e"] else "")
    txt = "|".join(alt(a) for a in re["alts"])
    return "'" + (f"^({txt})$" if re["grp"] else txt) + "'"


def show(e, header=None):
    """Readable (SQL-like) rendering of an AST, for evidence samples and replay files."""
    op = e["op"]
    X = lambda x: show(x, header)
    if op == "col":
        return f"c{e['i']}"
    if op == "lit":
        v = e["v"]
        if v["k"] == "p":
            return "'" + "".join(PAT_TOK[t] for t in header["pats"][v["v"] - 1]) + "'" if header else f"pat{v['v']}"
        if v["k"] == "s":
            return "'" + STR_POOL[v["v"]] + "'"
        if v["k"] == "x":
            return "'" + XPOOL[v["v"]] + "'"
        s = show_value(v)
        return s + (":" + e["t"] if e.get("t") not in (None, "i", "b", "s", "p") or v["k"] == "n" and e.get("t") else "")
    if op in ("bin", "tbin"):
        return f"({X(e['l'])} {e['f']} {X(e['r'])})"
    if op in ("un", "tun"):
        return f"{e['f']}({X(e['e'])})"
    if op == "in":
        return f"({X(e['e'])} {'NOT ' if e['neg'] else ''}IN ({', '.join(X(x) for x in e['list'])}))"
    if op == "between":
        return f"({X(e['e'])} {'NOT ' if e['neg'] else ''}BETWEEN {X(e['lo'])} AND {X(e['hi'])})"
    if op in ("case", "casex"):
        head = "CASE " + (X(e["e"]) + " " if op == "casex" else "")
        return "(" + head + " ".join(f"WHEN {X(c)} THEN {X(t)}" for c, t in e["whens"]) + f" ELSE {X(e['else'])} END)"
    if op == "coalesce":
        return f"coalesce({', '.join(X(x) for x in e['args'])})"
    if op == "nullif":
        return f"nullif({X(e['l'])}, {X(e['r'])})"
    if op == "like":
        return f"({X(e['e'])} {'NOT ' if e['neg'] else ''}{e['f'].upper()} {X(e['pat'])})"
    if op == "cast":
        return f"{'TRY_' if e['try'] else ''}CAST({X(e['e'])} AS {e['to']})"
    if op == "param":
        return f"${e['i']}"
    if op == "regex":
        return f"({X(e['e'])} {e['f']} {regex_text(e['re'])})"
    if op == "likex":
        return f"({X(e['e'])} {'NOT ' if e['neg'] else ''}{e['f'].upper()} '{likex_text(e['toks'])}')"
    if op == "startswith":
        return f"starts_with({X(e['e'])}, {X(e['pre'])})"
    if op == "nvl":
        return f"nvl({X(e['l'])}, {X(e['r'])})"
    return json.dumps(e)


def node_ops(e, out=None):
    out = set() if out is None else out
    if isinstance(e, dict):
        if "op" in e:
            o = e["op"]
            out.add(o + ":" + e["f"] if o in ("bin", "un", "tbin", "tun", "like") else (o + ":" + e["to"] + (":try" if e["try"] else "") if o == "cast" else o))
        for v in e.values():
            node_ops(v, out)
    elif isinstance(e, list):
        for v in e:
            node_ops(v, out)
    return out
