"""C07 — aggregate function state can be split, merged and retracted exactly.

1. TLC model-checks spec/lib/Accum.tla (instance spec/ops2/MCAccum.tla) exhaustively over a small scope in
   its three modes (scalar update/state>merge/evaluate; sliding update/retract/evaluate; GroupsAccumulator
   update-with-filter / emit All|First n / state>merge_batch / convert_to_state>merge): conservation of the
   absorbed rows and order-insensitivity of every reference function that claims it (Agg.tla).
2. B3: TLC random walks of the same machine (spec/ops2/AccumGen.tla, seeded) are complete operation
   histories with the expected result of every evaluation computed by the TLA+ definitions; the Rust driver
   (harness/vops2 c07) replays each history into every aggregate function of the default registry, through
   create_accumulator, create_sliding_accumulator, create_groups_accumulator and GroupsAccumulatorAdapter.
3. Oracle: engine value = F(contents) (exact; rationals within 1e-9), or, without a reference F, equal
   values for equal contents across all histories and paths (self-consistency).
"""
import json, os, subprocess, concurrent.futures as cf
from common import *

MODES = ["merge", "slide", "groups"]


def gen_cfg(mode, na, maxops, maxg, maxbatch):
    return (f'CONSTANTS NA = {na} MaxOps = {maxops} MaxG = {maxg} MODE = "{mode}" MaxBatch = {maxbatch}\n'
            'CONSTANTS Batches <- GenBatches GroupVecs <- GenGroupVecs Filters <- GenFilters Pick <- GenPick PickK <- GenPickK\n'
            'SPECIFICATION Spec\nINVARIANTS EmitWhenDone Conservation\n')


def mc_cfg(mode, na, maxops, maxg, maxbatch, maxseq, invs):
    return (f'CONSTANTS NA = {na} MaxOps = {maxops} MaxG = {maxg} MODE = "{mode}" MaxBatch = {maxbatch} MaxSeq = {maxseq}\n'
            'CONSTANTS Batches <- MCBatches GroupVecs <- MCGroupVecs Filters <- MCFilters Pick <- MCPick PickK <- MCPickK\n'
            f'SPECIFICATION Spec\nVIEW view\nINVARIANTS {invs}\n')


def gen_job(ctx, job):
    tag, mode, c, num, seed = job
    cfg = ctx.path(f"gen-{tag}.cfg")
    open(cfg, "w").write(gen_cfg(mode, *c))
    r = tlc(ctx, "ops2/AccumGen", cfg=cfg, workers=1, deadlock=False, tag=f"gen-{tag}", xmx="2g",
            mode_args=["-simulate", f"num={num}", "-depth", "30", "-seed", str(seed)], timeout=2400,
            env={"JAVA_TOOL_OPTIONS": "-XX:ParallelGCThreads=2"})
    if "Error:" in r.out or r.invariant_violated:
        sys.stderr.write(r.out[-3000:])
        raise ToolError(f"TLC case generation failed ({tag})")
    cs = tlc_cases(r.out)
    for x in cs:
        x["origin"] = f"tlc-simulate AccumGen mode={mode} NA,MaxOps,MaxG,MaxBatch={c} seed={seed}"
    return ("gen", cs)


def mc_job(ctx, job):
    tag, mode, c, invs = job
    cfg = ctx.path(f"{tag}.cfg")
    open(cfg, "w").write(mc_cfg(mode, *c, invs))
    r = tlc_must_pass(ctx, "ops2/MCAccum", cfg=cfg, workers=2, deadlock=False, tag=tag, timeout=3000, xmx="3g",
                      env={"JAVA_TOOL_OPTIONS": "-XX:ParallelGCThreads=2"})
    return ("mc", {"mode": mode, "NA,MaxOps,MaxG,MaxBatch,MaxSeq": c, "invariants": invs, "distinct_states": r.distinct,
                   "generated": r.generated, "wall_s": round(r.wall, 1)})


def known_key(v, case):
    """Narrow keys of the genuine defects recorded in known_findings.json (anything else still raises)."""
    inst, path, msg = v.get("instance", ""), v.get("path"), v.get("message", "")
    ops = {o["op"] for o in case["hist"]}
    if inst.startswith("bit_xor/") and path == "sliding" and msg.startswith("expected NULL, engine returned 0"):
        return "bit_xor-sliding-retract-to-no-values-returns-0"
    if inst.startswith("bit_xor[distinct]/") and path == "groups" and v.get("reference") == "bit_xor_distinct":
        return "bit_xor-distinct-native-groups-accumulator-ignores-distinct"
    if inst.startswith("percentile_cont") and path == "groups" and "one argument to merge_batch" in msg and "gconvert" in ops:
        return "percentile_cont-groups-convert_to_state-asserts-one-argument"
    if inst.startswith("nth_value(-1)") and v.get("reference") == "nth_value_m1" and ops & {"merge", "gmerge", "gconvert"}:
        return "nth_value-negative-n-merge-stops-early"
    return None


def run(ctx):
    build("vops2")
    if ctx.replay:
        rep = json.load(open(ctx.replay))
        write_ndjson(ctx.path("cases.ndjson"), [rep["case"]])
        run_harness(ctx, "vops2", ["c07", "--in", ctx.path("cases.ndjson"), "--out", ctx.path("res.json"),
                                   "--only", rep["instance"]])
        res = json.load(open(ctx.path("res.json")))
        for v in res["violations"]:
            report_violation(ctx, dict(v, case=rep["case"]), key=known_key(v, rep["case"]))
        write_evidence(ctx, "model_checking", {"states": 1, "transitions": 1, "traces_validated_against_impl": res["evaluations"],
                                               "samples": [rep["case"]["hist"][:2]]})
        return
    # 1. exhaustive check of the state machine (conservation) and of the reference functions'
    #    order-insensitivity over every sequence of <= MaxSeq rows;  2. histories (B3).  All TLC runs concurrently.
    MACH = "Conservation DeadEmpty GroupsBounded"
    if ctx.quick:
        mcs = [("mc-merge", "merge", (2, 3, 2, 1, 0), MACH), ("mc-slide", "slide", (2, 4, 2, 1, 0), MACH),
               ("mc-groups", "groups", (2, 2, 2, 1, 0), MACH), ("mc-oi", "merge", (1, 0, 1, 1, 3), "OrderInsensitivityAll")]
    else:
        mcs = [("mc-merge", "merge", (3, 3, 2, 2, 0), MACH), ("mc-slide", "slide", (2, 3, 2, 2, 0), MACH), ("mc-slide2", "slide", (1, 5, 2, 1, 0), MACH),
               ("mc-groups", "groups", (2, 3, 2, 1, 0), MACH), ("mc-groups2", "groups", (2, 2, 3, 2, 0), MACH),
               ("mc-oi", "merge", (1, 0, 1, 1, 4), "OrderInsensitivityAll")]
    n = 260 if ctx.quick else 1500
    jobs = []
    for j, mode in enumerate(MODES):
        jobs.append((f"{mode}-a", mode, (3, 6, 3, 3), n, ctx.seed * 100 + j))
        jobs.append((f"{mode}-b", mode, (2, 4, 2, 2), n // 2, ctx.seed * 100 + 10 + j))
    with cf.ThreadPoolExecutor(max_workers=4 if ctx.quick else 6) as ex:
        futs = [ex.submit(mc_job, ctx, j) for j in mcs] + [ex.submit(gen_job, ctx, j) for j in jobs]
        results = [f.result() for f in futs]
    mc = [r for k, r in results if k == "mc"]
    states = sum(r["distinct_states"] for r in mc)
    transitions = sum(r["generated"] for r in mc)
    cases = [c for k, r in results if k == "gen" for c in r]
    uniq = {}
    for c in cases:
        uniq.setdefault(json.dumps([c["mode"], c["na"], c["hist"]], sort_keys=True), c)
    cases = list(uniq.values())
    for i, c in enumerate(cases):
        c["idx"] = i
    if len(cases) < 50:
        raise ToolError(f"only {len(cases)} histories generated")
    opmix = {}
    for c in cases:
        for o in c["hist"]:
            k = o["op"] + (":first_n" if o["emit"] else "")
            opmix[k] = opmix.get(k, 0) + 1
    need = ["update", "merge", "retract", "eval", "gupdate", "geval", "geval:first_n", "gmerge", "gmerge:first_n", "gconvert"]
    never = [k for k in need if opmix.get(k, 0) < 5]
    if never:
        raise ToolError(f"vacuity: operations (nearly) absent from the generated histories: {never} ({opmix})")
    write_ndjson(ctx.path("cases.ndjson"), cases)
    run_harness(ctx, "vops2", ["c07", "--in", ctx.path("cases.ndjson"), "--out", ctx.path("res.json")], timeout=3000)
    res = json.load(open(ctx.path("res.json")))
    if res["tool_errors"]:
        raise ToolError("harness machinery errors: " + "; ".join(res["tool_errors"][:3]))
    if res["instances"] < 100 or res["instances_native_groups"] < 20 or res["instances_sliding"] < 20:
        raise ToolError(f"vacuity: too few function instances were built: {res['instances']}")
    for p in ("scalar", "sliding", "groups", "adapter"):
        if res["per_path"].get(p, 0) == 0:
            raise ToolError(f"vacuity: no evaluation through path {p}")
    seen = set()
    for v in res["violations"]:
        if v.get("message") == "more":
            continue
        case = cases[v["case_index"]]
        key = known_key(v, case)
        k = (v.get("instance"), v.get("path"), key)
        if k in seen:
            continue
        seen.add(k)
        report_violation(ctx, dict(v, case=case), key=key)
    sample = {"mode": cases[0]["mode"], "hist": [{k: v for k, v in o.items() if k != "expect"} for o in cases[0]["hist"]][:3],
              "final_expect_sum_avg": [[{"sum": e["sum"], "avg": e["avg"]} for e in f] for f in cases[0]["final"]]}
    write_evidence(ctx, "model_checking", {
        "states": states, "transitions": transitions,
        "traces_validated_against_impl": res["histories_run"],
        "samples": [sample],
        "exhaustive": True,
        "model_checking_runs": mc,
        "histories_generated_by_tlc": len(cases),
        "history_operation_mix": opmix,
        "function_instances": res["instances"],
        "instances_with_reference_F": res["instances_with_reference"],
        "instances_sliding": res["instances_sliding"],
        "instances_native_groups_accumulator": res["instances_native_groups"],
        "evaluations": res["evaluations"],
        "evaluations_per_path": res["per_path"],
        "compared_with_reference": res["compared_reference"],
        "compared_self_consistency": res["compared_self_consistency"],
        "zero_variance_after_retract_tolerated": res["zero_denominator_tolerated"],
        "distinct_nontrivial": res["distinct_nontrivial"],
        "engine_errors": res["engine_errors"],
        "functions": res["functions"],
        "rule": "a case is one TLC behaviour of Accum (history of <= 6 operations over <= 3 accumulators, <= 3 groups, "
                "batches of <= 3 rows <<x,y>> over {NULL,-1,0,1,2}) replayed into one function instance through one accumulator "
                "interface; distinct = distinct (function instance, interface, contents evaluated)",
    }, assumptions=[
        "argument renderings: Int64, Int32, Float64 (integer-valued), Utf8 (order-preserving pool), Boolean (v > 0)",
        "Retract is FIFO (the oldest rows leave), as in sliding window frames",
        "update_batch/merge_batch group-index vectors create new groups only by mentioning them (as group interning does)",
        "approx_median / approx_percentile_cont[_with_weight] (t-digest sketches) are excluded by the property; "
        "approx_distinct (HyperLogLog) is compared with the exact distinct count, which it equals on the <= 4 distinct values of the scope; "
        "a registry function without a reference is instantiated on every rendering it accepts and checked for self-consistency",
        "NULL-by-zero-variance results (corr, regr_slope/intercept/r2) are accepted as non-NULL only in histories with retract",
        "binding demonstrated by `vops2 c07 --selftest-corrupt` (every engine value perturbed => every instance reports a violation)",
    ])
