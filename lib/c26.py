"""C26 — parallel byte-range scans read every record exactly once.

1. TLC model-checks spec/files/Boundary.tla exhaustively: the ownership rule's theorem (for every
   file and every 1-/2-/3-way split the yields concatenate to the file, each line owned once) and the
   implementation-grain phase machine of AlignedBoundaryStream (fetch_start = start-1, chunked
   delivery with every chunking, lookahead refills): when Done, output = Yield(file, start, end).
2. B3 byte-exact: BoundaryCases.tla prints, for every file of the scope, the byte interval every
   range [s,e) must yield; the Rust driver runs the real AlignedBoundaryStream over a chunked
   in-memory object store for every <file, range, chunk size> and compares byte for byte.
3. B3 scaled: the same cases with every model byte expanded to K in {8192, 16384} real bytes
   (ranges additionally shifted by +-1 byte), so the real END_SCAN_LOOKAHEAD window and its refill
   loop run at the model's boundary positions.
4. B3 end-to-end: BoundaryLayouts.tla samples line layouts (empty lines, short/long/huge records,
   CRLF, missing final terminator, header, quoted line breaks); the driver materialises 1..3 files per
   case as CSV and NDJSON (chunked memory store or local files), scans them through a listing table
   with repartition_file_scans, repartition_file_min_size = 1, target_partitions 1..8; the result
   must be exactly the specification's records, ascending per file within a partition; and the real
   FileGroupPartitioner's ranges are replayed through the real stream.
"""
import json, os
from common import *


def bcfg(maxlen, alphabet, maxchunk=3, looks="{1, 2}"):
    return (f"CONSTANTS MaxLen = {maxlen}  Alphabet = {alphabet}  MaxChunk = {maxchunk}  Lookaheads = {looks}\n"
            "SPECIFICATION Spec\nINVARIANTS TypeOK Theorem DoneCorrect PrefixOK ReadWindow\nCHECK_DEADLOCK TRUE\n")


def run(ctx):
    build("vfiles")
    if ctx.replay:
        run_harness(ctx, "vfiles", ["c26", "--replay", os.path.abspath(ctx.replay), "--out", ctx.path("res.json")])
        res = json.load(open(ctx.path("res.json")))
        for v in res["violations"]:
            report_violation(ctx, v)
        write_evidence(ctx, "model_checking", {"states": 1, "transitions": 1, "traces_validated_against_impl": res["evaluations"],
                                               "samples": res["samples"] or [{"replay": ctx.replay}]})
        return
    W = 4 if ctx.quick else 8
    # 1. exhaustive model checking
    mc = []
    states = transitions = 0
    taken = {}
    runs = [(6, '{"x", "n"}', 3, "{1, 2}"), (4, '{"x", "r", "n"}', 2, "{1}")] if ctx.quick else \
           [(9, '{"x", "n"}', 3, "{1, 2}"), (6, '{"x", "r", "n"}', 3, "{1, 2}")]
    for i, (ml, al, mch, lk) in enumerate(runs):
        cfg = ctx.path(f"mc{i}.cfg")
        open(cfg, "w").write(bcfg(ml, al, mch, lk))
        r = tlc_must_pass(ctx, "files/Boundary", cfg=cfg, workers=W, coverage=True, tag=f"mc{i}", timeout=3000)
        states += r.distinct
        transitions += r.generated
        mc.append({"MaxLen": ml, "Alphabet": al, "MaxChunk": mch, "Lookaheads": lk, "distinct_states": r.distinct,
                   "generated": r.generated, "wall_s": round(r.wall, 1)})
        for a, (d, t) in r.action_counts().items():
            taken[a] = taken.get(a, 0) + t
    never = [a for a in ("ChunkFirst", "TakePending", "ChunkFetch", "ChunkLast", "Exhausted", "Finished") if taken.get(a, 0) == 0]
    if never:
        raise ToolError(f"vacuity: specification actions never taken: {never}")
    # 2. byte-exact cases: every file of the scope
    cases = []
    for i, (mn, mx, al) in enumerate([(0, 7, '{"x", "n"}'), (2, 4, '{"x", "r", "n"}')] if ctx.quick else
                                     [(0, 9, '{"x", "n"}'), (2, 6, '{"x", "r", "n"}')]):
        cfg = ctx.path(f"cases{i}.cfg")
        open(cfg, "w").write(f"CONSTANTS MaxLen = {mx}  MinLen = {mn}  Alphabet = {al}\nSPECIFICATION Spec\nINVARIANTS Emit\n")
        r = tlc_must_pass(ctx, "files/BoundaryCases", cfg=cfg, workers=1, tag=f"cases{i}", timeout=1200)
        cases += tlc_cases(r.out)
    uniq = {json.dumps(c["f"]): c for c in cases}
    cases = list(uniq.values())
    if len(cases) < 100:
        raise ToolError(f"too few boundary cases from TLC: {len(cases)}")
    write_ndjson(ctx.path("cases.ndjson"), cases)
    # 3. scaled cases: a seeded sample of the files with >= 1 terminator, length 2..6
    pool = [c for c in cases if 2 <= len(c["f"]) <= (5 if ctx.quick else 6) and "n" in c["f"] and "r" not in c["f"]]
    ctx.rng.shuffle(pool)
    scaled = []
    for j, c in enumerate(pool[: (10 if ctx.quick else 60)]):
        k = [16384, 8192][j % 2]
        chunks = [[4096, 0], [16384, 5000], [16385, 8192], [3000, 16383]][j % 4]
        scaled.append(dict(c, k=k, chunks=chunks))
    write_ndjson(ctx.path("scaled.ndjson"), scaled)
    # 4. end-to-end layouts sampled by TLC
    nlay = 70 if ctx.quick else 700
    cfg = ctx.path("lay.cfg")
    open(cfg, "w").write(f'CONSTANTS MaxLines = 5  Kinds = {{"e", "s", "l", "h", "g", "q"}}  Sample = {nlay}\nSPECIFICATION Spec\nINVARIANTS Emit\n')
    r = tlc_must_pass(ctx, "files/BoundaryLayouts", cfg=cfg, workers=1, tag="lay", mode_args=["-seed", str(ctx.seed)], timeout=1200)
    lays = tlc_cases(r.out)
    # a few fixed corner layouts are always present
    def lay(lines, crlf=False, trail=True, header=False):
        return {"lay": {"lines": list(lines), "crlf": crlf, "trail": trail, "header": header},
                "records": [i + 1 for i, k in enumerate(lines) if k != "e"]}
    lays += [lay("sssss"), lay("sssss", crlf=True, header=True), lay("slsls", trail=False), lay("esese", crlf=True, trail=False),
             lay("hsh", header=True), lay("sgs"), lay("gg", trail=False), lay("", header=True), lay("s", trail=False), lay("eeeee"), lay("lllll", crlf=True)]
    ctx.rng.shuffle(lays)
    e2e = []
    i = 0
    while i < len(lays):
        n = ctx.rng.choice([1, 1, 2, 3])
        files = lays[i:i + n]
        i += n
        # huge records are expensive with 1-byte chunks: bound the cost
        huge = sum(f["lay"]["lines"].count("h") + 2 * f["lay"]["lines"].count("g") for f in files)
        chunk = ctx.rng.choice([1, 2, 3, 7, 64, 100000]) if huge == 0 else ctx.rng.choice([4096, 16384, 5000, 100000])
        hasq = any("q" in f["lay"]["lines"] for f in files)
        variant = ctx.rng.choice(["plain", "plain", "ordered"] + ([] if hasq else ["semi"]))
        e2e.append({"files": files, "chunk": chunk, "store": ctx.rng.choice(["mem", "mem", "local"]), "variant": variant})
    write_ndjson(ctx.path("e2e.ndjson"), e2e)
    summary, _ = run_harness(ctx, "vfiles", ["c26", "--cases", ctx.path("cases.ndjson"), "--chunks", "1,2,3,5,0",
                                              "--scaled", ctx.path("scaled.ndjson"), "--e2e", ctx.path("e2e.ndjson"),
                                              "--out", ctx.path("res.json")], timeout=3000)
    res = json.load(open(ctx.path("res.json")))
    if res["tool_errors"]:
        raise ToolError("harness machinery errors: " + "; ".join(res["tool_errors"][:3]))
    for v in res["violations"]:
        report_violation(ctx, v)
    cnt = res["counters"]
    must = ["e2e_multi_partition_scans", "e2e_ranged_gets", "e2e_refill_gets", "e2e_scans_with_two_or_more_refill_gets", "e2e_partition_ownership_checked",
            "e2e_csv_custom_terminator_cases", "e2e_declared_order_cases", "stream_files_with_custom_terminator", "partitioner_layouts"]
    never = [m for m in must if cnt.get(m, 0) == 0]
    if never:
        raise ToolError(f"vacuity: paths never exercised in this run: {never}")
    write_evidence(ctx, "model_checking", {
        "states": states, "transitions": transitions,
        "traces_validated_against_impl": res["evaluations"],
        "samples": res["samples"][:4],
        "exhaustive": True,
        "model_checking_runs": mc,
        "spec_actions_taken": taken,
        "files_enumerated_by_tlc": len(cases),
        "scaled_files": len(scaled),
        "e2e_cases": len(e2e), "layouts_from_tlc": len(lays),
        "distinct_nontrivial": res["distinct_nontrivial"],
        "counters": cnt,
        "rule": "a case is <file, byte range, chunk size[, scale]> run on the real AlignedBoundaryStream (non-trivial: start>0, end<size, non-empty yield), or <files, format, target_partitions, chunk, store> scanned end-to-end (non-trivial: more than one output partition and at least one record), or a FileGroupPartitioner result with a file split in >1 ranges; distinct = distinct such tuples",
    }, assumptions=[
        "terminator is LF, or ';' for a third of the byte-exact files and for CSV tables scanned with terminator=';' (CR is content for range alignment; CRLF files are covered because the CSV/JSON decoders treat CR LF as a line end)",
        "compressed files and the JSON array format are not scanned in ranges by the engine (the former are never split, the latter is refused with NotImplemented) and are not generated",
        "scaled cases derive the expected interval from the specification's AlignStart by the homomorphism position p -> K*p (line starts of the expanded file are K x the model's)",
        "CSV files with quoted line breaks are scanned with newlines_in_values=true (documented requirement); the engine then must not split them",
        "binding demonstrated while building: model-side mutations (search from `end` instead of `end-1`; `>` for `>=` at the start alignment; never stopping at a terminator that ends exactly at `end`) are rejected by TLC (PrefixOK / assertion), and corrupting one expected interval makes the driver report a stream mismatch",
    ])
