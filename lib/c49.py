"""C49 — catalog changes are applied exactly and reflected in the information schema.

spec/adt/Catalog.tla is a state machine over catalogs -> schemas -> {tables, views}: CREATE/DROP of
databases, schemas, tables (plain, AS VALUES, AS SELECT, OR REPLACE, IF NOT EXISTS) and views (OR REPLACE),
INSERT and SELECT, with name resolution (bare / schema-qualified / fully qualified references, unquoted
spellings folded to lower case, quoted spellings exact).  TLC runs the machine (invariants TypeOK, FailKeeps)
and prints every complete history with, for every statement, the expected outcome (success / failure, count,
result rows and result columns) and the expected information schema after it.  Binding B3: each history is
rendered to SQL and executed by `vhist run` on ONE real SessionContext with information_schema enabled; after
every statement the outcome and the contents of information_schema.{tables,columns,views,schemata} are
compared with the specification."""
import json, collections, os
from common import *
import sqlcases

Q_TABLES = "SELECT table_catalog, table_schema, table_name, table_type FROM information_schema.tables WHERE table_schema <> 'information_schema'"
Q_COLUMNS = ("SELECT table_catalog, table_schema, table_name, column_name, ordinal_position, data_type, is_nullable "
             "FROM information_schema.columns WHERE table_schema <> 'information_schema'")
Q_VIEWS = "SELECT table_catalog, table_schema, table_name, definition FROM information_schema.views"
Q_SCHEMATA = "SELECT catalog_name, schema_name FROM information_schema.schemata"
OBS = [Q_TABLES, Q_COLUMNS, Q_VIEWS, Q_SCHEMATA]


def gen(ctx, tag, nh, length, seed, br=1, mut="none", workers=4):
    cfg = ctx.path(f"{tag}.cfg")
    with open(cfg, "w") as f:
        f.write(f'CONSTANTS NH = {nh}  LEN = {length}  BR = {br}  MUT = "{mut}"\n')
        f.write("SPECIFICATION Spec\nINVARIANTS TypeOK FailKeeps Emit\nCHECK_DEADLOCK FALSE\n")
    r = tlc(ctx, "adt/Catalog", cfg=cfg, workers=workers, mode_args=["-seed", str(seed)], tag=tag, xss="64m",
            deadlock=False, timeout=3000)
    if not r.ok or r.invariant_violated:
        sys.stderr.write(r.out[-4000:])
        raise ToolError(f"TLC failed on Catalog ({tag}): specification-level error")
    cases = tlc_cases(r.out)
    for i, c in enumerate(cases):
        c["id"] = f"{tag}-{c['seed']}-{i}"
    return cases, r


# ----------------------------------------------------------------------------- rendering

def ident(i):
    x, sp = i["x"], i["sp"]
    if sp == 2 or x != x.lower():
        return '"' + x + '"'
    if sp == 1:
        return x.upper()
    if sp == 3:
        return x.capitalize()
    return x


def ref_sql(r):
    parts = [ident(r[k]) for k in ("c", "s", "n") if r[k]["x"] != ""]
    return ".".join(parts)


def col_ident(name):
    return name if name == name.lower() else '"' + name + '"'


def lit(v):
    k = v["k"]
    if k == "n":
        return "NULL"
    if k == "i":
        return str(v["v"])
    if k == "b":
        return "TRUE" if v["v"] == 1 else "FALSE"
    if k == "s":
        return "'" + sqlcases.STR_POOL[v["v"]] + "'"
    raise ValueError(v)


SHAPES = {"T1": "(c1 BIGINT)", "T2": "(c1 BIGINT, c2 VARCHAR)", "T3": '(c1 INT NOT NULL, "V" BOOLEAN)',
          "V1": "AS VALUES (1, 'a'), (2, NULL)", "V2": "AS VALUES (3)"}


def query_sql(q, src, fcol):
    f = col_ident(fcol)
    if q == "star":
        return f"SELECT * FROM {src}"
    if q == "pos":
        return f"SELECT {f} FROM {src} WHERE {f} > 0"
    if q == "expr":
        return f"SELECT {f} + 1 AS d FROM {src}"
    if q == "cast":
        return f'SELECT CAST({f} AS BIGINT) AS k, {f} AS "F2" FROM {src}'
    if q in ("ren", "bad2", "temp"):
        return f"SELECT {f} FROM {src}"
    if q == "dup":
        return f"SELECT l.{f}, r.{f} FROM {src} AS l CROSS JOIN {src} AS r"
    raise ValueError(q)


API_TABLE = {"cols": [{"name": "c1", "kind": "i"}, {"name": "c2", "kind": "s"}], "rows": [[{"k": "i", "v": 1}, {"k": "s", "v": 1}]]}


def api_step(s):
    """Steps that go through the Rust API of SessionContext (the reference string is parsed by TableReference::from)."""
    st = s["st"]
    k = st["k"]
    r = ref_sql(st["ref"])
    if k == "api_register_table":
        return {"op": "register_table", "ref": r, "table": API_TABLE}
    if k == "api_register_view":
        return {"op": "register_view", "ref": r, "query": query_sql(st["q"], ref_sql(st["src"]), s["fcol"])}
    if k == "api_deregister":
        return {"op": "deregister_table", "ref": r}
    if k == "api_exists":
        return {"op": "table_exist", "ref": r}
    return None


def render_stmt(s):
    st = s["st"]
    k = st["k"]
    if k == "create_database":
        return f"CREATE DATABASE {'IF NOT EXISTS ' if st['ine'] else ''}{ident(st['ref']['c'])}"
    if k == "create_schema":
        return f"CREATE SCHEMA {'IF NOT EXISTS ' if st['ine'] else ''}{ref_sql(st['ref'])}"
    if k == "drop_schema":
        return f"DROP SCHEMA {'IF EXISTS ' if st['ifx'] else ''}{ref_sql(st['ref'])}{' CASCADE' if st['casc'] else ''}"
    if k == "create_table":
        temp = "TEMPORARY " if st["q"] == "temp" else ""
        head = f"CREATE {'OR REPLACE ' if st['orr'] else ''}{temp}TABLE {'IF NOT EXISTS ' if st['ine'] else ''}{ref_sql(st['ref'])}"
        if st["shape"]:
            sh = SHAPES[st["shape"]]
            return head + (sh if sh.startswith("(") else " " + sh)
        decl = {"ren": "(x BIGINT)", "bad2": "(x BIGINT, y INT)"}.get(st["q"], "")
        return head + decl + " AS " + query_sql(st["q"], ref_sql(st["src"]), s["fcol"])
    if k == "create_view":
        decl = " (x)" if st["q"] == "ren" else ""
        temp = "TEMPORARY " if st["q"] == "temp" else ""
        return f"CREATE {'OR REPLACE ' if st['orr'] else ''}{temp}VIEW {ref_sql(st['ref'])}{decl} AS " + query_sql(st["q"], ref_sql(st["src"]), s["fcol"])
    if k == "describe":
        return f"DESCRIBE {ref_sql(st['ref'])}"
    if k == "show_columns":
        return f"SHOW COLUMNS FROM {ref_sql(st['ref'])}"
    if k == "show_tables":
        return "SHOW TABLES"
    if k.startswith("api_"):
        return "-- Rust API: " + json.dumps(api_step(s))
    if k == "drop_table":
        return f"DROP TABLE {'IF EXISTS ' if st['ifx'] else ''}{ref_sql(st['ref'])}"
    if k == "drop_view":
        return f"DROP VIEW {'IF EXISTS ' if st['ifx'] else ''}{ref_sql(st['ref'])}"
    if k == "insert":
        return f"INSERT INTO {ref_sql(st['ref'])} VALUES ({', '.join(lit(v) for v in st['row'])})"
    if k == "select":
        r = ref_sql(st["ref"])
        q = st["q"]
        if q == "pos":
            f = col_ident(s["cols"][0]["n"]) if s["cols"] else "c1"
            return f"SELECT {f} FROM {r} WHERE {f} > 0"
        if q == "last":
            f = col_ident(s["cols"][0]["n"]) if s["cols"] else "c1"
            return f"SELECT {f} FROM {r}"
        if q == "lim":
            return f"SELECT * FROM {r} LIMIT 1"
        return f"SELECT * FROM {r}"
    raise ValueError(k)


def render_history(c):
    steps = []
    for s in c["steps"]:
        s["sql"] = render_stmt(s)
        step = {"sql": s["sql"], "obs": OBS}
        if s["st"]["k"].startswith("api_"):
            step["api"] = api_step(s)
        steps.append(step)
    return {"id": c["id"], "config": {"information_schema": True, "target_partitions": 2}, "tables": [], "steps": steps}


# ----------------------------------------------------------------------------- oracle

def sval(v):
    """engine value -> python value"""
    k = v["k"]
    if k == "n":
        return None
    if k == "s":
        return v.get("raw") if v["v"] == -1 else sqlcases.STR_POOL[v["v"]]
    return v["v"]


def rows_of(o):
    return sorted(tuple(sval(v) for v in row) for row in o["rows"]) if o["ok"] else None


def srt(rows):
    return sorted(rows, key=lambda t: tuple("" if x is None else str(x) for x in t))


K_SHOWCOLS = "show-columns-partially-qualified-lists-other-schemas"
report_known = []      # (step, message, key) of known-finding observations of the history being checked (state not diverged)


def check_history(c, res):
    n = 0
    report_known.clear()
    for i, (s, r) in enumerate(zip(c["steps"], res["steps"])):
        st = s["st"]
        P = lambda msg: (n, {"step": i, "msg": msg})
        if r.get("panic"):
            return P("engine panicked: " + (r.get("err") or "")[:300])
        if s["ok"] != r["ok"]:
            return P(("statement must succeed but the engine failed: " + (r.get("err") or "")[:300]) if s["ok"]
                     else "statement must fail in this catalog state but the engine accepted it")
        if s["ok"] and st["k"] == "insert":
            cnt = r["rows"][0][0]["v"] if r["rows"] else None
            if cnt != s["count"]:
                return P(f"INSERT reported {cnt}, expected {s['count']}")
        if s["ok"] and st["k"] in ("api_deregister", "api_exists"):
            got = r["rows"][0][0]["v"] if r["rows"] else None
            if got != s["count"]:
                return P(f"{st['k']} returned {bool(got)}, expected {bool(s['count'])}")
        if s["ok"] and st["k"] in ("describe", "show_columns"):
            want = [(x["n"], x["t"], "NO" if x["nn"] else "YES") for x in s["cols"]]
            if st["k"] == "show_columns":
                want = [tuple(s["tgt"]) + w for w in want]
            got = [tuple(sval(v) for v in row) for row in r["rows"]]
            if got != want:
                key = None
                if st["k"] == "show_columns" and all(w in got for w in want):
                    # known finding: same-named tables of other schemas / catalogs that agree with the written qualifiers
                    ref = st["ref"]
                    others = [(o["c"], o["s"], o["n"], col["n"], col["t"], "NO" if col["nn"] else "YES")
                              for o in s["columns"] for col in o["cols"]
                              if o["n"] == s["tgt"][2] and (o["c"], o["s"]) != tuple(s["tgt"][:2])
                              and (ref["s"]["x"] == "" or o["s"] == s["tgt"][1]) and (ref["c"]["x"] == "" or o["c"] == s["tgt"][0])]
                    extra = [g for g in got if g not in want]
                    if extra and sorted(extra) == sorted(others):
                        key = K_SHOWCOLS
                if key:
                    report_known.append((i, f"{s['sql']} returned {got}, the object's columns are {want}", key))
                else:
                    return P(f"{s['sql']} returned {got}, the object's columns are {want}")
        if s["ok"] and st["k"] == "show_tables":
            got = srt([tuple(sval(v) for v in row) for row in r["rows"] if sval(row[1]) != "information_schema"])
            # the state before this statement = the state after it
            if got != srt([tuple(t) for t in s["tables"]]):
                return P(f"SHOW TABLES returned {got}, expected exactly {srt([tuple(t) for t in s['tables']])}")
        if s["ok"] and st["k"] == "select":
            names = [x["n"] for x in s["cols"]]
            types = [x["t"] for x in s["cols"]]
            if r.get("cols") != names:
                return P(f"query returns columns {r.get('cols')}, the object has columns {names}")
            if r.get("types") != types:
                return P(f"query returns types {r.get('types')}, the object has types {types}")
            if not s["unspec"]:
                want = [[{"k": v["k"], "v": v["v"]} for v in row] for row in s["rows"]]
                got = [[{"k": v["k"], "v": v["v"]} for v in row] for row in r["rows"]]
                if st["q"] == "lim":
                    if len(got) != min(1, len(want)) or not sqlcases.sub_bag(sqlcases.bag(got), sqlcases.bag(want)):
                        return P(f"LIMIT 1 returns {got}, the object has rows {want[:6]}")
                elif sqlcases.bag(got) != sqlcases.bag(want):
                    return P(f"query returns {len(got)} rows {got[:4]}, the reference {len(want)} rows {want[:4]}")
        # information schema after the statement
        ot, oc, ov, osch = r["obs"]
        for nm, o in zip(("tables", "columns", "views", "schemata"), r["obs"]):
            if not o["ok"]:
                return P(f"information_schema.{nm} query failed: {(o.get('err') or '')[:200]}")
        want_t = srt([tuple(t) for t in s["tables"]])
        if srt(rows_of(ot)) != want_t:
            return P(f"information_schema.tables = {srt(rows_of(ot))}, expected exactly {want_t}")
        want_c = srt([(o["c"], o["s"], o["n"], col["n"], j, col["t"], "NO" if col["nn"] else "YES")
                      for o in s["columns"] for j, col in enumerate(o["cols"])])
        if srt(rows_of(oc)) != want_c:
            return P(f"information_schema.columns = {srt(rows_of(oc))}, expected exactly {want_c}")
        # views: the rows WITH a definition are exactly the views (definition = text of the creating statement);
        # every row names an existing object (base tables are also listed by the engine, with a NULL definition)
        vrows = rows_of(ov)
        want_v = srt([(v["c"], v["s"], v["n"], c["steps"][v["id"] - 1]["sql"]) for v in s["views"]])
        if srt([x for x in vrows if x[3] is not None]) != want_v:
            return P(f"information_schema.views (with definition) = {srt([x for x in vrows if x[3] is not None])}, expected exactly {want_v}")
        existing = {tuple(t[:3]) for t in s["tables"]}
        stale = [x for x in vrows if tuple(x[:3]) not in existing]
        if stale:
            return P(f"information_schema.views lists objects that do not exist: {stale}")
        want_s = srt([tuple(x) for x in s["schemata"]])
        if srt(rows_of(osch)) != want_s:
            return P(f"information_schema.schemata = {srt(rows_of(osch))}, expected exactly {want_s}")
        n += 1
    return n, None


def execute(ctx, cases, tag):
    inp, out = ctx.path(f"{tag}.in.ndjson"), ctx.path(f"{tag}.out.ndjson")
    write_ndjson(inp, [render_history(c) for c in cases])
    summary, _ = run_harness(ctx, "vhist", ["run", "--in", inp, "--out", out], timeout=3000)
    return {r["id"]: r for r in read_ndjson(out)}, summary


def evaluate(ctx, cases, res, stats, report=True):
    flagged = 0
    for c in cases:
        n, prob = check_history(c, res[c["id"]])
        for (i, msg, key) in list(report_known):
            stats["known:" + key] += 1
            if report:
                report_violation(ctx, {"case": c, "step": i, "sql": [s["sql"] for s in c["steps"]],
                                       "engine": res[c["id"]]["steps"][i], "oracle": msg}, key=key)
        stats["steps_compared"] += n
        for s in c["steps"][:n]:
            st = s["st"]
            tag = st["k"] + (":or_replace" if st["orr"] else "") + (":if_not_exists" if st["ine"] else "") + \
                (":if_exists" if st["ifx"] else "") + (":cascade" if st["casc"] else "") + \
                (":as_select" if st["k"] == "create_table" and not st["shape"] else "") + \
                ((":" + st["q"]) if st["q"] in ("cast", "ren", "bad2", "dup", "temp", "pos", "last", "lim") else "")
            stats[("ok " if s["ok"] else "fail ") + tag] += 1
            if st["k"] == "select" and s["ok"]:
                if s["unspec"]:
                    stats["select_unspecified_rows"] += 1
                elif s["rows"]:
                    stats["select_nonempty_compared"] += 1
            stats["max_objects"] = max(stats["max_objects"], len(s["tables"]))
            if s["ok"] and s["tgt"][0] == "c2" and st["k"] in ("create_table", "create_view", "insert", "select", "api_register_table"):
                stats["ok statements on objects of catalog c2"] += 1
            if any(t[2] == "a.b" for t in s["tables"]):
                stats["dotted_name_objects"] += 1
            if s["ok"] and st["k"] == "select" and s["unspec"]:
                stats["select_from_view_whose_source_was_replaced_or_dropped"] += 1
            if s["views"]:
                stats["steps_with_views"] += 1
        if prob:
            flagged += 1
            if report:
                i = prob["step"]
                report_violation(ctx, {"case": c, "step": i, "sql": [s["sql"] for s in c["steps"]],
                                       "engine": res[c["id"]]["steps"][i], "oracle": prob["msg"]})
    return flagged


def selftest(ctx):
    out = {}
    only = os.environ.get("VERIF_SELFTEST", "1")
    for mut in [m for m in ["foldquoted", "noreplace", "dropifexists", "staleview"] if only in ("1", m)]:
        cases, _ = gen(ctx, "mut-" + mut, 200, 7, ctx.seed, mut=mut)
        res, _ = execute(ctx, cases, "mut-" + mut)
        out[mut] = [evaluate(ctx, cases, res, collections.Counter(), report=False), len(cases)]
    print("SELFTEST model-side mutants: histories flagged / histories:", json.dumps(out))
    if any(v[0] == 0 for v in out.values()):
        raise ToolError("selftest: a wrong reference model was not distinguished from the engine")


def run(ctx):
    build("vhist")
    if os.environ.get("VERIF_SELFTEST"):
        selftest(ctx)
    if ctx.replay:
        cases = [json.load(open(ctx.replay))["case"]]
        states = transitions = 1
    else:
        w = 4 if ctx.quick else 8
        specs = [("main", 220, 7, ctx.seed, 1)] if ctx.quick else \
                [("main", 1200, 7, ctx.seed, 1), ("deep", 300, 12, ctx.seed + 1000, 1), ("tree", 12, 5, ctx.seed + 2000, 3)]
        cases, states, transitions = [], 0, 0
        for tag, nh, ln, sd, br in specs:
            cs, r = gen(ctx, tag, nh, ln, sd, br=br, workers=w)
            if len(cs) < nh:
                raise ToolError(f"TLC printed {len(cs)} histories for {tag}, expected >= {nh}")
            cases += cs
            states += r.distinct
            transitions += r.generated
    res, summary = execute(ctx, cases, "hist")
    stats = collections.Counter()
    evaluate(ctx, cases, res, stats)
    if not ctx.replay:
        kinds = {k.split(" ", 1)[1].split(":")[0] + (" ok" if k.startswith("ok ") else " fail") for k in stats if k.startswith(("ok ", "fail "))}
        need = {f"{k} {o}" for k in ("create_schema", "drop_schema", "create_table", "create_view", "drop_table", "drop_view",
                                     "insert", "select") for o in ("ok", "fail")} | {"create_database ok"}
        if need - kinds:
            raise ToolError(f"vacuity: outcomes never compared: {sorted(need - kinds)}")
        need |= {f"{k} {o}" for k in ("describe", "show_columns", "api_register_table", "api_deregister", "api_exists") for o in ("ok", "fail")}
        need |= {"show_tables ok", "api_register_view ok"}
        if need - kinds:
            raise ToolError(f"vacuity: outcomes never compared: {sorted(need - kinds)}")
        for k in ("ok create_table:or_replace", "ok create_view:or_replace", "ok create_table:if_not_exists", "ok drop_table:if_exists",
                  "select_nonempty_compared", "steps_with_views", "ok drop_schema:cascade", "ok create_table:as_select:cast",
                  "ok create_table:as_select:ren", "fail create_table:as_select:bad2", "ok create_view:ren", "ok create_view:cast",
                  "ok statements on objects of catalog c2", "select_from_view_whose_source_was_replaced_or_dropped",
                  "ok select:pos", "ok select:last", "ok select:lim", "fail:dup", "fail:temp", "dotted_name_objects") + \
                (() if ctx.quick else ("fail create_table:dup", "fail create_view:dup", "fail create_table:temp", "fail create_view:temp")):
            parts = set(k.replace("fail:", "fail :").split(":"))
            if not any(parts <= set(x.replace("fail ", "fail :").replace("ok ", "ok :").split(":")) | {x.split(":")[0]} for x in stats if stats[x] > 0):
                raise ToolError(f"vacuity: never compared a step of class {k}")
    samples = [{"id": c["id"], "steps": [{"sql": s["sql"], "expect_ok": s["ok"], "expect_tables": s["tables"]} for s in c["steps"]]}
               for c in cases[:2]]
    write_evidence(ctx, "model_checking", {
        "states": states, "transitions": transitions, "traces_validated_against_impl": len(cases), "samples": samples,
        "statements_compared": stats["steps_compared"], "information_schema_reads_compared": 4 * stats["steps_compared"],
        "distinct_statements": len({s["sql"] for c in cases for s in c["steps"]}),
        "sql_statements_executed": (summary or {}).get("statements"),
        "breakdown": {k: v for k, v in sorted(stats.items()) if v},
    }, assumptions=[
        "B3 behaviour replay: TLC (spec/adt/Catalog.tla) generates DDL/INSERT/SELECT histories with the expected outcome of every "
        "statement and the expected information schema after it; the statement renderer (lib/c49.py) is trusted",
        "scope: catalogs {datafusion, c2}, schemas {public, s1, \"S1\"}, object names {a, ab, \"Ab\", \"AB\"} in unquoted (any case) and "
        "quoted spellings, bare / schema-qualified / fully qualified references, 5 table shapes, 3 query shapes",
        "a view whose source object was dropped or replaced after the view was created keeps the old binding in the engine: its rows "
        "are left unspecified (existence, columns, information schema are still compared); CREATE VIEW IF NOT EXISTS and DROP "
        "DATABASE are not implemented at this commit and are not generated",
        "information_schema.views: the rows with a definition must be exactly the views (definition = the CREATE VIEW text) and every "
        "row must name an existing object; the engine also lists base tables there with a NULL definition (tolerated)",
        "binding demonstrated with model-side mutants (VERIF_SELFTEST=1): references that fold quoted identifiers, ignore OR REPLACE, "
        "fail DROP IF EXISTS of a missing object, or freeze a view's rows at creation are each contradicted by the engine",
    ])
