"""C01 — SQL query results agree with the reference relational semantics.

TLC evaluates spec/gen/PlanGen.tla: typed random query plans over random small databases, each with the
result assigned by the TLA+ reference semantics (spec/lib/Rel.tla, Expr.tla, Tri.tla).  Every case is
rendered to SQL, executed by the real engine (SessionContext::sql over MemTables) and the engine's answer
is compared with the reference under the mode the plan admits (bag / ordered / top-k / subset)."""
import json, collections
from common import *
import sqlcases


def run_cases(ctx, cases, tag, extra_args=()):
    inp, out = ctx.path(f"{tag}.in.ndjson"), ctx.path(f"{tag}.out.ndjson")
    write_ndjson(inp, [{"id": c["id"], "sql": c["sql"], "tables": c["tables"]} for c in cases])
    summary, _ = run_harness(ctx, "vsem", ["exec", "--in", inp, "--out", out] + list(extra_args), timeout=3000)
    res = {r["id"]: r for r in read_ndjson(out)}
    return res, summary


def finding_key(case, r):
    """Narrow keys of genuine engine defects listed in known_findings.json (anything else raises)."""
    err = r.get("err") or ""
    feats = sqlcases.features_of(case["plan"])
    if ("Physical input schema should be the same as the one converted from logical input schema" in err
            and "(physical) true vs (logical) false" in err
            and feats & {"un:istrue", "un:isfalse", "un:isnottrue", "un:isnotfalse", "un:isunknown", "un:isnotunknown"}):
        return "is-true-family-nullability-mismatch"
    return None


def run(ctx):
    build("vsem")
    if ctx.replay:
        rp = json.load(open(ctx.replay))
        cases = [rp["case"]]
        sets = [rp.get("exec_args", [])]
    else:
        n = 400 if ctx.quick else 6000
        cases = []
        gens = [(2, 2, ctx.seed), (3, 1, ctx.seed + 1000)] if ctx.quick else \
               [(2, 2, ctx.seed), (3, 2, ctx.seed + 1000), (4, 1, ctx.seed + 2000), (1, 3, ctx.seed + 3000)]
        states = 0
        for gi, (d, ed, sd) in enumerate(gens):
            cs, r = sqlcases.generate(ctx, n // len(gens), sd, depth=d, edepth=ed, tag=f"gen{gi}", workers=4 if ctx.quick else 8)
            for c in cs:
                c["id"] = f"g{gi}-{c['id']}"
            cases += cs
            states += r.distinct
        sets = [[], ["--partitions", "3", "--batch-rows", "1"]]
    evaluations = 0
    ref_err = plan_err_ok = 0
    feats = collections.Counter()
    nontrivial = set()
    samples = []
    for args in sets:
        res, summary = run_cases(ctx, cases, "exec" + str(len(args)), args)
        for c in cases:
            r = res[c["id"]]
            evaluations += 1
            msg = sqlcases.compare(c, r.get("rows", []), r.get("err"))
            if c["expect"]["err"]:
                ref_err += 1
            if r.get("panic"):
                msg = msg or ("engine panicked: " + r["err"][:300])
            if msg:
                report_violation(ctx, {"case": c, "exec_args": args, "engine": r, "oracle": msg}, key=finding_key(c, r))
            if not c["expect"]["err"] and len(c["expect"]["rows"]) > 0:
                nontrivial.add(c["sql"])
            if len(samples) < 2 and not c["expect"]["err"] and c["expect"]["rows"]:
                samples.append({"sql": c["sql"], "tables": {t["name"]: t["rows"] for t in c["tables"]}, "expect": c["expect"], "mode": c["mode"]})
    for c in cases:
        for f in sqlcases.features_of(c["plan"]):
            feats[f] += 1
    write_evidence(ctx, "exploration", {
        "evaluations": evaluations, "distinct_nontrivial": len(nontrivial),
        "rule": "case = <database, query plan> drawn by TLC from PlanGen (seeded), expected result computed by the TLA+ reference Rel.EvalPlan; "
                "non-trivial = distinct SQL text whose reference result is non-empty and not an evaluation error; each case is executed under "
                "every table layout listed in exec_layouts",
        "samples": samples, "cases": len(cases), "reference_err_cases": ref_err, "exec_layouts": sets,
        "operator_coverage": dict(sorted(feats.items())),
    }, assumptions=["the AST->SQL renderer (lib/sqlcases.py) is trusted; value scope: ints {NULL,-1,0,1,2}, 3-entry string pool, booleans, tables of 0..3 rows",
                    "where the reference evaluation is an error (division by zero) the engine may fail or succeed"])
