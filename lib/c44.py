"""C44 — files with a differing schema are read faithfully into the table schema.

spec/files/SchemaAdapt.tla: table schema (a Int64, b Int32, s Utf8, st Struct{p Int64, q Utf8}); file
variants (columns missing / reordered / extra, integer widths i8/i32/i64, Utf8 vs LargeUtf8, struct
fields reordered / missing / extra); Adapt(row) and Scan(files, filter) = Filter(Adapt(rows)).  TLC samples
pairs of files x predicates (over top-level columns and struct fields) with the expected rows; the Rust
driver writes the Parquet files, reads them through a ListingTable with the explicit table schema with
and without filter pushdown (plus reorder, page index, pruning, view types, 1-2 partitions) and compares
rows (struct flattened), a projection, the unfiltered scan and the result column types.
"""
import json
from common import *
from fexpr import render, has_notin_or, NOTIN_KEY

POOL = ["a", "ab", "b", "ba", "c"]
NAMES = ["a", "b", "s", "st['p']", "st['q']", "(st IS NULL)", "st['in']['u']", "st['in']['w']", "ls[1]['p']", "ls[1]['q']", "t", "m"]
LITFMT = {11: lambda v: f"to_timestamp_seconds({v['v']})"}


def known_key(v):
    c = v.get("case") or {}
    if not v.get("error") and not v.get("missing_rows") and v.get("unexpected_rows") and has_notin_or(c.get("filter")):
        return NOTIN_KEY
    return None


def run(ctx):
    build("vfiles")
    if ctx.replay:
        run_harness(ctx, "vfiles", ["c44", "--replay", os.path.abspath(ctx.replay), "--out", ctx.path("res.json")])
        res = json.load(open(ctx.path("res.json")))
        for v in res["violations"]:
            report_violation(ctx, v, key=known_key(v))
        write_evidence(ctx, "exploration", {"evaluations": max(1, res["evaluations"]), "distinct_nontrivial": 2, "rule": "replay of one recorded case",
                                            "samples": res["samples"] or [{"replay": ctx.replay}]})
        return
    rounds = 4 if ctx.quick else 8
    ncase = 24 if ctx.quick else 120
    cases, states = [], 0
    for r in range(rounds):
        n = [4, 6, 3, 8][r % 4]
        av = sorted(ctx.rng.sample([1, 2, 3, 5, 100, 127], 3))
        svs = sorted(ctx.rng.sample(range(1, len(POOL) + 1), 3))
        cfg = ctx.path(f"sa{r}.cfg")
        open(cfg, "w").write(f"CONSTANTS N = {n}  AV = {{{', '.join(map(str, av))}}}  SVs = {{{', '.join(map(str, svs))}}}  NCase = {ncase}\n"
                             "SPECIFICATION Spec\nINVARIANTS Emit\n")
        t = tlc_must_pass(ctx, "files/SchemaAdapt", cfg=cfg, workers=1, tag=f"sa{r}", mode_args=["-seed", str(ctx.seed * 1000 + r)], timeout=1800)
        states += t.distinct
        got = tlc_cases(t.out)
        for j, c in enumerate(got):
            c["pool"] = POOL
            c["sql"] = render(c["filter"], NAMES, POOL, LITFMT)
            c["tview"] = (j % 3 == 2)
            c["fmt"] = "json" if j % 5 == 4 else "parquet"
            c["rg"] = ctx.rng.choice([2, 3, 100])
            rnd = {s: ctx.rng.random() < 0.5 for s in ["reorder_filters", "enable_page_index", "pruning", "schema_force_view_types"]}
            c["configs"] = [dict(rnd, pushdown_filters=False, tp=1), dict(rnd, pushdown_filters=True, tp=ctx.rng.choice([1, 2])),
                            dict(pushdown_filters=True, reorder_filters=True, enable_page_index=True, pruning=True, schema_force_view_types=True, tp=2)]
            c["origin"] = f"SchemaAdapt.tla N={n} AV={av} SVs={svs} seed={ctx.seed * 1000 + r}"
        cases += got
    if len(cases) < 40:
        raise ToolError(f"too few cases from TLC: {len(cases)}")
    write_ndjson(ctx.path("cases.ndjson"), cases)
    summary, _ = run_harness(ctx, "vfiles", ["c44", "--cases", ctx.path("cases.ndjson"), "--out", ctx.path("res.json")], timeout=3000)
    res = json.load(open(ctx.path("res.json")))
    if res["tool_errors"]:
        raise ToolError("harness machinery errors: " + "; ".join(res["tool_errors"][:3]))
    for v in res["violations"]:
        report_violation(ctx, v, key=known_key(v))
    cnt = res["counters"]
    must = [f"variant_{k}_{v}" for k, vs in dict(ta=["i8", "i32", "i64"], tb=["i8", "i32", "i64"], ts=["utf8", "large", "dict"], stv=["pq", "qp", "p", "q", "pqr"],
                                                 inv=["none", "uw", "wu", "u", "uwz"], tt=["s", "ms", "us", "ns", "ms_utc"], tm=["5_1", "7_2", "10_2"]).items() for v in vs]
    must += [f"variant_without_{k}" for k in ["ha", "hb", "hs", "hst", "hls", "ht", "hm"]] + ["files_with_null_struct_rows", "table_with_utf8view", "format_ndjson", "format_parquet"]
    never = [m for m in must if cnt.get(m, 0) == 0]
    colmap = {1: "ha", 2: "hb", 3: "hs", 4: "hst", 5: "hst", 6: "hst", 7: "hst", 8: "hst", 9: "hls", 10: "hls", 11: "ht", 12: "hm"}
    def cols_of(x):
        if not isinstance(x, dict):
            return set()
        r = {x["i"]} if x.get("op") == "col" else set()
        for k in ("l", "r", "e"):
            r |= cols_of(x.get(k))
        return r
    missing_filter = sum(1 for c in cases if any(not f["v"][colmap[i]] for f in c["files"] for i in cols_of(c["filter"])))
    if missing_filter == 0:
        never.append("filter on a column missing from a file")
    if never:
        raise ToolError(f"vacuity: schema variants never exercised in this run: {never}")
    variants = {json.dumps(f["v"], sort_keys=True) for c in cases for f in c["files"]}
    write_evidence(ctx, "exploration", {
        "evaluations": res["evaluations"],
        "distinct_nontrivial": res["distinct_nontrivial"],
        "rule": "a case is <two file-schema variants with rows, predicate, reader configuration, query shape>; non-trivial = the predicate selects some but not all adapted rows; distinct = distinct such tuples",
        "samples": res["samples"][:2],
        "tlc_states": states, "cases_from_tlc": len(cases), "distinct_file_schema_variants": len(variants),
        "cases_with_missing_column": sum(1 for c in cases if any(not (f["v"]["ha"] and f["v"]["hb"] and f["v"]["hs"] and f["v"]["hst"]) for f in c["files"])),
        "cases_filtering_on_a_column_missing_from_a_file": missing_filter,
        "counters": res["counters"],
    }, assumptions=[
        "castable lattice: Int8 < Int32 < Int64 (values fit every width), Utf8 ~ LargeUtf8 ~ Dictionary(Int32,Utf8) (~ Utf8View table column), Timestamp s/ms/us/ns/ms+UTC -> us, Decimal(5,1)/(7,2) -> (10,2); struct with reordered / missing / extra fields and a nested struct field (two levels); List<Struct>",
        "struct columns are compared field by field plus `st IS NULL` (NULL struct vs struct of NULLs is distinguished); list-of-struct has one element per row; every fifth case stores the same logical files as NDJSON (missing keys, reordered / extra struct fields, null structs); CSV is positional and is not generated",
        "Parquet files in an in-memory object store, read through ListingTable with an explicit schema",
    ])
