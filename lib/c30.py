"""C30 — produced batches conform to the declared schema.

Same recorder as C28 (observer above every node of every optimised physical plan, real execution).  TLC validates
each event log against OperatorContract.C30Viol: every emitted batch has the operator's declared column count, the
declared data type column by column (exact type token: Utf8 vs Utf8View vs Dictionary are different here), and no
NULL in a column declared non-nullable; the executed result's types are logically equivalent to the logical plan's
(DataFrame::schema) types (tokens normalised over dictionary/view/large encodings); every scalar-function
invocation (each ScalarFunctionExpr of a single-input node applied by the engine's evaluator to every batch the
node's input emitted) returns the declared return type and one value per input row."""
import json, collections
from common import *
import contract

QUICK_CFG = ["A1", "B4", "M4", "V4"]
ALL_CFG = ["A1", "B4", "P4", "M4", "S3", "R2", "V4", "Q1", "Q4", "N2", "F4"]

FUNCS = [
    "SELECT upper(c3) AS a, lower(c3) AS b, length(c3) AS c, concat(c3, 'x', c3) AS d, substr(c3, 1, 1) AS e, c3 || 'z' AS f FROM t1",
    "SELECT trim(c3) AS a, lpad(c3, 3, '-') AS b, replace(c3, 'a', 'q') AS c, strpos(c3, 'b') AS d, starts_with(c3, 'a') AS e, reverse(c3) AS f FROM t1",
    "SELECT abs(c1) AS a, ceil(c1 / 2.0) AS b, floor(c1 / 2.0) AS c, round(c1 / 3.0, 1) AS d, signum(c1) AS e, power(c1, 2) AS f, sqrt(abs(c1)) AS g FROM t2",
    "SELECT coalesce(c1, c2, 0) AS a, nullif(c1, c2) AS b, nvl(c1, 7) AS c, greatest(c1, c2) AS d, least(c1, c2, 1) AS e FROM t2",
    "SELECT CAST(c1 AS INT) AS a, CAST(c1 AS SMALLINT) AS b, CAST(c1 AS DOUBLE) AS c, CAST(c1 AS VARCHAR) AS d, CAST(c3 AS INT) AS e, arrow_typeof(c1) AS f FROM t3 AS x",
    "SELECT to_timestamp(c1) AS a, date_trunc('day', to_timestamp(c1)) AS b, date_part('year', to_timestamp(c1)) AS c, to_hex(abs(c1)) AS d FROM t2",
    "SELECT c3, count(*) AS n, sum(c1) AS s, avg(c2) AS a, min(c3) AS mn, max(c3) AS mx, bool_and(c1 > 0) AS ba, string_agg(c3, ',') AS sa FROM t1 GROUP BY c3",
    "SELECT c1, array_agg(c2) AS l, approx_distinct(c2) AS d, median(c2) AS m, stddev(c2) AS sd, var_pop(c2) AS v, corr(c1, c2) AS cr FROM t2 GROUP BY c1",
    "SELECT c1, row_number() OVER (ORDER BY c1) AS rn, dense_rank() OVER (ORDER BY c2) AS dr, percent_rank() OVER (ORDER BY c2) AS pr, cume_dist() OVER (ORDER BY c2) AS cd, lead(c3) OVER (ORDER BY c1) AS ld, nth_value(c2, 2) OVER (ORDER BY c1) AS nv FROM t1",
    "SELECT c1 IS NULL AS a, c2 LIKE 'a%' AS b, c2 IN ('a', 'b') AS c, c1 BETWEEN 0 AND 1 AS d, NOT c3 AS e, c3 IS NOT TRUE AS f, CASE WHEN c3 THEN c1 ELSE c1 + 1 END AS g FROM t3",
    "SELECT md5(c3) AS a, sha256(c3) AS b, ascii(c3) AS c, chr(65 + abs(c1)) AS d, repeat(c3, 2) AS e, split_part(c3, 'b', 1) AS f, btrim(c3, 'a') AS g, initcap(c3) AS h FROM t1",
    "SELECT make_array(c1, c2) AS a, array_length(make_array(c1, c2)) AS b, named_struct('x', c1, 'y', c3) AS s, array_element(make_array(c1, c2), 1) AS e FROM t1",
    "SELECT c1 & c2 AS a, c1 | c2 AS b, c1 << 1 AS d, c1 % 2 AS e, -c1 AS f, gcd(c1, c2) AS g, factorial(abs(c1)) AS h FROM t2 WHERE c1 IS NOT NULL",
    "SELECT u.a, u.b FROM (SELECT c1 AS a, c2 AS b FROM t2 UNION ALL SELECT CAST(c1 AS INT) AS a, c1 AS b FROM t3 UNION ALL SELECT 1 AS a, NULL AS b) u",
    "SELECT c1, c2 FROM t2 WHERE c1 = (SELECT count(*) FROM t3) OR c2 IN (SELECT length(c2) FROM t3)",
    "SELECT a.c1, b.c3, coalesce(b.c2, 'none') AS k FROM t1 a LEFT JOIN t3 b ON a.c1 = b.c1",
    "SELECT a.c1, b.c1 AS e, a.c3 = b.c2 AS m FROM t1 a FULL JOIN t3 b ON a.c3 = b.c2",
    "SELECT count(*) AS n, count(c1) AS n1, min(c1) AS mn, max(c3) AS mx FROM t1",
    "SELECT * FROM (VALUES (1, 'a', true), (2, NULL, false), (NULL, 'b', NULL)) AS v(x, y, z) WHERE x > 0 OR z",
    "SELECT unnest(make_array(c1, c2)) AS u, c1 FROM t2",
]


def known_key(run, node, k):
    _, p, f, idx = k
    if node["name"] == "PlaceholderRowExec" and f in ("type", "nonnull"):
        types = {t for s in node["streams"] for b in s["batches"] for t in b["types"]}
        if types == {"Null"} and all(b["n"] == 1 for s in node["streams"] for b in s["batches"]):
            return "placeholder-row-emits-null-typed-columns"
    return None


def run(ctx):
    build("vcontract")
    if ctx.replay:
        rp = json.load(open(ctx.replay))
        line = rp["line"]
        runs, _ = contract.record(ctx, [line])
        meta = {line["id"]: {"sql": line["sql"], "tables": line["tables"], "cfg": line["cfg"]["name"], "case": None}}
        res = contract.judge(ctx, "C30", runs, meta, known_key=known_key)
        write_evidence(ctx, "exploration", {"evaluations": 1, "distinct_nontrivial": 2, "rule": "replay of one recorded run",
                                            "samples": [{"sql": line["sql"]}], **res})
        return
    cfgs = QUICK_CFG if ctx.quick else ALL_CFG
    lines, meta, tlcruns = contract.build_runs(ctx, n_tlc=60 if ctx.quick else 400, n_big=1 if ctx.quick else 6, configs=cfgs,
                                               corpus=1 if ctx.quick else 3, extra_corpus=FUNCS, corpus_tlc_db=not ctx.quick, corpus_cfgs=2 if ctx.quick else None,
                                               gens=None if ctx.quick else [(2, 2, ctx.seed), (3, 2, ctx.seed + 1000), (4, 1, ctx.seed + 2000)])
    contract.matrix_runs(ctx, lines, meta, thorough=not ctx.quick)
    runs, summary = contract.record(ctx, lines)
    res = contract.judge(ctx, "C30", runs, meta, known_key=known_key)
    judged_ops = contract.require_operators([r for r in runs if r["status"] == "ok"], contract.REQUIRED_OPERATORS)
    ok = [r for r in runs if r["status"] == "ok"]
    types = collections.Counter(c["t"] + ("" if c["n"] else " NOT NULL") for r in ok for n in r["nodes"] for c in n["schema"])
    fcalls = collections.Counter()
    for r in ok:
        for n in r["nodes"]:
            for f in n["fns"]:
                fcalls[f["f"] + " -> " + f["t"]] += len(f["calls"])
    batches = sum(len(s["batches"]) for r in ok for n in r["nodes"] for s in n["streams"])
    nonnull_cols = sum(1 for r in ok for n in r["nodes"] for c in n["schema"] if not c["n"])
    nontrivial = {r["plan"] + meta[r["id"]]["cfg"] for r in ok if any(b["n"] > 0 for n in r["nodes"] for s in n["streams"] for b in s["batches"])}
    sample = next((r for r in ok if any(n["fns"] for n in r["nodes"])), ok[0])
    write_evidence(ctx, "exploration", {
        "evaluations": len(ok), "distinct_nontrivial": len(nontrivial),
        "rule": "case = one query under one session configuration, planned and executed by the real engine with an observer above every plan node; "
                "every emitted batch of every node is judged; non-trivial = distinct <physical plan, configuration> in which at least one non-empty batch was emitted",
        "samples": [{"sql": meta[sample["id"]]["sql"], "cfg": meta[sample["id"]]["cfg"],
                     "root_schema": sample["root"], "logical_schema": sample["logical"],
                     "functions": [f for n in sample["nodes"] for f in n["fns"]][:4]}],
        "configurations": cfgs + sorted({c for f in contract.FAMILIES.values() for c in f[1]}), "operator_coverage": contract.coverage(ok),
        "operators_judged_output_consumed_in_full": judged_ops, "operator_types_not_reached": contract.NOT_REACHED, "batches_judged": batches,
        "declared_column_types": dict(types.most_common(40)), "non_nullable_columns_judged": nonnull_cols,
        "scalar_function_invocations": dict(sorted(fcalls.items())), "sources": dict(collections.Counter(meta[r["id"]]["src"] for r in ok)),
        "tlc_generated_cases": sum(t.distinct for t in tlcruns), **res,
    }, assumptions=[
        "observers are shown inert on every run (same result bag as the un-instrumented plan; LIMIT/OFFSET without a total order exempt)",
        "type tokens are arrow DataType display strings; the operator-vs-batch comparison is exact, the logical-vs-physical comparison maps Dictionary(_, T) -> T and "
        "Utf8View / LargeUtf8 -> Utf8 (BinaryView / LargeBinary -> Binary)",
        "scalar-function invocations are re-enacted: the node's ScalarFunctionExprs are evaluated by the engine's evaluator on the batches recorded from the node's input "
        "(single-input nodes); window / aggregate function outputs are covered through the batch-vs-declared-schema comparison of their operators",
        "self-test on every run: recorded logs are corrupted (batch type changed, NULL in a non-nullable column, column count) and TLC must reject each",
    ])
